//! C13 — element-wise mapping operations follow their positional definitions.
use mc_adapt::backends::*;
use mc_adapt::maps::*;
use mc_checks::*;
use mc_ref::map::map_model;
use tevec::prelude::{Cast, IsNone, Number, Vec1View};

fn lags(len: usize) -> Vec<i32> {
    let l = len as i32;
    let mut v: Vec<i32> = (-l - 3..=l + 3).collect();
    v.extend([i32::MIN, i32::MAX]);
    v
}

fn ops(len: usize, alpha: &[X], numeric: bool) -> Vec<MapOp> {
    let mut v = vec![];
    let fills: [Option<X>; 3] = [None, Some(None), Some(Some(7.0))];
    for n in lags(len) {
        for f in fills {
            v.push(MapOp::VShift(n, f));
            if numeric {
                v.push(MapOp::VDiff(n, f));
            }
        }
        v.push(MapOp::Shift(n, None));
        v.push(MapOp::Shift(n, Some(7.0)));
        v.push(MapOp::VPct(n));
    }
    for f in fills {
        v.extend([MapOp::Ffill(f), MapOp::Bfill(f), MapOp::FfillMask0(f), MapOp::BfillMask0(f)]);
    }
    v.extend([MapOp::Fill(None), MapOp::Fill(Some(7.0)), MapOp::FillMask0(None), MapOp::FillMask0(Some(7.0)), MapOp::VAbs]);
    if numeric {
        v.push(MapOp::Abs);
    }
    for lo in alpha {
        for hi in alpha {
            v.push(MapOp::VClip(*lo, *hi));
        }
    }
    v
}

fn classify(op: &MapOp, x: &[X], pos: Option<usize>, got: &Outcome<Drained>) -> Option<String> {
    let len = x.len();
    match op {
        // F11: shift has no guard for |n| > len (underflow for n > 0, n_abs items for n < 0)
        MapOp::Shift(n, _) if n.unsigned_abs() as usize > len => Some("F11".into()),
        // F17: the first n places hold x[i] - fill instead of fill
        MapOp::VDiff(n, Some(Some(_))) if *n > 0 && pos.map_or(false, |p| p < *n as usize) => Some("F17".into()),
        // F18: lag 0 returns 0 at null (and zero-base) positions
        MapOp::VDiff(0, _) | MapOp::VPct(0) => match (pos, got) {
            (Some(p), Outcome::Ok(d)) if p < d.cells.len() && d.cells[p].num() == Some(0.0) && (x[p].is_none() || x[p] == Some(0.0)) => Some("F18".into()),
            _ => None,
        },
        _ => None,
    }
}

/// judge one run of an operation; returns the first failing position
fn judge(op: &MapOp, x: &[X], got: &Outcome<Drained>) -> Option<(Option<usize>, String, String)> {
    let model = map_model(op, x);
    let d = match got {
        Outcome::Panic(m) => return Some((None, format!("{} elements {}", x.len(), show_exps(&model)), format!("PANIC({})", truncate(m, 100)))),
        Outcome::Ok(d) => d,
    };
    if d.capped || d.cells.len() != x.len() {
        return Some((None, format!("{} elements", x.len()), format!("{}{} elements {}", if d.capped { ">= " } else { "" }, d.cells.len(), truncate(&show_cells(&d.cells), 120))));
    }
    let cmp = if matches!(op, MapOp::VPct(_)) { Cmp::Tol } else { Cmp::Exact };
    for (i, (g, e)) in d.cells.iter().zip(&model).enumerate() {
        let ok = if e.any && !e.null_ok { !g.is_null() } else { satisfies(g, e, cmp, OutKind::F64) };
        if !ok {
            return Some((Some(i), e.show(), g.show()));
        }
    }
    None
}

fn check_ty<T>(fam: &str, tname: &str, word: &[u8], x: &[X], alpha: &[X], ctx: &mut Ctx, numeric: bool, run: fn(&MapOp, &Vec<T>) -> Option<Outcome<Drained>>)
where
    T: Elem,
{
    if !encodable::<T>(x) {
        return;
    }
    let v: Vec<T> = enc_vec(x);
    let len = x.len();
    for op in ops(len, alpha, numeric) {
        // a null fill for an element type without null is the documented panic of none()
        if !T::NULLABLE
            && matches!(&op, MapOp::VShift(_, None | Some(None)) | MapOp::VDiff(_, None | Some(None)) | MapOp::FfillMask0(None | Some(None)) | MapOp::BfillMask0(None | Some(None)))
        {
            continue;
        }
        let got = match run(&op, &v) {
            None => continue,
            Some(g) => g,
        };
        ctx.eval(fam, match &got { Outcome::Ok(d) => hash_cells(&d.cells), Outcome::Panic(m) => hash_bytes(m.as_bytes()) });
        if let Some((pos, exp, g)) = judge(&op, x, &got) {
            ctx.violation(Violation {
                entry: op.name(),
                finding: classify(&op, x, pos, &got),
                size: len * 100,
                case: json!({"family": fam, "word": word, "series": json_word(x), "elem": tname, "op": op.show(), "pos": pos}),
                expected: exp,
                got: format!("{g} (output {})", match &got { Outcome::Ok(d) => truncate(&show_cells(&d.cells), 150), Outcome::Panic(m) => truncate(m, 80) }),
            });
            continue;
        }
        if ctx.samples.len() < 3 && len == 5 && matches!(op, MapOp::VDiff(2, None) | MapOp::Bfill(None)) && x.iter().flatten().count() == 3 {
            if let Outcome::Ok(d) = &got {
                ctx.sample(json!({"op": op.show(), "series": json_word(x), "elem": tname, "model": show_exps(&map_model(&op, x)), "observed": show_cells(&d.cells)}));
            }
        }
        // scaling relation (power-of-two factors commute with every floating-point operation involved):
        // pct_change(s*x) == pct_change(x) and vdiff(s*x) == s*vdiff(x). Exposes magnitude-dependent
        // thresholds (a "zero base" test with a tolerance) that the unit-scale alphabet cannot.
        if tname == "f64" && matches!(op, MapOp::VPct(_) | MapOp::VDiff(_, None)) {
            if let Outcome::Ok(d) = &got {
                for e in [-70i32, 70, -300] {
                    let sc = 2f64.powi(e);
                    let xs: Vec<X> = x.iter().map(|v| v.map(|a| a * sc)).collect();
                    if let Some(Outcome::Ok(ds)) = run(&op, &enc_vec::<T>(&xs)) {
                        ctx.evals += 1;
                        let k = if matches!(op, MapOp::VPct(_)) { 1.0 } else { sc };
                        let same = ds.cells.len() == d.cells.len() && d.cells.iter().zip(&ds.cells).all(|(a, b)| match (a.num(), b.num()) {
                            (None, None) => true,
                            (Some(p), Some(q)) => p * k == q,
                            _ => false,
                        });
                        if !same {
                            ctx.violation(Violation {
                                entry: format!("scaling:{}", op.name()),
                                finding: None,
                                size: len * 100,
                                case: json!({"family": fam, "word": word, "series": json_word(x), "elem": tname, "op": op.show(), "scale": format!("2^{e}")}),
                                expected: format!("{} * {}", k, show_cells(&d.cells)),
                                got: show_cells(&ds.cells),
                            });
                        }
                    }
                }
            }
        }
        // clip with lower <= upper: results inside the bounds, and clipping again changes nothing
        if let (MapOp::VClip(lo, hi), Outcome::Ok(d)) = (&op, &got) {
            let ordered = !matches!((lo, hi), (Some(l), Some(h)) if l > h);
            if ordered {
                let y: Vec<X> = d.cells.iter().map(|c| c.num()).collect();
                let inside = y.iter().flatten().all(|v| lo.map_or(true, |l| *v >= l) && hi.map_or(true, |h| *v <= h));
                let again = run(&op, &enc_vec::<T>(&y));
                ctx.evals += 1;
                let idem = matches!(&again, Some(Outcome::Ok(d2)) if cells_eq(&d2.cells, &d.cells, exact_eq));
                if !inside || !idem {
                    ctx.violation(Violation {
                        entry: "vclip(laws)".into(),
                        finding: None,
                        size: len * 100,
                        case: json!({"family": fam, "word": word, "series": json_word(x), "elem": tname, "op": op.show()}),
                        expected: "all non-null results inside [lower, upper] and clip(clip(x)) == clip(x)".into(),
                        got: format!("clip(x) = {}, clip(clip(x)) = {:?}", show_cells(&d.cells), again.and_then(|o| o.ok()).map(|d| show_cells(&d.cells))),
                    });
                }
            }
        }
    }
}

/// view-based operations (vdiff, vpct_change) and shifts on every input back end
struct Vis<'a> {
    x: &'a [X],
    word: &'a [u8],
    ctx: &'a mut Ctx,
    tname: &'static str,
}
impl<'a> Vis<'a> {
    fn go<V, T>(&mut self, name: &str, v: &V, numeric: bool, run: fn(&MapOp, &V) -> Option<Outcome<Drained>>)
    where
        V: Vec1View<T>,
    {
        let fam = "backends";
        let len = self.x.len();
        for n in lags(len) {
            let mut list = vec![MapOp::VPct(n), MapOp::VShift(n, None), MapOp::Shift(n, Some(7.0))];
            if numeric {
                list.push(MapOp::VDiff(n, None));
                list.push(MapOp::VDiff(n, Some(Some(7.0))));
            }
            for op in list {
                let got = match run(&op, v) {
                    None => continue,
                    Some(g) => g,
                };
                self.ctx.eval(fam, match &got { Outcome::Ok(d) => hash_cells(&d.cells), Outcome::Panic(m) => hash_bytes(m.as_bytes()) });
                if let Some((pos, exp, g)) = judge(&op, self.x, &got) {
                    self.ctx.violation(Violation {
                        entry: op.name(),
                        finding: classify(&op, self.x, pos, &got),
                        size: len * 100,
                        case: json!({"family": fam, "word": self.word, "series": json_word(self.x), "elem": self.tname, "backend": name, "op": op.show(), "pos": pos}),
                        expected: exp,
                        got: g,
                    });
                }
            }
        }
    }
}
impl<'a> BackendVisitor<f64> for Vis<'a> {
    fn visit<V: Vec1View<f64> + SliceRead<f64>>(&mut self, name: &str, v: &V) {
        self.go::<V, f64>(name, v, true, run_map_num::<V, f64>);
    }
}
impl<'a> BackendVisitor<Option<f64>> for Vis<'a> {
    fn visit<V: Vec1View<Option<f64>> + SliceRead<Option<f64>>>(&mut self, name: &str, v: &V) {
        self.go::<V, Option<f64>>(name, v, false, run_map_any::<V, Option<f64>>);
    }
}

struct Fam {
    alpha: Vec<X>,
    max_len: usize,
    backend_len: usize,
}
fn num_runner<T>(op: &MapOp, v: &Vec<T>) -> Option<Outcome<Drained>>
where
    T: Elem + Number + PartialEq + IsNone<Inner = T>,
    f64: Cast<T>,
{
    run_map_num::<Vec<T>, T>(op, v)
}
fn any_runner<T>(op: &MapOp, v: &Vec<T>) -> Option<Outcome<Drained>>
where
    T: Elem + IsNone + PartialEq + Cast<f64>,
    T::Inner: Number,
    f64: Cast<T>,
{
    run_map_any::<Vec<T>, T>(op, v)
}
impl Fam {
    fn check_word(&self, word: &[u8], ctx: &mut Ctx) {
        let x = decode(word, &self.alpha);
        let fam = "maps";
        ctx.fam(fam).states += 1;
        if x.iter().any(|v| v.is_some()) {
            ctx.nontrivial(fam, hash_bytes(word));
        }
        check_ty::<f64>(fam, "f64", word, &x, &self.alpha, ctx, true, num_runner::<f64>);
        check_ty::<f32>(fam, "f32", word, &x, &self.alpha, ctx, true, num_runner::<f32>);
        check_ty::<i32>(fam, "i32", word, &x, &self.alpha, ctx, true, num_runner::<i32>);
        check_ty::<Option<f64>>(fam, "Option<f64>", word, &x, &self.alpha, ctx, false, any_runner::<Option<f64>>);
        check_ty::<Option<i32>>(fam, "Option<i32>", word, &x, &self.alpha, ctx, false, any_runner::<Option<i32>>);
        if x.len() <= self.backend_len {
            ctx.fam("backends").states += 1;
            {
                let mut vis = Vis { x: &x, word, ctx, tname: "f64" };
                for_backends::<f64, _>(&x, 1, &mut vis);
            }
            {
                let mut vis = Vis { x: &x, word, ctx, tname: "Option<f64>" };
                for_backends_opt(&x, 1, &mut vis);
            }
        }
    }
}
impl TreeSys for Fam {
    type Memo = ();
    fn k(&self) -> usize {
        self.alpha.len()
    }
    fn max_len(&self) -> usize {
        self.max_len
    }
    fn name(&self) -> String {
        "maps".into()
    }
    fn visit(&self, w: &[u8], _p: Option<&()>, ctx: &mut Ctx) {
        self.check_word(w, ctx)
    }
}

/// long structured series (DESIGN 5.14): every lag of the band around the (large) length, long null runs
/// the lazy results consumed through `nth(j)` first (round 11): the items are those of the full result from
/// position j on, and the length announced after the call is the number of items still to come
fn check_nth(word: &[u8], alpha: &[X], ctx: &mut Ctx) {
    let fam = "maps-nth";
    let x = decode(word, alpha);
    let len = x.len();
    ctx.fam(fam).states += 1;
    if len == 0 {
        return;
    }
    ctx.nontrivial(fam, hash_bytes(word));
    let v: Vec<f64> = enc_vec(&x);
    for op in ops(len, alpha, true) {
        let full = match run_map_num::<Vec<f64>, f64>(&op, &v) {
            Some(Outcome::Ok(d)) => d.cells,
            _ => continue, // panics and non-existent cells: the main family
        };
        for j in 0..=len {
            ctx.transitions += 1;
            let got = mc_adapt::maps::with_nth(j, || run_map_num::<Vec<f64>, f64>(&op, &v));
            let got = match got {
                Some(g) => g,
                None => continue,
            };
            ctx.eval(fam, match &got { Outcome::Ok(d) => mix(hash_cells(&d.cells), d.hint.0 as u64), Outcome::Panic(m) => hash_bytes(m.as_bytes()) });
            let want: Vec<Cell> = full.iter().skip(j).cloned().collect();
            let remaining = want.len().saturating_sub(1);
            let ok = matches!(&got, Outcome::Ok(d) if cells_eq(&d.cells, &want, exact_eq) && d.hint == (remaining, Some(remaining)));
            if !ok {
                ctx.violation(Violation {
                    entry: format!("{} after nth({j})", op.name()),
                    finding: None,
                    size: len * 100 + j,
                    case: json!({"family": fam, "word": word, "series": json_word(&x), "op": op.show(), "nth": j}),
                    expected: format!("items {} ; announced length after nth = {remaining}", truncate(&show_cells(&want), 120)),
                    got: match &got { Outcome::Ok(d) => format!("items {} ; size_hint after nth = {:?}", truncate(&show_cells(&d.cells), 120), d.hint), Outcome::Panic(m) => format!("PANIC({})", truncate(m, 80)) },
                });
            } else {
                ctx.traces += 1;
            }
        }
    }
}

fn maps_long(thorough: bool, threads: usize, alpha: &[X]) -> Ctx {
    let lens: Vec<usize> = if thorough { vec![24, 40, 130] } else { vec![24] };
    let mut items: Vec<(String, Vec<X>)> = vec![];
    for len in lens {
        items.extend(rollcheck::structured_shapes(len, true).into_iter().enumerate().filter(|(i, _)| i % 2 == 0).map(|(_, s)| s));
    }
    par_items(&items, threads, |(_l, x), ctx| {
        let fam = "maps-long";
        ctx.states += 1;
        ctx.transitions += 1;
        ctx.fam(fam).states += 1;
        ctx.nontrivial(fam, hash_u64s(&x.iter().map(|v| v.map_or(7, |a| a.to_bits())).collect::<Vec<_>>()));
        check_ty::<f64>(fam, "f64", &[], x, alpha, ctx, true, num_runner::<f64>);
        check_ty::<Option<f64>>(fam, "Option<f64>", &[], x, alpha, ctx, false, any_runner::<Option<f64>>);
    })
}

/// clip on an element type whose order is hand-written (durations with a calendar part): ordered by (months, rest)
fn check_durations(word: &[u8], ctx: &mut Ctx) {
    use tevec::prelude::*;
    const TD: [&str; 6] = ["-1mo", "0s", "10d", "1mo", "1mo1d", "3mo"];
    let fam = "maps-durations";
    ctx.states += 1;
    ctx.transitions += 1;
    ctx.fam(fam).states += 1;
    ctx.nontrivial(fam, hash_bytes(word));
    let tds: Vec<TimeDelta> = TD.iter().map(|t| TimeDelta::parse(t).unwrap()).collect();
    let key = |t: &TimeDelta| (t.months, t.inner);
    // symbol 0 = null, 1.. = durations
    let mk = |s: u8| if s == 0 { TimeDelta::nat() } else { tds[s as usize - 1] };
    let v: Vec<TimeDelta> = word.iter().map(|s| mk(*s)).collect();
    let show = |t: &TimeDelta| if t.is_none() { "null".to_string() } else { TD[tds.iter().position(|d| key(d) == key(t)).unwrap_or(0)].to_string() };
    for lo in 0..=TD.len() as u8 {
        for hi in 0..=TD.len() as u8 {
            if lo != 0 && hi != 0 && key(&mk(lo)) > key(&mk(hi)) {
                continue; // lower > upper: nothing claimed (DESIGN 5.6)
            }
            let (l, h) = (mk(lo), mk(hi));
            let want: Vec<TimeDelta> = v
                .iter()
                .map(|x| {
                    if x.is_none() {
                        *x
                    } else if lo != 0 && key(x) < key(&l) {
                        l
                    } else if hi != 0 && key(x) > key(&h) {
                        h
                    } else {
                        *x
                    }
                })
                .collect();
            for opt_view in [false, true] {
                let got = catch(|| -> Vec<String> {
                    if opt_view {
                        v.opt().titer().vclip(l.to_opt(), h.to_opt()).map(|x| x.map_or("null".to_string(), |t| show(&t))).collect()
                    } else {
                        v.titer().vclip(l, h).map(|x| show(&x)).collect()
                    }
                });
                let want_s: Vec<String> = want.iter().map(show).collect();
                ctx.eval(fam, hash_bytes(format!("{got:?}").as_bytes()));
                if !matches!(&got, Outcome::Ok(g) if *g == want_s) {
                    ctx.violation(Violation {
                        entry: "vclip on TimeDelta".into(),
                        finding: None,
                        size: word.len() * 100,
                        case: json!({"family": fam, "word": word, "series": v.iter().map(show).collect::<Vec<_>>(), "lower": show(&l), "upper": show(&h), "elem": if opt_view { "Option<TimeDelta> (option view)" } else { "TimeDelta" }}),
                        expected: format!("{want_s:?}"),
                        got: format!("{got:?}"),
                    });
                }
            }
        }
    }
}

/// infinities are ordinary values for shifts, fills, clips and abs; a difference or ratio of two infinities is
/// not a number, hence null
fn inf_alpha() -> Vec<X> {
    vec![None, Some(f64::NEG_INFINITY), Some(0.0), Some(1.0), Some(f64::INFINITY)]
}
fn check_inf(word: &[u8], ctx: &mut Ctx) {
    let fam = "maps-inf";
    let alpha = inf_alpha();
    let x = decode(word, &alpha);
    ctx.states += 1;
    ctx.transitions += 1;
    ctx.fam(fam).states += 1;
    ctx.nontrivial(fam, hash_bytes(word));
    check_ty::<f64>(fam, "f64", word, &x, &alpha, ctx, true, num_runner::<f64>);
    check_ty::<f32>(fam, "f32", word, &x, &alpha, ctx, true, num_runner::<f32>);
    check_ty::<Option<f64>>(fam, "Option<f64>", word, &x, &alpha, ctx, false, any_runner::<Option<f64>>);
}

/// every NaN is the same null (DESIGN 5.4): the float encodings with the nulls written as the run-time NaN of
/// x86-64 (sign bit set) and as both NaN kinds mixed
fn check_nan_kinds(word: &[u8], alpha: &[X], ctx: &mut Ctx) {
    let fam = "maps-nan-kinds";
    let x = decode(word, alpha);
    ctx.states += 1;
    ctx.transitions += 1;
    ctx.fam(fam).states += 1;
    ctx.nontrivial(fam, hash_bytes(word));
    for kind in [1u8, 3] {
        with_nan_kind(kind, || {
            check_ty::<f64>(fam, "f64", word, &x, alpha, ctx, true, num_runner::<f64>);
            check_ty::<f32>(fam, "f32", word, &x, alpha, ctx, true, num_runner::<f32>);
        });
    }
}

fn main() {
    let run = Run::from_args("C13");
    let fam = Fam { alpha: vec![None, Some(-1.0), Some(0.0), Some(2.0)], max_len: run.pick(6, 9), backend_len: run.pick(3, 5) };
    if let Some(path) = &run.replay {
        let stored = load_replay(path).unwrap_or_else(|e| {
            eprintln!("MACHINERY-ERROR: {e}");
            std::process::exit(2)
        });
        let mut ctx = Ctx::new();
        if stored["case"]["family"] == "maps-durations" {
            check_durations(&syms_from_json(&stored["case"]["word"]), &mut ctx);
        } else if stored["case"]["family"] == "maps-nth" {
            check_nth(&syms_from_json(&stored["case"]["word"]), &fam.alpha, &mut ctx);
        } else if stored["case"]["family"] == "maps-inf" {
            check_inf(&syms_from_json(&stored["case"]["word"]), &mut ctx);
        } else if stored["case"]["family"] == "maps-nan-kinds" {
            check_nan_kinds(&syms_from_json(&stored["case"]["word"]), &fam.alpha, &mut ctx);
        } else if stored["case"]["family"] == "maps-long" {
            let x = word_from_json(&stored["case"]["series"]);
            check_ty::<f64>("maps-long", "f64", &[], &x, &fam.alpha, &mut ctx, true, num_runner::<f64>);
            check_ty::<Option<f64>>("maps-long", "Option<f64>", &[], &x, &fam.alpha, &mut ctx, false, any_runner::<Option<f64>>);
        } else {
            fam.check_word(&syms_from_json(&stored["case"]["word"]), &mut ctx);
        }
        std::process::exit(finish_replay(&run, &stored, ctx));
    }
    let mut total = explore_tree(&fam, run.threads);
    total.merge(maps_long(!run.quick(), run.threads, &fam.alpha));
    let nth_words = all_words_upto(fam.alpha.len(), run.pick(4, 5));
    total.merge(par_items(&nth_words, run.threads, |w, ctx| check_nth(w, &fam.alpha, ctx)));
    let td_words = all_words_upto(7, run.pick(3, 4));
    total.merge(par_items(&td_words, run.threads, |w, ctx| check_durations(w, ctx)));
    let inf_words = all_words_upto(inf_alpha().len(), run.pick(4, 5));
    total.merge(par_items(&inf_words, run.threads, |w, ctx| check_inf(w, ctx)));
    let nan_words: Vec<Vec<u8>> = all_words_upto(fam.alpha.len(), run.pick(5, 6)).into_iter().filter(|w| w.contains(&0)).collect();
    total.merge(par_items(&nan_words, run.threads, |w, ctx| check_nan_kinds(w, &fam.alpha, ctx)));
    let meta = Meta {
        rule: "history tree of every word over {null,-1,0,2}; at each word every operation (shift, vshift, vdiff, vpct_change with every lag in -len-3..=len+3 and i32::MIN/MAX and every fill; ffill/bfill/fill and their mask forms; vclip with every ordered and unordered pair of bounds incl. null; abs, vabs) on f64/f32/i32/Option<f64>/Option<i32>, consumed by plain safe iteration and compared element by element with the positional definition; length law; clip containment and idempotence; short words on every input back end; the same operations on long structured series (24 / 40 / 130 elements, null blocks and periodic nulls). Non-trivial = word with a non-null element. Also (DESIGN 5.15, 5.16): NaN kinds (maps-nan-kinds); infinities in every operation (maps-inf: a difference or ratio of two infinities is null). Round 9 (DESIGN 5.18): maps-durations - vclip on TimeDelta / Option<TimeDelta> words with plain and month-bearing elements and bounds, NaT bounds included, against the ordered-clip model. Round 11 (DESIGN 5.20): maps-nth - every lazy result advanced by nth(j) first: the items are those of the full result from position j on, the length announced afterwards is the number of items still to come.".into(),
        bounds: json!({"alphabet": json_word(&fam.alpha), "L": fam.max_len, "backend_L": fam.backend_len, "lags": "-len-3..=len+3, i32::MIN, i32::MAX", "fills": ["omitted", "null", 7]}),
        assumptions: vec!["vclip with lower > upper: only length and null preservation (DESIGN 5.6)".into(), "vdiff on numeric element types only (needs Sub), DESIGN 5.8".into()],
        exhaustive: true,
        min_states: 1000,
    };
    std::process::exit(finish(&run, meta, total));
}
