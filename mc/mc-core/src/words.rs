//! Enumerators of finite spaces: words, de Bruijn sequences, permutations, subsets.

/// Calls `f` on every word of length exactly `len` over `0..k`, in lexicographic order.
pub fn for_words_exact(k: usize, len: usize, f: &mut dyn FnMut(&[u8])) {
    let mut w = vec![0u8; len];
    if k == 0 {
        if len == 0 {
            f(&w);
        }
        return;
    }
    loop {
        f(&w);
        // increment
        let mut i = len;
        loop {
            if i == 0 {
                return;
            }
            i -= 1;
            if (w[i] as usize) + 1 < k {
                w[i] += 1;
                break;
            } else {
                w[i] = 0;
            }
        }
    }
}

/// Every word of length 0..=max_len (shortest first).
pub fn for_words_upto(k: usize, max_len: usize, f: &mut dyn FnMut(&[u8])) {
    for l in 0..=max_len {
        for_words_exact(k, l, f);
    }
}

pub fn all_words_upto(k: usize, max_len: usize) -> Vec<Vec<u8>> {
    let mut v = Vec::new();
    for_words_upto(k, max_len, &mut |w| v.push(w.to_vec()));
    v
}

/// de Bruijn sequence B(k, n): a cyclic sequence of length k^n in which every word of
/// length n over 0..k occurs exactly once. Returned linearised (first n-1 symbols appended)
/// so every word occurs as a contiguous window.
pub fn de_bruijn(k: usize, n: usize) -> Vec<u8> {
    fn db(t: usize, p: usize, k: usize, n: usize, a: &mut Vec<u8>, seq: &mut Vec<u8>) {
        if t > n {
            if n % p == 0 {
                seq.extend_from_slice(&a[1..=p]);
            }
        } else {
            a[t] = a[t - p];
            db(t + 1, p, k, n, a, seq);
            for j in (a[t - p] as usize + 1)..k {
                a[t] = j as u8;
                db(t + 1, t, k, n, a, seq);
            }
        }
    }
    let mut a = vec![0u8; k * n + 1];
    let mut seq = Vec::new();
    db(1, 1, k, n, &mut a, &mut seq);
    let head: Vec<u8> = seq[..n.saturating_sub(1).min(seq.len())].to_vec();
    seq.extend(head);
    seq
}

/// All permutations of 0..n in lexicographic order.
pub fn for_permutations(n: usize, f: &mut dyn FnMut(&[u8])) {
    let mut p: Vec<u8> = (0..n as u8).collect();
    loop {
        f(&p);
        // next permutation
        if n < 2 {
            return;
        }
        let mut i = n - 1;
        while i > 0 && p[i - 1] >= p[i] {
            i -= 1;
        }
        if i == 0 {
            return;
        }
        let mut j = n - 1;
        while p[j] <= p[i - 1] {
            j -= 1;
        }
        p.swap(i - 1, j);
        p[i..].reverse();
    }
}

/// All subsets of 0..n with at most `max` elements, as sorted index lists.
pub fn subsets_upto(n: usize, max: usize) -> Vec<Vec<usize>> {
    let mut out = Vec::new();
    for m in 0u32..(1u32 << n) {
        if (m.count_ones() as usize) <= max {
            out.push((0..n).filter(|i| m >> i & 1 == 1).collect());
        }
    }
    out.sort_by_key(|s: &Vec<usize>| (s.len(), s.clone()));
    out
}

/// Positions at which to insert `k` nulls into a base word of length `len`:
/// all multisets of k gaps out of len+1 (non-decreasing gap indices).
pub fn insertion_patterns(len: usize, k: usize) -> Vec<Vec<usize>> {
    let mut out = Vec::new();
    fn rec(start: usize, gaps: usize, k: usize, cur: &mut Vec<usize>, out: &mut Vec<Vec<usize>>) {
        if k == 0 {
            out.push(cur.clone());
            return;
        }
        for g in start..gaps {
            cur.push(g);
            rec(g, gaps, k - 1, cur, out);
            cur.pop();
        }
    }
    rec(0, len + 1, k, &mut Vec::new(), &mut out);
    out
}

#[cfg(test)]
mod tests {
    use super::*;
    #[test]
    fn db_contains_every_word_once() {
        for (k, n) in [(2usize, 3usize), (3, 3), (4, 4), (5, 3)] {
            let s = de_bruijn(k, n);
            assert_eq!(s.len(), k.pow(n as u32) + n - 1);
            let mut seen = std::collections::HashSet::new();
            for w in s.windows(n) {
                assert!(seen.insert(w.to_vec()));
            }
            assert_eq!(seen.len(), k.pow(n as u32));
        }
    }
    #[test]
    fn perms() {
        let mut c = 0;
        for_permutations(4, &mut |_| c += 1);
        assert_eq!(c, 24);
        assert_eq!(all_words_upto(3, 3).len(), 1 + 3 + 9 + 27);
        assert_eq!(insertion_patterns(2, 2).len(), 6);
    }
}
