//! C07 — results are independent of input backend, output container and out-buffer path.
//! Finite matrix: input back-end configuration x output container x {returned, caller buffer} x
//! function x logical word; oracle = the same call on a plain Vec returning a Vec.
use mc_adapt::aggs::*;
use mc_adapt::backends::*;
use mc_adapt::maps::*;
use mc_adapt::roll::*;
use mc_checks::*;
use mc_ref::order::QMethod;
use std::collections::VecDeque;

mod imp {
    use mc_adapt::backends::SliceRead;
    use mc_adapt::maps::drain;
    use mc_adapt::roll::*;
    use mc_checks::*;
    use ndarray::Array1;
    use polars::prelude::Float64Chunked;
    use std::collections::VecDeque;
    use tevec::agg::CorrMethod;
    use tevec::map::WinsorizeMethod;
    use tevec::prelude::*;

    /// a fallible item stream (vcut with values that may fall outside the bins) collected into every output
    /// container by both fallible collectors: Ok(cells) / Err - the containers must agree on the error path too
    pub fn fallible_outputs(vals: &[X]) -> Vec<(&'static str, Outcome<Result<Vec<Cell>, ()>>)> {
        let v: Vec<f64> = enc_vec(vals);
        let bins: Vec<f64> = vec![0.0, 2.0, 5.0];
        let labels: Vec<f64> = vec![100.0, 101.0];
        macro_rules! go {
            ($O:ty, $how:ident) => {
                catch(|| v.titer().vcut(&bins, &labels, true, false).expect("label count is right").$how::<$O>().map(|o| o.cells()).map_err(|_| ()))
            };
        }
        vec![
            ("Vec / try_collect_vec1", go!(Vec<f64>, try_collect_vec1)),
            ("Vec / try_collect_trusted_vec1", go!(Vec<f64>, try_collect_trusted_vec1)),
            ("VecDeque / try_collect_vec1", go!(VecDeque<f64>, try_collect_vec1)),
            ("VecDeque / try_collect_trusted_vec1", go!(VecDeque<f64>, try_collect_trusted_vec1)),
            ("Array1 / try_collect_vec1", go!(Array1<f64>, try_collect_vec1)),
            ("Array1 / try_collect_trusted_vec1", go!(Array1<f64>, try_collect_trusted_vec1)),
        ]
    }

    /// one single-series rolling call into every output container / path: (label, outcome)
    pub fn roll1_all_outputs<V, T>(f: R1, v: &V, w: usize, mp: Option<usize>) -> Vec<(&'static str, Outcome<Vec<Cell>>)>
    where
        V: Vec1View<T>,
        T: IsNone,
        T::Inner: Number,
        Option<T::Inner>: Cast<f64> + Cast<Option<f64>>,
    {
        vec![
            ("Vec/Ret", catch(|| call_v1::<V, T, Vec<f64>, f64>(f, v, w, mp, Path::Ret).cells())),
            ("Vec/Buf", catch(|| call_v1::<V, T, Vec<f64>, f64>(f, v, w, mp, Path::Buf).cells())),
            ("VecDeque/Ret", catch(|| call_v1::<V, T, VecDeque<f64>, f64>(f, v, w, mp, Path::Ret).cells())),
            ("VecDeque/Buf", catch(|| call_v1::<V, T, VecDeque<f64>, f64>(f, v, w, mp, Path::Buf).cells())),
            ("Array1/Ret", catch(|| call_v1::<V, T, Array1<f64>, f64>(f, v, w, mp, Path::Ret).cells())),
            ("Array1/Buf", catch(|| call_v1::<V, T, Array1<f64>, f64>(f, v, w, mp, Path::Buf).cells())),
            ("Float64Chunked/Ret", catch(|| call_v1::<V, T, Float64Chunked, Option<f64>>(f, v, w, mp, Path::Ret).cells())),
            ("Float64Chunked/Buf", catch(|| call_v1::<V, T, Float64Chunked, Option<f64>>(f, v, w, mp, Path::Buf).cells())),
            // caller buffers in a non-canonical physical layout
            ("VecDeque/Buf(wrapped ring, head 3)", catch(|| call_v1::<V, T, VecDeque<f64>, f64>(f, v, w, mp, Path::BufAlt(1)).cells())),
            ("VecDeque/Buf(wrapped ring, head len-1)", catch(|| call_v1::<V, T, VecDeque<f64>, f64>(f, v, w, mp, Path::BufAlt(2)).cells())),
            ("Array1/Buf(view, step 2)", catch(|| call_v1::<V, T, Array1<f64>, f64>(f, v, w, mp, Path::BufAlt(1)).cells())),
            ("Array1/Buf(reversed view)", catch(|| call_v1::<V, T, Array1<f64>, f64>(f, v, w, mp, Path::BufAlt(2)).cells())),
            ("Array1/Buf(view, step 3, offset 1)", catch(|| call_v1::<V, T, Array1<f64>, f64>(f, v, w, mp, Path::BufAlt(3)).cells())),
        ]
    }
    pub fn roll2_all_outputs<V, T>(f: R2, v: &V, second: &Vec<f64>, w: usize, mp: Option<usize>) -> Vec<(&'static str, Outcome<Vec<Cell>>)>
    where
        V: Vec1View<T>,
        T: IsNone,
        T::Inner: Number,
    {
        vec![
            ("Vec/Ret", catch(|| call_v2::<V, T, Vec<f64>, f64, Vec<f64>, f64>(f, v, second, w, mp, Path::Ret).cells())),
            ("VecDeque/Buf", catch(|| call_v2::<V, T, Vec<f64>, f64, VecDeque<f64>, f64>(f, v, second, w, mp, Path::Buf).cells())),
            ("Array1/Ret", catch(|| call_v2::<V, T, Vec<f64>, f64, Array1<f64>, f64>(f, v, second, w, mp, Path::Ret).cells())),
            ("Float64Chunked/Ret", catch(|| call_v2::<V, T, Vec<f64>, f64, Float64Chunked, Option<f64>>(f, v, second, w, mp, Path::Ret).cells())),
            ("Float64Chunked/Buf", catch(|| call_v2::<V, T, Vec<f64>, f64, Float64Chunked, Option<f64>>(f, v, second, w, mp, Path::Buf).cells())),
            ("VecDeque/Buf(wrapped ring, head 3)", catch(|| call_v2::<V, T, Vec<f64>, f64, VecDeque<f64>, f64>(f, v, second, w, mp, Path::BufAlt(1)).cells())),
            ("Array1/Buf(view, step 2)", catch(|| call_v2::<V, T, Vec<f64>, f64, Array1<f64>, f64>(f, v, second, w, mp, Path::BufAlt(1)).cells())),
            ("Array1/Buf(reversed view)", catch(|| call_v2::<V, T, Vec<f64>, f64, Array1<f64>, f64>(f, v, second, w, mp, Path::BufAlt(2)).cells())),
        ]
    }

    // ---- user-function drivers and lazy results through every sink ----
    use mc_adapt::outbuf::OutBuf;

    macro_rules! sink {
        ($O:ty, $U:ty, $path:expr, $len:expr, $fill:expr, $ret:expr, |$out:ident| $to:expr) => {
            match $path {
                Path::Ret => {
                    let r: $O = $ret;
                    r.cells()
                }
                Path::Buf => {
                    let mut buf = <$O as Vec1<$U>>::uninit($len);
                    {
                        #[allow(unused_mut)]
                        let mut $out = <$O as Vec1<$U>>::uninit_ref_mut(&mut buf);
                        $to;
                    }
                    unsafe { buf.assume_init() }.cells()
                }
                Path::BufAlt(k) => {
                    let fill = $fill;
                    #[allow(unused_mut)]
                    let vals = <$O as OutBuf<$U>>::alt_run($len, k, &fill, |mut $out| {
                        $to;
                    });
                    <$O as Vec1<$U>>::collect_from_iter(vals.into_iter()).cells()
                }
            }
        };
    }

    fn score<T: Elem>(items: &[T]) -> f64 {
        let mut s = 0.5;
        for t in items {
            s = s * 3.0 + t.dec().num().unwrap_or(-7.0);
        }
        s
    }

    pub const SINK_ENTRIES: [&str; 5] = ["rolling_custom", "rolling_apply", "rolling2_custom", "vshift(1).write / collect", "rolling_apply_idx"];

    fn sink_one<V, T, O, OT>(entry: usize, v: &V, w: usize, path: Path) -> Vec<Cell>
    where
        V: Vec1View<T> + SliceRead<T>,
        T: Elem + IsNone + Clone + 'static,
        O: Vec1<f64> + OutBuf<f64> + OutCells,
        OT: Vec1<T> + OutBuf<T> + OutCells,
    {
        let len = v.len();
        let other: Vec<f64> = (0..len).map(|i| (i * i) as f64).collect();
        match entry {
            0 => {
                let f = |s: V::SliceOutput<'_>| score(&V::read_slice(&s));
                sink!(O, f64, path, len, || -999.5, v.rolling_custom::<O, f64, _>(w, f, None).expect("no container"), |out| assert!(v.rolling_custom::<O, f64, _>(w, f, Some(out)).is_none()))
            }
            1 => {
                let f = |rm: Option<T>, add: T| score(&[add]) + rm.map_or(-0.25, |r| 10.0 * score(&[r]));
                sink!(O, f64, path, len, || -999.5, v.rolling_apply::<O, f64, _>(w, f, None).expect("no container"), |out| assert!(v.rolling_apply::<O, f64, _>(w, f, Some(out)).is_none()))
            }
            2 => {
                let f = |a: V::SliceOutput<'_>, b: &[f64]| score(&V::read_slice(&a)) + score(b) / 4.0;
                sink!(O, f64, path, len, || -999.5, v.rolling2_custom::<O, f64, Vec<f64>, f64, _>(&other, w, f, None).expect("no container"), |out| assert!(v.rolling2_custom::<O, f64, Vec<f64>, f64, _>(&other, w, f, Some(out)).is_none()))
            }
            3 => {
                // a lazy mapping result: collected into the container, or written into the caller's buffer
                let proto = if len > 0 { Some(unsafe { v.uget(0) }) } else { None };
                sink!(OT, T, path, len, move || proto.clone().unwrap(), v.titer().vshift(w as i32 - 2, None).collect_trusted_vec1::<OT>(), |out| v.titer().vshift(w as i32 - 2, None).write(&mut out).unwrap())
            }
            _ => {
                let f = |start: Option<usize>, end: usize, x: T| score(&[x]) + start.map_or(-0.25, |s| 10.0 * s as f64) + 1000.0 * end as f64;
                sink!(O, f64, path, len, || -999.5, v.rolling_apply_idx::<O, f64, _>(w, f, None).expect("no container"), |out| assert!(v.rolling_apply_idx::<O, f64, _>(w, f, Some(out)).is_none()))
            }
        }
    }

    /// every driver entry x window into every sink: (entry, window, sink label, outcome)
    pub fn sinks<V, T>(v: &V, ws: &[usize]) -> Vec<(usize, usize, &'static str, Outcome<Vec<Cell>>)>
    where
        V: Vec1View<T> + SliceRead<T>,
        T: Elem + IsNone + Clone + 'static,
    {
        let mut out = vec![];
        for e in 0..SINK_ENTRIES.len() {
            for &w in ws {
                if (e == 1 || e == 4) && w > v.len() {
                    // the removed element / window start at the last position of a window longer than the
                    // series is the explicit carve-out of C02: not demanded to agree here either
                    continue;
                }
                out.push((e, w, "Vec/Ret", catch(|| sink_one::<V, T, Vec<f64>, Vec<T>>(e, v, w, Path::Ret))));
                out.push((e, w, "Vec/Buf", catch(|| sink_one::<V, T, Vec<f64>, Vec<T>>(e, v, w, Path::Buf))));
                out.push((e, w, "VecDeque/Ret", catch(|| sink_one::<V, T, VecDeque<f64>, VecDeque<T>>(e, v, w, Path::Ret))));
                out.push((e, w, "VecDeque/Buf", catch(|| sink_one::<V, T, VecDeque<f64>, VecDeque<T>>(e, v, w, Path::Buf))));
                out.push((e, w, "VecDeque/Buf(wrapped ring, head 3)", catch(|| sink_one::<V, T, VecDeque<f64>, VecDeque<T>>(e, v, w, Path::BufAlt(1)))));
                out.push((e, w, "VecDeque/Buf(wrapped ring, head len-1)", catch(|| sink_one::<V, T, VecDeque<f64>, VecDeque<T>>(e, v, w, Path::BufAlt(2)))));
                out.push((e, w, "Array1/Ret", catch(|| sink_one::<V, T, Array1<f64>, Array1<T>>(e, v, w, Path::Ret))));
                out.push((e, w, "Array1/Buf", catch(|| sink_one::<V, T, Array1<f64>, Array1<T>>(e, v, w, Path::Buf))));
                out.push((e, w, "Array1/Buf(view, step 2)", catch(|| sink_one::<V, T, Array1<f64>, Array1<T>>(e, v, w, Path::BufAlt(1)))));
                out.push((e, w, "Array1/Buf(reversed view)", catch(|| sink_one::<V, T, Array1<f64>, Array1<T>>(e, v, w, Path::BufAlt(2)))));
                out.push((e, w, "Array1/Buf(view, step 3, offset 1)", catch(|| sink_one::<V, T, Array1<f64>, Array1<T>>(e, v, w, Path::BufAlt(3)))));
            }
        }
        out
    }

    /// aggregations through the container's own trusted iterator / view
    pub fn aggs<V, T>(v: &V) -> Vec<(String, Outcome<Vec<Cell>>)>
    where
        V: Vec1View<T>,
        T: Elem + IsNone + PartialEq + PartialOrd + Cast<f64>,
        T::Inner: Number + Elem,
        Option<T::Inner>: Elem,
        f64: Cast<T::Cast<f64>>,
        T::Cast<f64>: Elem,
    {
        let c = |x: f64| vec![Cell::f(x)];
        let mut out: Vec<(String, Outcome<Vec<Cell>>)> = vec![
            ("count_valid".into(), catch(|| vec![Cell::I(v.titer().count_valid() as i64)])),
            ("count_none".into(), catch(|| vec![Cell::I(v.titer().count_none() as i64)])),
            ("vsum".into(), catch(|| vec![v.titer().vsum().dec()])),
            ("vmean".into(), catch(|| c(v.titer().vmean()))),
            ("vfirst".into(), catch(|| vec![v.titer().vfirst().and_then(|x| x.to_opt()).dec()])),
            ("vlast".into(), catch(|| vec![v.titer().vlast().and_then(|x| x.to_opt()).dec()])),
            ("vmax".into(), catch(|| vec![v.titer().vmax().dec()])),
            ("vmin".into(), catch(|| vec![v.titer().vmin().dec()])),
            ("vargmax".into(), catch(|| vec![v.titer().vargmax().map_or(Cell::Null, |i| Cell::I(i as i64))])),
            ("vargmin".into(), catch(|| vec![v.titer().vargmin().map_or(Cell::Null, |i| Cell::I(i as i64))])),
            ("vcorr(Spearman)".into(), catch(|| vec![v.vcorr(v, Some(2), CorrMethod::Spearman).dec()])),
            ("half_life".into(), catch(|| vec![Cell::I(v.half_life(Some(2)) as i64)])),
        ];
        for mp in [0usize, 2] {
            out.push((format!("vvar({mp})"), catch(|| c(v.titer().vvar(mp)))));
            out.push((format!("vskew({mp})"), catch(|| c(v.titer().vskew(mp)))));
            out.push((format!("vkurt({mp})"), catch(|| c(v.titer().vkurt(mp)))));
            out.push((format!("vcov({mp})"), catch(|| vec![v.titer().vcov(v.titer(), mp).dec()])));
        }
        for (m, p) in [(WinsorizeMethod::Quantile, 0.25), (WinsorizeMethod::Median, 1.0), (WinsorizeMethod::Sigma, 0.5)] {
            out.push((
                format!("winsorize({p})"),
                catch(|| match v.winsorize(m, Some(p)) {
                    Ok(it) => drain(it, |x: &f64| Cell::f(*x)).cells,
                    Err(_) => vec![Cell::S("Err".into())],
                }),
            ));
        }
        out
    }

    /// the accessors of one container against the logical word
    pub fn accessors<V, T>(v: &V, want: &[Cell]) -> Vec<String>
    where
        V: Vec1View<T> + SliceRead<T>,
        T: Elem + IsNone,
        Option<T::Inner>: Elem,
    {
        let n = want.len();
        let mut bad = vec![];
        let same = |a: &Cell, b: &Cell| exact_eq(a, b);
        if v.len() != n {
            bad.push(format!("len() = {}, expected {n}", v.len()));
            return bad;
        }
        for i in 0..=n {
            match v.get(i) {
                Ok(x) if i < n && same(&x.dec(), &want[i]) => {}
                Err(_) if i == n => {}
                other => bad.push(format!("get({i}) = {:?}", other.map(|x| x.dec().show()).map_err(|e| e.to_string()))),
            }
            if i < n {
                let x = unsafe { v.uget(i) };
                if !same(&x.dec(), &want[i]) {
                    bad.push(format!("uget({i}) = {}", x.dec().show()));
                }
                let x = unsafe { v.uvget(i) };
                if !same(&x.dec(), &want[i]) {
                    bad.push(format!("uvget({i}) = {}", x.dec().show()));
                }
            }
            // the null-aware checked accessor: the valid value, None for a null and beyond the end
            let x = v.vget(i);
            let w = if i < n { want[i].clone() } else { Cell::Null };
            if !same(&x.dec(), &w) {
                bad.push(format!("vget({i}) = {}", x.dec().show()));
            }
        }
        let opts: Vec<Cell> = v.to_opt_iter().map(|x| x.dec()).collect();
        if !cells_eq(&opts, want, exact_eq) {
            bad.push(format!("to_opt_iter() = {}", show_cells(&opts)));
        }
        let fwd: Vec<Cell> = v.titer().map(|x| x.dec()).collect();
        if !cells_eq(&fwd, want, exact_eq) {
            bad.push(format!("titer() = {}", show_cells(&fwd)));
        }
        let mut bwd: Vec<Cell> = v.titer().rev().map(|x| x.dec()).collect();
        bwd.reverse();
        if !cells_eq(&bwd, want, exact_eq) {
            bad.push(format!("titer().rev() reversed = {}", show_cells(&bwd)));
        }
        // alternating front / back
        {
            let mut it = v.titer();
            let (mut f, mut b) = (0usize, n);
            let mut turn = true;
            while f < b {
                let (got, idx) = if turn {
                    f += 1;
                    (it.next(), f - 1)
                } else {
                    b -= 1;
                    (it.next_back(), b)
                };
                if !matches!(&got, Some(x) if same(&x.dec(), &want[idx])) {
                    bad.push(format!("alternating iteration: item for index {idx} = {:?}", got.map(|x| x.dec().show())));
                    break;
                }
                turn = !turn;
            }
            if it.next().is_some() || it.next_back().is_some() {
                bad.push("iterator yields more than len() items".into());
            }
        }
        for a in 0..=n {
            for b in a..=n {
                match v.slice(a, b) {
                    Ok(s) => {
                        let items: Vec<Cell> = V::read_slice(&s).iter().map(|x| x.dec()).collect();
                        if !cells_eq(&items, &want[a..b], exact_eq) {
                            bad.push(format!("slice({a},{b}) = {}", show_cells(&items)));
                        }
                    }
                    Err(e) => bad.push(format!("slice({a},{b}) = Err({e})")),
                }
            }
        }
        if let Some(s) = v.try_as_slice() {
            let items: Vec<Cell> = s.iter().map(|x| x.dec()).collect();
            if !cells_eq(&items, want, exact_eq) {
                bad.push(format!("try_as_slice() = Some({})", show_cells(&items)));
            }
        }
        bad
    }

    /// Polars Datetime columns: `titer::<DateTime<unit>>()` of a column stored in that unit yields the stored
    /// instants (null -> NaT) and `len()` the length. unit: 0 = ns, 1 = us, 2 = ms.
    pub fn datetime_column(vals: &[Option<i64>], chunks: &[usize], unit: u8) -> Outcome<(usize, Vec<Cell>)> {
        use polars::prelude::{DatetimeChunked, Int64Chunked, NewChunkedArray, TimeUnit};
        let mut pos = 0;
        let mut ca: Option<Int64Chunked> = None;
        for &c in chunks {
            let part = Int64Chunked::from_slice_options("".into(), &vals[pos..pos + c]);
            pos += c;
            ca = Some(match ca {
                None => part,
                Some(mut acc) => {
                    acc.append(&part).unwrap();
                    acc
                }
            });
        }
        let ca = ca.unwrap_or_else(|| Int64Chunked::from_slice_options("".into(), &[]));
        let tu = [TimeUnit::Nanoseconds, TimeUnit::Microseconds, TimeUnit::Milliseconds][unit as usize];
        let dt: DatetimeChunked = ca.into_datetime(tu, None);
        catch(move || {
            let r = &dt;
            let cell = |nat: bool, v: i64| if nat { Cell::Null } else { Cell::I(v) };
            let items: Vec<Cell> = match unit {
                0 => TIter::<DateTime<unit::Nanosecond>>::titer(&r).map(|d| cell(d.is_nat(), d.0)).collect(),
                1 => TIter::<DateTime<unit::Microsecond>>::titer(&r).map(|d| cell(d.is_nat(), d.0)).collect(),
                _ => TIter::<DateTime<unit::Millisecond>>::titer(&r).map(|d| cell(d.is_nat(), d.0)).collect(),
            };
            (GetLen::len(&dt), items)
        })
    }

    /// accessors of a numeric / boolean Polars column (owned `ChunkedArray<T>` and `&ChunkedArray<T>`)
    macro_rules! typed_column {
        ($name:ident, $Ca:ty, $nat:ty) => {
            pub fn $name(vals: &[Option<$nat>], chunks: &[usize]) -> Outcome<Vec<String>> {
                use polars::prelude::NewChunkedArray;
                let mut pos = 0;
                let mut ca: Option<$Ca> = None;
                for &c in chunks {
                    let part = <$Ca>::from_slice_options("".into(), &vals[pos..pos + c]);
                    pos += c;
                    ca = Some(match ca {
                        None => part,
                        Some(mut acc) => {
                            acc.append(&part).unwrap();
                            acc
                        }
                    });
                }
                let ca = ca.unwrap_or_else(|| <$Ca>::from_slice_options("".into(), &[]));
                let want: Vec<Option<$nat>> = vals.to_vec();
                catch(move || {
                    let n = want.len();
                    let mut bad = vec![];
                    macro_rules! on {
                        ($v:expr, $V:ty, $label:expr) => {{
                            let v = $v;
                            if <$V as GetLen>::len(&v) != n {
                                bad.push(format!("{} len() = {}", $label, <$V as GetLen>::len(&v)));
                            } else {
                                for i in 0..=n {
                                    match <$V as Vec1View<Option<$nat>>>::get(&v, i) {
                                        Ok(x) if i < n && x == want[i] => {}
                                        Err(_) if i == n => {}
                                        other => bad.push(format!("{} get({i}) = {:?}", $label, other.map_err(|e| e.to_string()))),
                                    }
                                    if i < n {
                                        let x = unsafe { <$V as Vec1View<Option<$nat>>>::uget(&v, i) };
                                        if x != want[i] {
                                            bad.push(format!("{} uget({i}) = {:?}", $label, x));
                                        }
                                    }
                                }
                                let fwd: Vec<Option<$nat>> = <$V as TIter<Option<$nat>>>::titer(&v).collect();
                                if fwd != want {
                                    bad.push(format!("{} titer() = {fwd:?}", $label));
                                }
                                let mut bwd: Vec<Option<$nat>> = <$V as TIter<Option<$nat>>>::titer(&v).rev().collect();
                                bwd.reverse();
                                if bwd != want {
                                    bad.push(format!("{} titer().rev() reversed = {bwd:?}", $label));
                                }
                                for a in 0..=n {
                                    for b in a..=n {
                                        match <$V as Vec1View<Option<$nat>>>::slice(&v, a, b) {
                                            Ok(s) => {
                                                let items: Vec<Option<$nat>> = (&s).into_iter().collect();
                                                if items != want[a..b] {
                                                    bad.push(format!("{} slice({a},{b}) = {items:?}", $label));
                                                }
                                            }
                                            Err(e) => bad.push(format!("{} slice({a},{b}) = Err({e})", $label)),
                                        }
                                    }
                                }
                            }
                        }};
                    }
                    on!(&ca, &$Ca, "&column");
                    on!(ca.clone(), $Ca, "column");
                    bad
                })
            }
        };
    }
    typed_column!(int32_column, polars::prelude::Int32Chunked, i32);
    typed_column!(int64_column, polars::prelude::Int64Chunked, i64);
    typed_column!(float32_column, polars::prelude::Float32Chunked, f32);
    typed_column!(bool_column, polars::prelude::BooleanChunked, bool);

    /// Polars String column: accessors of `&StringChunked`
    pub fn string_column(vals: &[Option<String>], chunks: &[usize]) -> Outcome<Vec<String>> {
        use polars::prelude::{NewChunkedArray, StringChunked};
        let mut pos = 0;
        let mut ca: Option<StringChunked> = None;
        for &c in chunks {
            let part = StringChunked::from_iter_options("".into(), vals[pos..pos + c].iter().cloned());
            pos += c;
            ca = Some(match ca {
                None => part,
                Some(mut acc) => {
                    acc.append(&part).unwrap();
                    acc
                }
            });
        }
        let ca = ca.unwrap_or_else(|| StringChunked::from_iter_options("".into(), std::iter::empty::<Option<String>>()));
        let want: Vec<Option<String>> = vals.to_vec();
        catch(move || {
            let v = &ca;
            let n = want.len();
            let mut bad = vec![];
            let own = |x: Option<&str>| x.map(|s| s.to_string());
            if <&StringChunked as GetLen>::len(&v) != n {
                bad.push(format!("len() = {}", <&StringChunked as GetLen>::len(&v)));
                return bad;
            }
            for i in 0..=n {
                match <&StringChunked as Vec1View<Option<&str>>>::get(&v, i) {
                    Ok(x) if i < n && own(x) == want[i] => {}
                    Err(_) if i == n => {}
                    other => bad.push(format!("get({i}) = {:?}", other.map(own).map_err(|e| e.to_string()))),
                }
                if i < n {
                    let x = unsafe { v.uget(i) };
                    if own(x) != want[i] {
                        bad.push(format!("uget({i}) = {:?}", x));
                    }
                }
            }
            let fwd: Vec<Option<String>> = v.titer().map(own).collect();
            if fwd != want {
                bad.push(format!("titer() = {fwd:?}"));
            }
            let mut bwd: Vec<Option<String>> = v.titer().rev().map(own).collect();
            bwd.reverse();
            if bwd != want {
                bad.push(format!("titer().rev() reversed = {bwd:?}"));
            }
            for a in 0..=n {
                for b in a..=n {
                    match <&StringChunked as Vec1View<Option<&str>>>::slice(&v, a, b) {
                        Ok(s) => {
                            let items: Vec<Option<String>> = (&s).into_iter().map(own).collect();
                            if items != want[a..b] {
                                bad.push(format!("slice({a},{b}) = {items:?}"));
                            }
                        }
                        Err(e) => bad.push(format!("slice({a},{b}) = Err({e})")),
                    }
                }
            }
            bad
        })
    }
}
use imp::*;

fn roll_fns() -> Vec<R1> {
    let mut v = V1_FEATURE.to_vec();
    v.extend(V1_CMP);
    v.extend(V1_NORM);
    v.extend(V1_REG);
    v
}

fn viol(ctx: &mut Ctx, entry: String, finding: Option<String>, size: usize, case: Value, expected: String, got: String) {
    ctx.violation(Violation { entry, finding, size, case, expected, got });
}

fn same_outcome(a: &Outcome<Vec<Cell>>, b: &Outcome<Vec<Cell>>) -> bool {
    match (a, b) {
        (Outcome::Ok(x), Outcome::Ok(y)) => cells_eq(x, y, exact_eq),
        (Outcome::Panic(_), Outcome::Panic(_)) => true,
        _ => false,
    }
}

/// reference results on the plain Vec backend (computed once per word)
struct Reference {
    roll1: Vec<((usize, usize, Option<usize>), Outcome<Vec<Cell>>)>,
    roll2: Vec<((usize, usize, Option<usize>), Outcome<Vec<Cell>>)>,
    maps: Vec<(MapOp, Outcome<Vec<Cell>>)>,
    aggs: Vec<(String, Outcome<Vec<Cell>>)>,
    quant: Vec<((u64, usize), Outcome<Cell>)>,
    /// (driver entry, window) -> outcome of Vec -> Vec, returned
    sinks: Vec<((usize, usize), Outcome<Vec<Cell>>)>,
}

fn sink_windows(len: usize) -> Vec<usize> {
    if len > 8 {
        vec![1, 3, 17, len + 1]
    } else {
        vec![1, 2, len + 1]
    }
}

fn params(len: usize) -> Vec<(usize, Option<usize>)> {
    let mut ws = vec![1usize, 2, 3, len + 1];
    if len > 8 {
        // long series: windows beyond the block sizes a contiguous fast path might use
        ws = vec![1, 3, 9, 16, 17, len + 1];
    }
    ws.dedup();
    let mut v = vec![];
    for w in ws {
        for mp in [None, Some(1), Some(w)] {
            v.push((w, mp));
        }
    }
    v
}

fn map_list(len: usize, numeric: bool) -> Vec<MapOp> {
    let l = len as i32;
    let mut v = vec![];
    for n in [-l - 1, -1, 0, 1, 2, l + 1] {
        v.push(MapOp::VShift(n, None));
        v.push(MapOp::VPct(n));
        if numeric {
            v.push(MapOp::VDiff(n, None));
        }
        if (n.unsigned_abs() as usize) <= len {
            v.push(MapOp::Shift(n, Some(7.0)));
        }
    }
    v.extend([MapOp::Ffill(None), MapOp::Bfill(Some(Some(7.0))), MapOp::Fill(Some(7.0)), MapOp::VClip(Some(0.0), Some(1.0)), MapOp::VAbs, MapOp::VRank(false, false), MapOp::VRank(true, true)]);
    if numeric {
        v.push(MapOp::Abs);
    }
    for k in [0, 1, len] {
        v.push(MapOp::VPartition(k, true, false));
        v.push(MapOp::VArgPartition(k, true, true));
    }
    v
}

const QS: [(f64, QMethod); 4] = [(0.25, QMethod::Linear), (0.5, QMethod::Lower), (0.5, QMethod::MidPoint), (0.9, QMethod::Higher)];

struct Vis<'a> {
    x: &'a [X],
    word: &'a [u8],
    tname: &'static str,
    numeric: bool,
    reference: &'a Reference,
    ctx: &'a mut Ctx,
}

impl<'a> Vis<'a> {
    fn report(&mut self, entry: String, backend: &str, output: &str, detail: Value, expected: &Outcome<Vec<Cell>>, got: &Outcome<Vec<Cell>>) {
        let len = self.x.len();
        let fast_path = backend.starts_with("Vec") || backend.starts_with("Arc<") || backend.starts_with("[T;") || backend.starts_with("Array");
        let gs = show_outcome(got);
        // F29: fast paths (O::uninit + uset) cannot build a Polars container
        let finding = if output.starts_with("Float64Chunked") && gs.contains("polars backend do not support set") && fast_path {
            Some("F29".to_string())
        } else if len == 0 && gs.contains("window must be greater than 0") {
            // F07: extrema family clamps the window to len = 0 and the default driver bodies assert window > 0
            Some("F07".to_string())
        } else {
            None
        };
        let entry = match finding.as_deref() {
            Some("F29") => "rolling fast path -> Polars output".to_string(),
            Some("F07") => "extrema family on an empty non-Vec container".to_string(),
            _ => entry,
        };
        viol(self.ctx, entry, finding, len * 100, json!({"family": "matrix", "word": self.word, "series": json_word(self.x), "elem": self.tname, "backend": backend, "output": output, "detail": detail}), format!("as on Vec -> Vec: {}", show_outcome(expected)), gs);
    }
}

macro_rules! visit_body {
    ($self:ident, $name:ident, $v:ident, $T:ty, $mapfn:expr) => {{
        let fam = "matrix";
        let len = $self.x.len();
        $self.ctx.states += 1;
        // rolling, every output container and path
        for ((fi, w, mp), refo) in &$self.reference.roll1 {
            let f = roll_fns()[*fi];
            for (oname, got) in roll1_all_outputs::<V, $T>(f, $v, *w, *mp) {
                $self.ctx.eval(fam, outcome_hash(&got));
                $self.ctx.transitions += 1;
                if !same_outcome(refo, &got) {
                    $self.report(r1_name(f, true), $name, oname, json!({"w": w, "mp": mp_json(*mp)}), refo, &got);
                }
            }
        }
        let second: Vec<f64> = $self.x.iter().map(|v| v.map_or(1.0, |a| a * 2.0 + 1.0)).collect();
        for ((fi, w, mp), refo) in &$self.reference.roll2 {
            let f = V2_ALL[*fi];
            for (oname, got) in roll2_all_outputs::<V, $T>(f, $v, &second, *w, *mp) {
                $self.ctx.eval(fam, outcome_hash(&got));
                $self.ctx.transitions += 1;
                if !same_outcome(refo, &got) {
                    $self.report(r2_name(f), $name, oname, json!({"w": w, "mp": mp_json(*mp)}), refo, &got);
                }
            }
        }
        // (seed round 12) a second series longer than the first is legal (the drivers require other.len() >= self.len()):
        // one result per element of the *first* series, from every input back end, returned and written into a buffer
        if len <= 4 {
            let mut second_long = second.clone();
            second_long.extend([7.0, 9.0]);
            let plain: Vec<$T> = enc_vec($self.x);
            for ((fi, w, mp), _) in &$self.reference.roll2 {
                let f = V2_ALL[*fi];
                let refo = catch(|| call_v2::<Vec<$T>, $T, Vec<f64>, f64, VecDeque<f64>, f64>(f, &plain, &second_long, *w, *mp, Path::Buf).cells());
                for (oname, got) in roll2_all_outputs::<V, $T>(f, $v, &second_long, *w, *mp) {
                    $self.ctx.eval(fam, outcome_hash(&got));
                    $self.ctx.transitions += 1;
                    let len_ok = match &got { Outcome::Ok(c) => c.len() == len, _ => true };
                    if !same_outcome(&refo, &got) || !len_ok {
                        $self.report(format!("{} (second series two longer)", r2_name(f)), $name, oname, json!({"w": w, "mp": mp_json(*mp)}), &refo, &got);
                    }
                }
            }
        }
        // mirrored: this container as the *second* series of the two-series functions, the first in a Vec
        {
            let first: Vec<f64> = second.clone();
            let plain: Vec<$T> = enc_vec($self.x);
            for ((fi, w, mp), _) in &$self.reference.roll2 {
                let f = V2_ALL[*fi];
                let refo = catch(|| call_v2::<Vec<f64>, f64, Vec<$T>, $T, Vec<f64>, f64>(f, &first, &plain, *w, *mp, Path::Ret).cells());
                let got = catch(|| call_v2::<Vec<f64>, f64, V, $T, Vec<f64>, f64>(f, &first, $v, *w, *mp, Path::Ret).cells());
                $self.ctx.eval(fam, outcome_hash(&got));
                $self.ctx.transitions += 1;
                if !same_outcome(&refo, &got) {
                    $self.report(format!("{} (container as second series)", r2_name(f)), $name, "Vec/Ret", json!({"w": w, "mp": mp_json(*mp)}), &refo, &got);
                }
            }
        }
        // mapping operations
        for (op, refo) in &$self.reference.maps {
            let run: fn(&MapOp, &V) -> Option<Outcome<Drained>> = $mapfn;
            if let Some(got) = run(op, $v) {
                let got = match got {
                    Outcome::Ok(d) => Outcome::Ok(d.cells),
                    Outcome::Panic(m) => Outcome::Panic(m),
                };
                $self.ctx.eval(fam, outcome_hash(&got));
                $self.ctx.transitions += 1;
                if !same_outcome(refo, &got) {
                    $self.report(op.name(), $name, "iterator", json!({"op": op.show()}), refo, &got);
                }
            }
        }
        // user-function drivers and lazy results into every sink
        for (e, w, oname, got) in sinks::<V, $T>($v, &sink_windows(len)) {
            $self.ctx.eval(fam, outcome_hash(&got));
            $self.ctx.transitions += 1;
            let refo = &$self.reference.sinks.iter().find(|(k, _)| *k == (e, w)).expect("reference sink").1;
            if !same_outcome(refo, &got) {
                $self.report(SINK_ENTRIES[e].to_string(), $name, oname, json!({"w": w}), refo, &got);
            }
        }
        // aggregations and order statistics
        let got_aggs = aggs::<V, $T>($v);
        for ((n1, refo), (_n2, got)) in $self.reference.aggs.iter().zip(&got_aggs) {
            $self.ctx.eval(fam, outcome_hash(got));
            $self.ctx.transitions += 1;
            if !same_outcome(refo, got) {
                $self.report(n1.clone(), $name, "scalar", json!({}), refo, got);
            }
        }
        for (((qb, mi), refo), (q, m)) in $self.reference.quant.iter().zip(QS) {
            let _ = (qb, mi);
            let got = run_quantile::<V, $T>($v, q, m);
            $self.ctx.evals += 1;
            let same = match (refo, &got) {
                (Outcome::Ok(a), Outcome::Ok(b)) => exact_eq(a, b),
                (Outcome::Panic(_), Outcome::Panic(_)) => true,
                _ => false,
            };
            if !same {
                viol($self.ctx, "vquantile".into(), None, len * 100, json!({"family": fam, "word": $self.word, "series": json_word($self.x), "backend": $name, "q": q}), format!("{refo:?}"), format!("{got:?}"));
            }
        }
        // accessors
        let want: Vec<Cell> = $self.x.iter().map(|v| Cell::of(*v)).collect();
        let bad = accessors::<V, $T>($v, &want);
        $self.ctx.evals += 1;
        if !bad.is_empty() {
            // F08: try_as_slice of a reversed contiguous ndarray view returns the memory-order slice
            let f08 = bad.len() == 1 && bad[0].starts_with("try_as_slice") && $name.contains("step=-1");
            viol($self.ctx, format!("accessors"), if f08 { Some("F08".into()) } else { None }, len * 100, json!({"family": "accessors", "word": $self.word, "series": json_word($self.x), "elem": $self.tname, "backend": $name}), format!("all accessors describe {}", show_cells(&want)), bad.join("; "));
        } else {
            $self.ctx.traces += 1;
        }
    }};
}

impl<'a> BackendVisitor<f64> for Vis<'a> {
    fn visit<V: tevec::prelude::Vec1View<f64> + SliceRead<f64>>(&mut self, name: &str, v: &V) {
        visit_body!(self, name, v, f64, run_map_num::<V, f64>);
    }
}
impl<'a> BackendVisitor<Option<f64>> for Vis<'a> {
    fn visit<V: tevec::prelude::Vec1View<Option<f64>> + SliceRead<Option<f64>>>(&mut self, name: &str, v: &V) {
        visit_body!(self, name, v, Option<f64>, run_map_any::<V, Option<f64>>);
    }
}

fn reference<T>(x: &[X], numeric: bool) -> Reference
where
    T: Elem + tevec::prelude::IsNone + PartialEq + PartialOrd + tevec::prelude::Cast<f64>,
    T::Inner: tevec::prelude::Number + Elem,
    Option<T::Inner>: Elem + tevec::prelude::Cast<f64> + tevec::prelude::Cast<Option<f64>>,
    f64: tevec::prelude::Cast<T> + tevec::prelude::Cast<T::Cast<f64>>,
    T::Cast<f64>: Elem,
{
    let v: Vec<T> = enc_vec(x);
    let len = x.len();
    let mut r = Reference { roll1: vec![], roll2: vec![], maps: vec![], aggs: vec![], quant: vec![], sinks: vec![] };
    for (e, w, oname, o) in sinks::<Vec<T>, T>(&v, &sink_windows(len)) {
        if oname == "Vec/Ret" {
            r.sinks.push(((e, w), o));
        }
    }
    for (w, mp) in params(len) {
        for (fi, f) in roll_fns().into_iter().enumerate() {
            if !rollcheck::cfg_cmp(f, len, w, mp) {
                continue;
            }
            r.roll1.push(((fi, w, mp), catch(|| call_v1::<Vec<T>, T, Vec<f64>, f64>(f, &v, w, mp, Path::Ret).cells())));
        }
        let second: Vec<f64> = x.iter().map(|v| v.map_or(1.0, |a| a * 2.0 + 1.0)).collect();
        for (fi, f) in V2_ALL.into_iter().enumerate() {
            r.roll2.push(((fi, w, mp), catch(|| call_v2::<Vec<T>, T, Vec<f64>, f64, Vec<f64>, f64>(f, &v, &second, w, mp, Path::Ret).cells())));
        }
    }
    for op in map_list(len, numeric) {
        if let Some(o) = run_map_any_or_num::<T>(&op, &v, numeric) {
            r.maps.push((op, match o { Outcome::Ok(d) => Outcome::Ok(d.cells), Outcome::Panic(m) => Outcome::Panic(m) }));
        }
    }
    r.aggs = aggs::<Vec<T>, T>(&v);
    for (q, m) in QS {
        r.quant.push(((q.to_bits(), 0), run_quantile::<Vec<T>, T>(&v, q, m)));
    }
    r
}
fn run_map_any_or_num<T>(op: &MapOp, v: &Vec<T>, numeric: bool) -> Option<Outcome<Drained>>
where
    T: Elem + tevec::prelude::IsNone + PartialEq + tevec::prelude::Cast<f64>,
    T::Inner: tevec::prelude::Number,
    f64: tevec::prelude::Cast<T>,
{
    if numeric && matches!(op, MapOp::VDiff(..) | MapOp::Abs) {
        // numeric-only operations are taken from the f64 reference below
        return None;
    }
    run_map_any::<Vec<T>, T>(op, v)
}

fn check_word(word: &[u8], alpha: &[X], level: u8, ctx: &mut Ctx) {
    let x = decode(word, alpha);
    check_series(word, x, level, ctx)
}

/// the matrix on long structured series (DESIGN 5.14): wrapped rings, strided views and multi-chunk
/// columns of 24 / 40 elements, reduced back-end set (level 0)
fn matrix_long(thorough: bool, threads: usize) -> Ctx {
    let lens: Vec<usize> = if thorough { vec![24, 40] } else { vec![24] };
    let mut items: Vec<(String, Vec<X>)> = vec![];
    for len in lens {
        items.extend(rollcheck::structured_shapes(len, true).into_iter().enumerate().filter(|(i, _)| i % 4 == 0).map(|(_, s)| s));
    }
    par_items(&items, threads, |(_l, x), ctx| {
        ctx.states += 1;
        check_series(&[], x.clone(), 0, ctx)
    })
}

fn check_series(word: &[u8], x: Vec<X>, level: u8, ctx: &mut Ctx) {
    ctx.fam("matrix").states += 1;
    ctx.nontrivial("matrix", mix(hash_bytes(word), hash_u64s(&x.iter().map(|v| v.map_or(7, |a| a.to_bits())).collect::<Vec<_>>())));
    {
        let mut reference = reference::<f64>(&x, true);
        // numeric-only map operations on the plain Vec<f64>
        let v: Vec<f64> = enc_vec(&x);
        for op in map_list(x.len(), true) {
            if matches!(op, MapOp::VDiff(..) | MapOp::Abs) {
                if let Some(o) = run_map_num::<Vec<f64>, f64>(&op, &v) {
                    reference.maps.push((op, match o { Outcome::Ok(d) => Outcome::Ok(d.cells), Outcome::Panic(m) => Outcome::Panic(m) }));
                }
            }
        }
        let mut vis = Vis { x: &x, word, tname: "f64", numeric: true, reference: &reference, ctx };
        for_backends::<f64, _>(&x, level, &mut vis);
        let _ = vis.numeric;
    }
    {
        let reference = reference::<Option<f64>>(&x, false);
        let mut vis = Vis { x: &x, word, tname: "Option<f64>", numeric: false, reference: &reference, ctx };
        for_backends_opt(&x, level, &mut vis);
    }
    // typed Polars columns: Datetime in the three units and String, under every chunking
    {
        let fam = "polars-typed-columns";
        ctx.fam(fam).states += 1;
        ctx.nontrivial(fam, hash_bytes(word));
        // instants around the epoch and far from it, so that a unit mix-up cannot go unnoticed
        let ints: Vec<Option<i64>> = x.iter().map(|v| v.map(|a| (a as i64 - 1) * 1_234_567_891)).collect();
        let strs: Vec<Option<String>> = x.iter().map(|v| v.map(|a| if a == 0.0 { String::new() } else { format!("s{a}é") })).collect();
        let want: Vec<Cell> = ints.iter().map(|v| v.map_or(Cell::Null, Cell::I)).collect();
        for ch in chunkings(x.len()) {
            for unit in 0..3u8 {
                let got = datetime_column(&ints, &ch, unit);
                ctx.eval(fam, hash_bytes(format!("{got:?}").as_bytes()));
                ctx.transitions += 1;
                let ok = matches!(&got, Outcome::Ok((n, items)) if *n == x.len() && cells_eq(items, &want, exact_eq));
                if !ok {
                    let uname = ["ns", "us", "ms"][unit as usize];
                    // F36: the millisecond impl matched TimeUnit::Microseconds
                    let f36 = unit == 2 && format!("{got:?}").contains("should be milliseconds unit");
                    viol(ctx, format!("DatetimeChunked({uname}).titer::<DateTime<{uname}>>"), if f36 { Some("F36".into()) } else { None }, x.len() * 100, json!({"family": fam, "word": word, "instants": ints, "unit": uname, "chunks": ch}), format!("len {} and the stored instants {}", x.len(), show_cells(&want)), format!("{got:?}").chars().take(300).collect());
                }
            }
            let i32s: Vec<Option<i32>> = x.iter().map(|v| v.map(|a| a as i32 * 7 - 3)).collect();
            let f32s: Vec<Option<f32>> = x.iter().map(|v| v.map(|a| a as f32 + 0.5)).collect();
            let bools: Vec<Option<bool>> = x.iter().map(|v| v.map(|a| a > 0.5)).collect();
            for (cname, got) in [("Int32Chunked", int32_column(&i32s, &ch)), ("Int64Chunked", int64_column(&ints, &ch)), ("Float32Chunked", float32_column(&f32s, &ch)), ("BooleanChunked", bool_column(&bools, &ch))] {
                ctx.eval(fam, hash_bytes(format!("{cname}{got:?}").as_bytes()));
                ctx.transitions += 1;
                if !matches!(&got, Outcome::Ok(bad) if bad.is_empty()) {
                    viol(ctx, format!("accessors({cname})"), None, x.len() * 100, json!({"family": fam, "word": word, "series": json_word(&x), "chunks": ch}), "all accessors describe the logical sequence".into(), format!("{got:?}").chars().take(300).collect());
                }
            }
            let got = string_column(&strs, &ch);
            ctx.eval(fam, hash_bytes(format!("{got:?}").as_bytes()));
            ctx.transitions += 1;
            if !matches!(&got, Outcome::Ok(bad) if bad.is_empty()) {
                viol(ctx, "accessors(&StringChunked)".into(), None, x.len() * 100, json!({"family": fam, "word": word, "strings": strs, "chunks": ch}), "all accessors describe the strings".into(), format!("{got:?}").chars().take(300).collect());
            }
        }
    }
}

struct Fam {
    alpha: Vec<X>,
    max_len: usize,
    level: u8,
}
impl TreeSys for Fam {
    type Memo = ();
    fn k(&self) -> usize {
        self.alpha.len()
    }
    fn max_len(&self) -> usize {
        self.max_len
    }
    fn name(&self) -> String {
        "matrix".into()
    }
    fn visit(&self, w: &[u8], _p: Option<&()>, ctx: &mut Ctx) {
        check_word(w, &self.alpha, self.level, ctx)
    }
}

/// the error path of a fallible result is independent of the output container (round 11)
fn check_fallible(ctx: &mut Ctx) {
    let fam = "fallible-outputs";
    let alpha: Vec<X> = vec![None, Some(-3.0), Some(1.0), Some(3.0), Some(7.0)];
    for w in all_words_upto(alpha.len(), 3) {
        let x = decode(&w, &alpha);
        ctx.states += 1;
        ctx.fam(fam).states += 1;
        ctx.nontrivial(fam, hash_bytes(&w));
        let outs = fallible_outputs(&x);
        let reference = format!("{:?}", outs[0].1);
        for (label, got) in &outs {
            ctx.transitions += 1;
            let g = format!("{got:?}");
            ctx.eval(fam, hash_bytes(g.as_bytes()));
            if g != reference {
                viol(ctx, format!("vcut -> {label}"), None, x.len(), json!({"family": fam, "word": w, "series": json_word(&x), "output": label}), format!("as Vec / try_collect_vec1: {}", truncate(&reference, 200)), truncate(&g, 200));
            } else {
                ctx.traces += 1;
            }
        }
    }
}

fn main() {
    let run = Run::from_args("C07");
    let fam = Fam { alpha: vec![None, Some(0.0), Some(1.0), Some(3.0)], max_len: run.pick(4, 6), level: 1 };
    if let Some(path) = &run.replay {
        let stored = load_replay(path).unwrap_or_else(|e| {
            eprintln!("MACHINERY-ERROR: {e}");
            std::process::exit(2)
        });
        let mut ctx = Ctx::new();
        let w = syms_from_json(&stored["case"]["word"]);
        let series = word_from_json(&stored["case"]["series"]);
        if stored["case"]["family"] == "fallible-outputs" {
            check_fallible(&mut ctx);
        } else if w.is_empty() && !series.is_empty() {
            check_series(&[], series, 0, &mut ctx);
        } else {
            check_word(&w, &fam.alpha, 1, &mut ctx);
        }
        std::process::exit(finish_replay(&run, &stored, ctx));
    }
    let mut total = explore_tree(&fam, run.threads);
    total.merge(matrix_long(!run.quick(), run.threads));
    {
        let mut c = Ctx::new();
        check_fallible(&mut c);
        total.merge(c);
    }
    total.sample(json!({"cell": {"function": "ts_vstd", "input": "VecDeque(head=6,wrapped)", "output": "Array1/Buf", "series": [0, null, 3, 1], "w": 2}, "oracle": "identical to Vec -> Vec/Ret"}));
    total.sample(json!({"cell": {"function": "vquantile(0.25, Linear)", "input": "Float64Chunked[1, 2, 1]", "series": [1, 0, null, 3]}, "oracle": "identical to Vec"}));
    let meta = Meta {
        rule: "finite matrix: every word over {null,0,1,3} up to length L, realised as every input back-end configuration (Vec, Arc<Vec>, [T;N], VecDeque x 8 head offsets incl. wrapped, Array1, ArrayView1 steps 1,2,3,-1,-2, ArrayViewMut1, Arc<Array1>, OptIter<Vec>, OptIter<Array1>, Float64Chunked / &Float64Chunked under every chunking into <= 3 chunks with validity bitmaps) for element types f64 (NaN) and Option<f64>, x every output container (Vec, VecDeque, Array1, Float64Chunked; returned and caller buffer) x every function: 23 single-series and 7 two-series rolling functions with a representative (w, min_periods) set, the mapping set, the aggregations incl. quantiles, Spearman, half_life, winsorize; oracle = the same call on Vec returning Vec, exact comparison (None ~ NaN). Accessor sub-check per container: len, get(0..=len), uget, titer forwards / backwards / alternating, slice(a,b) for all a<=b<=len, try_as_slice. Non-trivial = distinct words (each expanded into the whole matrix). Configuration families (DESIGN 5.15): caller buffers in non-canonical layouts (wrapped rings, strided / reversed views) for every built-in statistic; the user-function drivers (rolling_custom, rolling_apply, rolling2_custom, rolling_apply_idx) and a lazy mapping result returned, written into a canonical buffer and into every layout, for every input back end. Round 8 (DESIGN 5.17): every container also as the *second* series of the two-series functions (first series in a Vec). Round 10 (DESIGN 5.19): owned ndarray arrays in a non-standard layout (slice_move with steps 2, 3, -1, -2; invert_axis; also behind Arc and .opt()) among the input back ends of every family that visits the back ends. Round 11 (DESIGN 5.20): fallible-outputs - a fallible item stream (vcut with values outside the bins) through try_collect_vec1 / try_collect_trusted_vec1 into Vec, VecDeque, Array1: the same Ok / Err from every output container. Round 12 (DESIGN 5.21): the two-series functions with a second series two elements longer than the first (words up to length 4): one result per element of the first series, identical from every input back end, returned and written into a buffer.".into(),
        bounds: json!({"alphabet": json_word(&fam.alpha), "L": fam.max_len, "w": "1,2,3,len+1", "min_periods": "omitted, 1, w"}),
        assumptions: vec!["calls that panic on the reference and on the cell alike count as equal".into(), "try_as_slice(): None always acceptable, Some must be the logical sequence (DESIGN 5.6)".into()],
        exhaustive: true,
        min_states: 300,
    };
    std::process::exit(finish(&run, meta, total));
}
