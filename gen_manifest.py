#!/usr/bin/env python3
"""Generates /verif/MANIFEST.json from the table below (kept in one place so it stays valid)."""
import json, sys

COMMON_NOTE = "Bounded scope (lengths, alphabets, parameter bands as recorded in the evidence file); the reference models in mc-ref are trusted (they are independent two-pass / scan / sort formulations with golden tests); finite exact inputs (DESIGN 3.1, 5.2); checked build profile (DESIGN 2.2)."
CLAIMED = {
 "C01": dict(ref="DESIGN 4 C01", tech="exhaustive history-tree exploration (DFS, no state merging) of the real rolling kernels against a from-scratch reference model; de Bruijn long traces",
   text="Every word over a 5/6-letter exact value alphabet up to length 6-8, every window 1..=len+2, every min_periods, 18 entry points, 22 element-type pairs, both output paths: each output position equals the statistic recomputed from its window by an independent two-pass model. de Bruijn traces cover drift after thousands of add/remove steps."),
 "C02": dict(ref="DESIGN 4 C02", tech="explicit-state protocol model of the callback protocol + trace conformance: every (driver, back end, output, path, len, w) run is replayed against the model event by event",
   text="All 12 driver bodies on every input back-end configuration (ring offsets, strides, chunkings), every output container and path, len 0..=7, w 1..=len+3: the recorded callback trace conforms to the 3-variable protocol machine and out[i] is the result of call i."),
 "C03": dict(ref="DESIGN 4 C03", tech="exhaustive history-tree exploration over a tie-heavy alphabet, all order types (permutations with nulls), extreme values; exact comparison with a window scan",
   text="Rolling min/max/arg/rank compared exactly, normalisations within 1e-9, at every position of every explored history, window and min_periods; includes every relative order of up to 7 distinct values (worst case for extreme expiry) and long de Bruijn traces."),
 "C04": dict(ref="DESIGN 4 C04", tech="exhaustive pair-history-tree exploration against per-window OLS / covariance recomputed from the pairwise-complete observations; collinear family",
   text="All words over 16 pair symbols up to length 4-5 and single-series trees for the trend family, every window 2..=len+2 and min_periods: covariance, correlation, 6 regression-on-x and 5 trend statistics equal the from-scratch model; perfect linear windows have zero residual."),
 "C05": dict(ref="DESIGN 4 C05", tech="exhaustive history-tree exploration of the null-mask law (exact boolean oracle) over all rolling entry points and all input back ends",
   text="For every null pattern up to length 6-8, every window 1..=len+3, every min_periods (explicit and omitted) and all ~45 entry points: one output per input, no panic, and output null exactly when the valid count is below max(min_periods, intrinsic minimum) or the statistic is undefined; short words on every back end incl. empty input."),
 "C06": dict(ref="DESIGN 4 C06", tech="exhaustive exploration of the parent/child relation of the history tree (prefix law bit-for-bit on every edge) and of all (pre-history, window) pairs",
   text="Every edge of the history trees: f(child)[..len-1] == f(parent) bit for bit for all rolling entry points, windows, min_periods and positive-lag shift/diff/pct; every window word with every finite pre-history gives the same last output (exact for min/max/arg/rank)."),
}
CLAIMED.update({
 "C09": dict(ref="DESIGN 4 C09", tech="explicit operation-sequence machine over iterators (next / next_back), exhaustive over recipes and op sequences; remaining-count model",
   text="Every recipe (source on every back end x parameter band, 0..d adaptors, all 8^d pipelines of a reduced alphabet) is rebuilt and stepped; in every state the upper size hint must equal the items still to come; double-ended sources are explored under every next/next_back sequence; raw trusted collectors run only on validated recipes and must return the safely iterated list."),
 "C10": dict(ref="DESIGN 4 C10", tech="exhaustive history-tree exploration with runtime monitors: instrumented input / output containers record every unchecked access and every write of the real kernels",
   text="All rolling, rank, partition and quantile kernels run on ProbeVec inputs and into ProbeOut outputs (and on real Vec / Array1 fast paths into ProbeOut) for every word up to length 4-5, window 0..=len+3, every min_periods, k, mismatched second series, both output paths: no recorded out-of-bounds access, every slot written exactly once."),
 "C11": dict(ref="DESIGN 4 C11", tech="exhaustive history-tree exploration against two-pass textbook definitions; permutation relation as a differential oracle",
   text="Every word of the value / pair / boolean alphabets up to length 6-9: 30 aggregations x every min_periods x 5 element types x 3 iterator sources equal the definitions on the non-null sub-list; symmetric ones agree on the sorted permutation."),
 "C12": dict(ref="DESIGN 4 C12", tech="exhaustive history-tree exploration against sort-and-index order statistics",
   text="Every word over {null,0..3} up to length 6-7: quantiles on a grid incl. near-integer indices x 4 methods, percentile-of-score x 3 methods, ranks, (arg-)partitions for every k, sort flag and direction, on 4 element types."),
 "C13": dict(ref="DESIGN 4 C13", tech="exhaustive history-tree exploration against positional definitions; every lag in a band around the length, every fill, every bound pair",
   text="Every word over {null,-1,0,2} up to length 6-7 x ~150 parameterised operations x 5 element types, consumed by safe iteration: element-by-element equality with the positional model, length law, clip containment / idempotence; short words on every input back end."),
 "C14": dict(ref="DESIGN 4 C14", tech="exhaustive enumeration of the edge-set lattice x label counts x flags and of all sorted run compositions",
   text="All 32 ascending edge subsets x 0..6 labels x closedness x bound mode on the full value alphabet incl. the type's MIN/MAX and null (f64 and Option<i32>); all monotone words over 4 symbols up to length 7-9 with null blocks for the unique operations."),
 "C15": dict(ref="DESIGN 4 C15", tech="exhaustive enumeration of the finite (type, value) lattice with every Cast instance and depth-2 chains; order axioms on all pairs and triples",
   text="8x8 numeric cast lattice with Option forms on both sides, bool / String / time types as sources and targets, 12-30 values per type incl. extremes, NaN, infinities: nullness algebra, agreement with `as`, composition through Option, comparator preorder axioms."),
 "C16": dict(ref="DESIGN 4 C16", tech="breadth-first search with dedup over (unit, timestamp) states under unit-conversion actions; chrono as calendar oracle",
   text="~7000 lattice timestamps per unit (range limits, every residue class boundary of every unit ratio, every month start 1678-2262) x all 16 unit pairs, chains to depth 2-3: floor division toward the past = chrono, exact multiples, NaT preserved; every operator with a NaT operand."),
 "C17": dict(ref="DESIGN 4 C17", tech="exhaustive enumeration of instant x duration products; chrono / i128 arithmetic as oracle",
   text="All 3^8 month-free durations on representative years and a duration core on every year 1678-2261 x 4 units for the inverse laws; all 3^10 durations for the group laws; month counts up to +-1200 vs chrono; truncation to 6 fixed grains and 6 month grains on every instant; all component-built times of day."),
 "C18": dict(ref="DESIGN 4 C18", tech="exhaustive enumeration of all strings up to a length over token alphabets, all well-formed grammar words up to 3 terms, all single-character edits of formatted instants",
   text="Every string of length <= 5-6 over 14 characters through TimeDelta::parse, <= 4-5 over 12 characters through DateTime::parse, 2-4.5 million well-formed duration words against the i128 sum of terms, round trips of lattice instants through 12 formats at 4 units, every single edit of those texts."),
 "C19": dict(ref="DESIGN 4 C19", tech="exhaustive enumeration of finite parameter grids; instrumented buffers for the write path",
   text="range / linspace over integer and dyadic float grids for 5 element types into every container, full / empty, 6 collectors x every container x lists up to length 6-8 with errors at every position and pair of positions, write_trust_iter for every (buffer, iterator) length pair on an exactly-once monitor."),
 "C20": dict(ref="DESIGN 4 C20", tech="exhaustive enumeration of the ramp family (every (len, L) pair = every path of the doubling search and bisection), all short words, with a termination watchdog",
   text="half_life on all ramps up to length 48-64 x every min_periods, profile families, every word up to length 6-7; winsorize on every word x 3 methods x parameter grids against own clip bounds; Spearman on all pair words against Pearson of model ranks and under monotone transforms."),
})
CLAIMED.update({
 "C07": dict(ref="DESIGN 4 C07", tech="exhaustive enumeration of the finite matrix (input back-end configuration x output container x out-path x function x word), differential oracle = the same call on Vec -> Vec",
   text="Every word over {null,0,1,3} up to length 4-5 realised as ~45 input back-end configurations (ring offsets, strides, chunkings, Arc, option views) x 7 output cells x ~75 functions (rolling, mapping, aggregation, order statistics) compared exactly with the plain Vec result; all accessors of every container (get, uget, iteration both ways and alternating, every sub-slice, contiguous view) describe the logical word."),
 "C08": dict(ref="DESIGN 4 C08", tech="exhaustive history-tree exploration of two relations: re-encoding (NaN vs None, float vs optional output) and the null-insertion lattice (every placement of 1..3 nulls)",
   text="Every word up to length 5-6: all null-aware rolling, mapping and aggregation entry points give identical results under both null encodings and all output encodings; every null-free base word with every multiset placement of up to 2-3 nulls leaves counts, moments, extrema, quantiles, percentile ranks, covariance and correlation unchanged."),
})
for _k in CLAIMED: CLAIMED[_k].setdefault("note", COMMON_NOTE)

# large-scope, low-entropy families added after the seed rounds aimed beyond the small scope (DESIGN 5.14)
LARGE = {
 "C01": " Beyond the small scope (DESIGN 5.14): 35 structured shapes of 40..300 elements x windows up to 301; narrow element types at magnitude (i32/i64/f32 with +-50001, +-2^30). Configuration families (DESIGN 5.15): the value law on every input backend configuration (wrapped rings, strided / reversed views, chunked columns); float nulls written as other NaN kinds. Structured series of 1030 / 2100 elements. Owned ndarray arrays in non-standard layouts among the back ends.",
 "C02": " Beyond the small scope: lengths 40..4100 with windows 1..257 and len-1..len+3 on a reduced back-end set. Configuration families (DESIGN 5.15): every driver writing into caller buffers in non-canonical layouts (wrapped rings, strided / reversed views). Unbounded windows (usize::MAX, 2^63 ...) on every driver. The slice drivers on the typed Polars columns (String, Int64, Float32, Boolean) under every chunking. A second series longer than the first in the two-series drivers. Option series with every placement of nulls (lengths <= 4) through every driver. The lazy window iterator consumed with skip / nth / step_by on every back end.",
 "C03": " Beyond the small scope: structured shapes of 40..300 elements x windows up to 301; infinities as values; the translation relation on i64 values around +-2^60. Configuration families (DESIGN 5.15): the value law on every input backend; plateaus after non-dyadic history (normalisation undefined); NaN kinds. Structured series of 1030 / 2100 elements.",
 "C04": " Beyond the small scope: structured pairs of 40..270 elements x windows up to 257. Configuration families (DESIGN 5.15): the value law on every input backend; NaN kinds. Narrow element types at magnitude in both roles of the two-series statistics (pairs-narrow, trend-narrow). The second series in every backend configuration; structured pairs of 1030 / 2100 elements.",
 "C05": " Beyond the small scope: structured shapes / pairs of 40..300 elements x windows up to 301; flat stretches of non-dyadic values (mask only). NaN kinds (DESIGN 5.15). Integer orders of the fractional difference. Structured series of 1030 / 2100 elements. Infinities as observations in the extrema / rank family on f64, f32 and Option<f32> (mask-infinite).",
 "C06": " Beyond the small scope: prefix law and window-only relation on structured series of 40..270 elements, windows 9..257. Configuration families (DESIGN 5.15): the window-only relation on every input backend. Integer orders of the fractional difference. The slice / index drivers themselves under the prefix law on every input back end incl. option views (driver-prefix). Both zeros: the reported extreme is bit for bit independent of the pre-window history.",
 "C07": " Beyond the small scope: the matrix on structured series of 24 / 40 elements with windows 9, 16, 17; Datetime / String / Int32 / Int64 / Float32 / Boolean Polars columns under every chunking. Configuration families (DESIGN 5.15): caller buffers in non-canonical layouts for every built-in statistic, the user-function drivers and lazy mapping results. Every container also as the second series of the two-series functions. Owned ndarray arrays in non-standard layouts (slice_move, invert_axis; behind Arc and .opt()) as input back ends. The error path of fallible collection in every output container. Round 12 (DESIGN 5.21): the two-series functions with a second series two elements longer than the first - one result per element of the first series from every back end and path.",
 "C08": " Beyond the small scope: the encoding relation on structured series of 24..70 elements and on an alphabet with +-inf; the null-skipping fold primitives themselves. NaN kinds (DESIGN 5.4 / 5.15): encoding and transparency relations with sign-bit, payload and mixed NaNs. Null transparency of the position-independent rolling statistics (window with its nulls deleted). Rank transparency (vrank absolute / percentile). The option view .opt() as a third encoding (optview). The rolling rank in the rolling transparency relation. The rolling normalisations in the transparency relation.",
 "C09": " Beyond the small scope: sources and depth-1/2 pipelines on series of 1030 / 4100 elements; non-dyadic range steps (hint law); typed Polars columns; stateright cross-check of the next / next_back machine. Also vcut (fallible items) as a source, the std scan adaptor, and TrustedLen::len() == items still to come in every state. declared-trusted: about 40 std adaptor chains over sources of unknown length, probed at compile time for a TrustedLen declaration; whatever is declared must be exact in every state.",
 "C10": " Beyond the small scope: structured series of 40 / 270 elements with windows 255..257; 'expanding window' requests usize::MAX, 2^63. Configuration families (DESIGN 5.15): every entry point writing into strided / reversed / wrapped caller buffers with an audit of the whole backing storage (every slot of the view written, no cell outside it touched). Second series longer by up to 3; unbounded windows in the caller-layout family. A call that ignores the buffer it was handed (returns a container) is a fault. A one-element result broadcast into audited caller buffers of 2..4 slots in every layout. The partition iterators through a trusted collector into the instrumented container.",
 "C11": " Beyond the small scope: structured series of 17..4100 elements; narrow element types at magnitude (+-50001). Also infinite observations (series of nothing but infinities included) for counts, positions and extrema; NaN kinds. Iterator sources of unknown announced length; i32 series whose sum leaves the type. The vcorr convenience wrapper (omitted min_periods and 0..=len+1). The masked sum / mean with infinities. Constant series of non-dyadic values: variance / standard deviation never negative, never null (numeric-constant).",
 "C12": " Beyond the small scope: structured series and modular permutations of 17..64 elements; infinities as values; power-of-two scaling relation. Also ranks and partitions of ordered non-numeric element types (DateTime, Time, TimeDelta, String, Option<i64>, Option<bool>); NaN kinds. Unsigned element types; i32 neighbours further apart than the type's MAX. Durations 300 ns apart and durations beyond the i64 nanosecond count. Percentile of score on 64-bit integers beyond 2^53 (translation relation). Round 12 (DESIGN 5.21): order-huge - same-sign f64 words at the top of the range (1e308 .. f64::MAX) through vmedian and the linear vquantile: finite and between the neighbouring order statistics.",
 "C13": " Beyond the small scope: structured series of 24..130 elements with every lag of the band; power-of-two scaling relation for vdiff / vpct_change. NaN kinds (DESIGN 5.15). Infinities in every element-wise operation. vclip on TimeDelta / Option<TimeDelta> with plain and month-bearing elements and bounds (maps-durations). Every lazy result advanced by nth(j): items and announced length afterwards.",
 "C14": " Beyond the small scope: 17..257 consecutive edges with values on / between every edge and the type extremes / infinities; runs of 255..257 equal values; translation relation on i64 around +-2^60. Also labels that are nulls themselves (NaN / None / \"None\") at every position. Sorted runs of TimeDelta values, incl. durations beyond the i64 nanosecond count (unique-durations). Value sequences with repeats, misses and nulls in every order (cut-sequences): items after an Err are still right. Labels of the time types, strings, optional bools / indices incl. the type's default value as a label.",
 "C15": " Also IsNone for Vec<T>, order laws on every time type, i64 casts of the time types, durations of ~300 years. Also law L9: inner_cast / into_cast keep the value and keep a null a null (ten Self types x eight value types). Law L10: the accessor family of the Number trait against `as`. Both signs of NaN in the float value lists. Law L11: equality of durations is the identity of their fields; month-bearing, sub-microsecond and very long durations under the comparator laws. Round 12 (DESIGN 5.21): law L12 - the twelve DateTime<U> -> DateTime<T> casts: NaT stays NaT, values floor to the coarser unit, overflow towards the finer unit is NaT.",
 "C16": " Also the Polars AnyValue bridge (3 x 3 unit pairs on every lattice timestamp); stateright cross-check. Also every optional numeric target (and f32 / f64) of a date-time in every state: null iff NaT. The deprecated to_cr and the TryFrom conversion next to as_cr in every state. The naive calendar routes (NaiveDateTime, Option<NaiveDateTime>, NaiveDate) in every state.",
 "C17": " Also integer scaling as repeated addition, Timelike setters, truncation to every grain count 1..60 (and more) in every unit ns..h. Also the difference of every pair of grid instants (up to 583 years apart) in every unit, exact to the digit. Durations with a month count and a fixed part applied to instants (datetime+-mixed).",
 "C18": " Also duration words of 17..300 terms, zero-padded numerals, FromStr / From<&str> / Cast routes. Also 16 caller-made formats (composite, padding-modified, 12-hour, day-of-year, compact, unix-timestamp specifiers) written by strftime(Some(fmt)) and parsed back with the same format. The edges of the nanosecond range (first / last instants, first partial second). Every single-character edit (characters of 1..4 bytes) of well-formed time-of-day texts with fractions of 0..12 digits and of duration texts. Signed and five / six digit years in the coarser units through the default formatter and parser.",
 "C19": " Beyond the small scope: progressions, linspaces, collections and buffer writes of 255..1000 elements, starts of magnitude 2^40, steps of 10^10, ends a hair past a grid point; the checked UninitVec::set. Also the same sequence through all 19 iterator shapes the library declares trusted: len / is_empty, collectors, writes into every container and caller-buffer layout. Omitted against explicit start / step of range, omitted start of linspace. A stride-ignoring slot writer shows as a wrong result in the strided / reversed layouts (room behind the lane). The collectors on ten element types (collectors-typed), the optional collector on types without a null. Every iterator shape advanced by nth(j): length, items and write afterwards.",
 "C20": " Beyond the small scope: winsorize on structured series and modular permutations of 17..64 elements; AR(1)-type paths for half_life. winsorize on i32 values whose sum leaves the type. Spearman translation relation on i64 series around +-2^60.",
}
REASONS_PENDING = "check not built yet in this commit (planned, see DESIGN.md section 4); machinery for it (back-end matrix visitors, encodings) exists in mc-adapt"

def main():
    props = [json.loads(l)["id"] for l in open("/verif/properties.jsonl")]
    checks = []
    for pid in props:
        if pid not in CLAIMED: continue
        c = CLAIMED[pid]
        checks.append({
            "property_id": pid,
            "quick_cmd": f"./check {pid} quick",
            "thorough_cmd": f"./check {pid} thorough",
            "evidence_file": f"/verif/evidence/{pid}.json",
            "replay_cmd_template": f"./check {pid} --replay {{path}}",
            "engine": "mc-explorer",
            "level_claimed": {"category": "model_checking", "text": c["text"] + LARGE.get(pid, ""), "design_ref": c["ref"]},
            "level_note": c["note"],
            "technique": c["tech"],
        })
    na = [{"property_id": p, "reason": REASONS_PENDING} for p in props if p not in CLAIMED]
    m = {
        "version": 1,
        "setup_cmd": "./setup.sh",
        "hooks": {
            "guard": "--cfg tevec_verif (reserved, unused: all instrumentation lives in the harness via tevec's public traits)",
            "enable": "none needed; checks build /repo as a path dependency with features ndarray,vecdeque,fdiff,polars in the checked profile (opt-level 2, overflow-checks, debug-assertions)",
            "baseline_off_cmd": "cd /repo && cargo test --workspace --no-fail-fast --offline",
            "source_commits": [],
            "add_only": True,
        },
        "engines": [
            {"name": "mc-explorer", "path": "/verif/mc", "serves_properties": sorted(CLAIMED),
             "kind_free_text": "purpose-built deterministic explicit-state explorer in Rust (mc-core): DFS over history trees without state merging, product enumeration, BFS with dedup over action chains; reference models in mc-ref (no tevec dependency); adapters in mc-adapt; one binary per property in mc-checks"},
        ],
        "checks": checks,
        "not_applicable": na,
        "notes": "Exit codes: 0 held (KNOWN-FINDING lines allowed), 1 VIOLATION, >=2 machinery error (no verdict). Known findings: /verif/known-findings.json.",
    }
    json.dump(m, open("/verif/MANIFEST.json", "w"), indent=1)
    try:
        import jsonschema
        jsonschema.validate(m, json.load(open("/root/.vp/MANIFEST.schema.json")))
        print("MANIFEST.json valid;", len(checks), "checks,", len(na), "not_applicable")
    except ImportError:
        print("written (jsonschema not importable here)")

main()
