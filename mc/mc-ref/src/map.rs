//! reference model: map
