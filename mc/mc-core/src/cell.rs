//! Type-erased observations of the implementation: cells, outcomes, comparators, panic capture.
use std::panic::{catch_unwind, AssertUnwindSafe};
use std::sync::Once;

#[derive(Clone, Debug, PartialEq)]
pub enum Cell {
    Null,
    F(f64),
    I(i64),
    B(bool),
    S(String),
}

impl Cell {
    pub fn is_null(&self) -> bool {
        match self {
            Cell::Null => true,
            Cell::F(x) => x.is_nan(),
            _ => false,
        }
    }
    /// numeric view (Null / NaN => None)
    pub fn num(&self) -> Option<f64> {
        match self {
            Cell::F(x) if !x.is_nan() => Some(*x),
            Cell::I(i) => Some(*i as f64),
            Cell::B(b) => Some(*b as i64 as f64),
            _ => None,
        }
    }
    pub fn f(x: f64) -> Cell {
        if x.is_nan() {
            Cell::Null
        } else {
            Cell::F(x)
        }
    }
    pub fn of(x: Option<f64>) -> Cell {
        match x {
            Some(v) => Cell::f(v),
            None => Cell::Null,
        }
    }
    pub fn show(&self) -> String {
        match self {
            Cell::Null => "null".into(),
            Cell::F(x) => format!("{x:?}"),
            Cell::I(i) => format!("{i}"),
            Cell::B(b) => format!("{b}"),
            Cell::S(s) => format!("{s:?}"),
        }
    }
    pub fn json(&self) -> serde_json::Value {
        match self {
            Cell::Null => serde_json::Value::Null,
            Cell::F(x) if x.is_finite() => serde_json::json!(x),
            Cell::F(x) => serde_json::json!(format!("{x:?}")),
            Cell::I(i) => serde_json::json!(i),
            Cell::B(b) => serde_json::json!(b),
            Cell::S(s) => serde_json::json!(s),
        }
    }
    /// a hash of the observation (used to count distinct outcomes)
    pub fn hash64(&self) -> u64 {
        match self {
            Cell::Null => 0x9e37_79b9_7f4a_7c15,
            Cell::F(x) => {
                if x.is_nan() {
                    0x9e37_79b9_7f4a_7c15
                } else if *x == 0.0 {
                    mix(1, 0)
                } else {
                    mix(1, x.to_bits())
                }
            }
            Cell::I(i) => mix(1, (*i as f64).to_bits()),
            Cell::B(b) => mix(3, *b as u64),
            Cell::S(s) => s.bytes().fold(7u64, |h, b| mix(h, b as u64)),
        }
    }
}

#[inline]
pub fn mix(h: u64, v: u64) -> u64 {
    let mut x = h ^ v.wrapping_mul(0x9E37_79B9_7F4A_7C15);
    x ^= x >> 32;
    x = x.wrapping_mul(0xD6E8_FEB8_6659_FD93);
    x ^= x >> 29;
    x
}

pub fn hash_cells(cs: &[Cell]) -> u64 {
    cs.iter().fold(0x1234_5678u64, |h, c| mix(h, c.hash64()))
}
pub fn hash_bytes(bs: &[u8]) -> u64 {
    bs.iter().fold(0xabcdu64, |h, c| mix(h, *c as u64 + 1))
}
pub fn hash_u64s(bs: &[u64]) -> u64 {
    bs.iter().fold(0xfeedu64, |h, c| mix(h, *c))
}

pub fn show_cells(cs: &[Cell]) -> String {
    let v: Vec<String> = cs.iter().map(|c| c.show()).collect();
    format!("[{}]", v.join(", "))
}
pub fn json_cells(cs: &[Cell]) -> serde_json::Value {
    serde_json::Value::Array(cs.iter().map(|c| c.json()).collect())
}

/// `Exact` comparator of DESIGN 2.7: numerically identical, all nulls equal (None ~ NaN).
pub fn exact_eq(a: &Cell, b: &Cell) -> bool {
    match (a.is_null(), b.is_null()) {
        (true, true) => return true,
        (true, false) | (false, true) => return false,
        _ => {}
    }
    match (a, b) {
        (Cell::S(x), Cell::S(y)) => x == y,
        (Cell::B(x), Cell::B(y)) => x == y,
        (Cell::I(x), Cell::I(y)) => x == y,
        _ => match (a.num(), b.num()) {
            (Some(x), Some(y)) => x == y,
            _ => false,
        },
    }
}

pub const TOL: f64 = 1e-9;

/// `Tol` comparator: |got - exp| <= 1e-9 * max(1, |exp|); null only equals null.
pub fn tol_eq(got: &Cell, exp: &Cell) -> bool {
    match (got.is_null(), exp.is_null()) {
        (true, true) => return true,
        (true, false) | (false, true) => return false,
        _ => {}
    }
    match (got.num(), exp.num()) {
        (Some(g), Some(e)) => close(g, e),
        _ => exact_eq(got, exp),
    }
}
thread_local! {
    /// additional absolute tolerance (default 0), set by families whose *history* holds values many orders
    /// of magnitude larger than the results: an incrementally maintained state legitimately carries
    /// rounding noise of the order eps * (largest value seen), which has nothing to do with the size of
    /// the current result (DESIGN 5.2)
    static ABS_TOL: std::cell::Cell<f64> = const { std::cell::Cell::new(0.0) };
}
pub fn set_abs_tol(v: f64) {
    ABS_TOL.with(|t| t.set(v));
}
pub fn close(g: f64, e: f64) -> bool {
    if g == e {
        return true;
    }
    if !g.is_finite() || !e.is_finite() {
        return false;
    }
    (g - e).abs() <= TOL * e.abs().max(1.0) + ABS_TOL.with(|t| t.get())
}

pub fn cells_eq(a: &[Cell], b: &[Cell], f: fn(&Cell, &Cell) -> bool) -> bool {
    a.len() == b.len() && a.iter().zip(b).all(|(x, y)| f(x, y))
}

/// What one call of the implementation produced.
#[derive(Clone, Debug)]
pub enum Outcome<T> {
    Ok(T),
    Panic(String),
}

impl<T> Outcome<T> {
    pub fn ok(self) -> Option<T> {
        match self {
            Outcome::Ok(t) => Some(t),
            _ => None,
        }
    }
    pub fn is_panic(&self) -> bool {
        matches!(self, Outcome::Panic(_))
    }
}

static HOOK: Once = Once::new();

/// Install a silent panic hook (once). Panics become `Outcome::Panic` values.
pub fn silence_panics() {
    HOOK.call_once(|| {
        std::panic::set_hook(Box::new(|info| {
            // unwinding panics are observations (caught and judged); a non-unwinding panic aborts the
            // process (e.g. std's "unsafe precondition(s) violated"): keep its message for the report
            let msg = info.to_string();
            if msg.contains("unsafe precondition") || msg.contains("misaligned") || msg.contains("null pointer") {
                eprintln!("{msg}");
            }
        }));
    });
}

pub fn catch<T>(f: impl FnOnce() -> T) -> Outcome<T> {
    silence_panics();
    match catch_unwind(AssertUnwindSafe(f)) {
        Ok(v) => Outcome::Ok(v),
        Err(e) => {
            let msg = if let Some(s) = e.downcast_ref::<&str>() {
                s.to_string()
            } else if let Some(s) = e.downcast_ref::<String>() {
                s.clone()
            } else {
                "<non-string panic>".to_string()
            };
            Outcome::Panic(msg)
        }
    }
}

pub fn show_outcome(o: &Outcome<Vec<Cell>>) -> String {
    match o {
        Outcome::Ok(c) => show_cells(c),
        Outcome::Panic(m) => format!("PANIC({})", truncate(m, 120)),
    }
}
pub fn truncate(s: &str, n: usize) -> String {
    if s.chars().count() <= n {
        s.to_string()
    } else {
        let t: String = s.chars().take(n).collect();
        format!("{t}…")
    }
}
