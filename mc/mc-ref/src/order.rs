//! reference model: order
