#!/usr/bin/env python3
"""Maintains /verif/known-findings.json from one table (edited by hand, never at check run time)."""
import json
# (finding id, [properties where its classifier exists], status, commit, what, witness)
F = [
 ("F01", ["C01"], "fixed", "6bded67", "ts_fdiff warm-up positions (i < w-1) use the coefficients of the oldest lags", "[1] d=0.5 w=2 -> -0.5, expected 1"),
 ("F02", ["C05", "C06"], "fixed", "7b77ba3", "ts_vewm returns +-inf on an all-null window with min_periods 0 (and so depends on pre-window history)", "[-2,1,null,null,null] w=3 mp=0 pos 4 -> -inf"),
 ("F03", ["C05"], "fixed", "85ee07f", "ts_vargmin/ts_vargmax report an offset for an all-null window with min_periods 0", "[null] w=1 mp=0 -> 1"),
 ("F04", ["C04", "C05"], "fixed", "bde0795", "ts_vreg_resid_mean uses n*sum(t^2) in the residual sum", "[0,1] w=2 mp=0 -> 2.5, expected 0"),
 ("F05", ["C04", "C05"], "fixed", "42e4cbb", "ts_vcov computes n-1 on usize with n=0 when min_periods is 0", "[0]x[null] w=2 mp=0 -> overflow panic"),
 ("F06", ["C05"], "fixed", "59c18b3", "ts_vrank on empty input computes 0-1", "[] w=1"),
 ("F07", ["C05", "C07"], "fixed", "59c18b3", "extrema family on an empty non-Vec container trips assert!(window > 0)", "empty VecDeque ts_vmin(1, 0)"),
 ("F08", ["C07"], "fixed", "611f660", "try_as_slice() of a reversed contiguous ndarray view returns the memory-order slice", "view [0,1] with step -1 -> Some([1,0])"),
 ("F09", ["C08", "C12"], "fixed", "e0fee11", "vquantile / vmedian return null when the single valid element is not first", "[null, 0] q=0 -> null"),
 ("F10", ["C12"], "fixed", "b852aca", "vrank of a length-1 all-null input is 1", "[null] -> [1.0]"),
 ("F11", ["C09", "C13"], "fixed", "8a6677a", "shift has no guard for |n| > len: underflow panic for n > 0, n_abs items for n < 0", "[] shift(1)"),
 ("F12", ["C09"], "fixed", "b9fa512", "TrustIter::size_hint is constant: after partial consumption it over-reports", "vpartition(0) after one next(): hint 1, remaining 0"),
 ("F13", ["C12"], "fixed", "6fcb0d9", "vpartition(sort=true) yields len items when len < k+1 (no padding)", "[] k=0 -> []"),
 ("F14", ["C10"], "fixed", "d8b50a5", "window 0 through the *_to bodies returns without writing; the output buffer is exposed uninitialised", "vec![0.0].ts_vsum_to(0, ..) / Vec fast path"),
 ("F15", ["C10"], "fixed", "590239c", "rolling2_*_to read other.uget(i) for i >= other.len() when the second series is shorter", "ts_vcov first len 1, second len 0"),
 ("F16", ["C11"], "fixed", "5768331", "vmean_var / vvar / vstd return 0 instead of null for a single valid observation", "[0.0] mp=0 -> var 0"),
 ("F17", ["C06", "C13"], "fixed", "2d7c32c", "vdiff(n>0, fill) yields x[i]-fill in the first n places instead of fill", "[0,0] n=1 fill=7 -> [-7,0]"),
 ("F18", ["C13"], "fixed", "d01288e", "vdiff(0) / vpct_change(0) return 0 at null (and zero-base) positions", "[null] vdiff(0) -> [0]"),
 ("F19", ["C14"], "fixed", "813feb9", "vsorted_unique_idx(Keep::Last) with leading nulls emits the index of the last leading null", "[null,0] -> [0,1]"),
 ("F20", ["C14"], "fixed", "389750d", "vcut with open outer bounds rejects the type's minimum (right-closed) / maximum (left-closed)", "i32::MIN, edges [], 1 label, right"),
 ("F21", ["C15"], "fixed", "1fdb9e8", "null <-> time casts: NaT -> float is -9.2e18, NaN -> DateTime/TimeDelta/Time is the epoch/zero, TimeDelta::nat() -> numbers panics", "DateTime::nat() as f64"),
 ("F22", ["C16"], "fixed", "0a6408e", "into_unit divides / multiplies the NaT sentinel and truncates toward zero before 1970", "-1 ms -> s gives 0, expected -1"),
 ("F23", ["C16"], "fixed", "36b06a0", "Time::nat() +- duration is not NaT (or overflows)", "Time::nat() + 1ns"),
 ("F24", ["C17"], "fixed", "38bf4eb", "duration_trunc to months uses year*12+month and never resets day and time", "1970-01-01 trunc 2mo -> 1969-12-01"),
 ("F25", ["C18"], "fixed", "24604d0+31ee079", "TimeDelta::parse panics (unwrap on the integer parse, unchecked arithmetic) or silently truncates an overflowing month count", "\"abc\"; \"200000000y\"; \"2147483648mo\""),
 ("F26", ["C18"], "fixed", "bb950f1", "DateTime<Nanosecond>::parse panics on instants outside the i64 nanosecond range", "\"3000-01-01\""),
 ("F27", ["C19"], "fixed", "296dc73", "integer range truncates the element count and turns an empty / backward span into a huge length", "range(1,0,1) i32 -> capacity overflow; range(0,5,2) -> [0,2]"),
 ("F28", ["C20"], "fixed", "86ca491", "half_life's bisection inverts its bracket ((last_n, n) = (life, last_n)) and underflows", "ramp 0..5 mp=1 -> overflow panic"),
 ("F29", ["C02", "C07"], "fixed", "833cd1d", "Vec/array/ndarray inputs returning a Polars container panic: their fast paths use O::uninit + uset, unsupported by ChunkedArray", "vec![10].rolling_apply::<Int32Chunked,_,_>(1, f, None)"),
 ("F30", ["C03"], "fixed", "1762374", "ts_vminmaxnorm subtracts in the integer element type: overflow when max-min exceeds the type's range", "[-1, 2147483647] i32 w=2"),
 ("F31", ["C09"], "fixed", "e718092", "the Polars container iterator (titer of a ChunkedArray) keeps its initial size hint while being consumed", "Float64Chunked [0.0]: after next() hint still 1"),
 ("F32", ["C15"], "fixed", "c99e7f8", "a null float cast to String gives \"NaN\", which the string type does not regard as null", "f64::NAN.cast::<String>()"),
 ("F35", ["C15"], "fixed", "52ac5fb", "Some(bool) cast to String gives the Debug form \"Some(true)\" instead of the cast of the inner value", "Some(true).cast::<String>()"),
 ("F36", ["C07"], "fixed", "ba485b3", "iterating a Polars Datetime column stored in milliseconds as DateTime<Millisecond> hits unreachable!() (the impl matches TimeUnit::Microseconds); a microsecond column is handed out relabelled as milliseconds", "(&Int64Chunked[..].into_datetime(Milliseconds)).titer::<DateTime<Millisecond>>()"),
 ("F37", ["C09"], "fixed", "493d864", "titer() of a Polars String column and of a Datetime column (all three units) keeps its initial size hint while being consumed (the F31 defect in the two impls that were not built from the numeric macro)", "(&StringChunked[\"a\"]).titer() after one next(): size_hint (1, Some(1)), 0 items left"),
 ("F38", ["C16"], "fixed", "dc806a3", "DateTime<Millisecond|Microsecond>::from(AnyValue::Datetime) of a finer unit delegates to polars' cast, which divides toward zero: pre-epoch instants move forward (ns -1 -> ms 0) while into_unit gives -1", "DateTime::<Millisecond>::from(AnyValue::Datetime(-1, Nanoseconds, None))"),
 ("F39", ["C13"], "fixed", "fd3e805", "vpct_change(0) of an infinite element returns 0 instead of null (inf / inf - 1 is not a number): an oversight of the repair d01288e, which wrote the literal 0 for every non-null non-zero base", "[inf] vpct_change(0) -> [0.0]"),
 ("F40", ["C16"], "fixed", "11e567f", "TryFrom<DateTime<Nanosecond>> for chrono::DateTime accepts the NaT sentinel: i64::MIN nanoseconds is a representable instant for chrono, so a NaT converts to the calendar value 1677-09-21 00:12:43.145224192 (the three coarser units fail by range)", "chrono::DateTime::<Utc>::try_from(DateTime::<Nanosecond>::nat()) -> Ok(1677-09-21T00:12:43.145224192Z)"),
 ("F41", ["C11"], "fixed", "2cfeaf4", "vmean / mean accumulate the sum in the element type: an integer series whose sum leaves the type panics (checked build) or wraps although its mean is representable", "vec![1_400_000_000i32; 2].titer().vmean() -> attempt to add with overflow"),
 ("F34", ["C20"], "fixed", "86ca491", "half_life treats a null correlation inside the bisection as an exact hit and stops early", "ramp 0..9 mp=5 -> 6, expected 5"),
]
out = {"_comment": "Genuine defects of Teamon9161/tevec found by the checks (DESIGN.md section 6). status=open: recorded, not repaired: the check prints KNOWN-FINDING and exits 0 for cases matching the narrow classifier compiled into the check under this id. status=fixed: repaired by the named commit in /repo; a fixed entry suppresses nothing. This file is never written at check run time.",
       "findings": []}
for fid, props, status, commit, what, wit in F:
    for p in props:
        e = {"property": p, "id": fid, "status": status, "what": what, "witness": wit}
        if commit: e["commit"] = commit
        out["findings"].append(e)
json.dump(out, open("/verif/known-findings.json", "w"), indent=1)
lines = [f"fixed: property={e['property']} {e.get('commit','')} {e['id']} {e['what']}" for e in out["findings"] if e["status"] == "fixed"]
open("/verif/known-findings.txt", "w").write("\n".join(lines) + ("\n" if lines else ""))
print(len(out["findings"]), "entries;", sum(1 for e in out["findings"] if e["status"]=="open"), "open")
