//! C11 — aggregations equal their textbook definitions over the non-null elements.
use mc_adapt::aggs::*;
use mc_checks::*;
use mc_ref::agg::{agg_model, AggOp};

type RunV = fn(AggOp, &[X], &[X], Source) -> Option<Outcome<Vec<Cell>>>;
type RunP = fn(AggOp, &[X], Source) -> Option<Outcome<Vec<Cell>>>;

fn cmp_of(op: AggOp) -> Cmp {
    use AggOp::*;
    match op {
        VMean | VMeanVar(_) | VVar(_) | VStd(_) | VSkew(_) | VKurt(_) | VCov(_) | VCorr(_) | Mean | VMeanFilter(_) => Cmp::Tol,
        _ => Cmp::Exact,
    }
}

fn judge(got: &Outcome<Vec<Cell>>, model: &[Exp], cmp: Cmp) -> Option<(String, String)> {
    match got {
        Outcome::Panic(m) => Some((show_exps(model), format!("PANIC({})", truncate(m, 100)))),
        Outcome::Ok(c) => {
            if c.len() != model.len() || !c.iter().zip(model).all(|(g, e)| satisfies(g, e, cmp, OutKind::F64)) {
                Some((show_exps(model), show_cells(c)))
            } else {
                None
            }
        }
    }
}

/// per-output-cell factor under x -> s*x (power-of-two s: the relation is exact, see rollcheck)
fn scale_factors(op: AggOp, s1: f64, s2: f64) -> Option<Vec<f64>> {
    use AggOp::*;
    Some(match op {
        VSum | VMean | VMax | VMin | VFirst | VLast | VStd(_) => vec![s1],
        VVar(_) => vec![s1 * s1],
        VMeanVar(_) => vec![s1, s1 * s1],
        VSkew(_) | VKurt(_) | CountValid | CountNone | VArgmax | VArgmin => vec![1.0],
        VCov(_) => vec![s1 * s2],
        VCorr(_) => vec![1.0],
        _ => return None,
    })
}
fn rel_close(g: f64, e: f64) -> bool {
    g == e || (g - e).abs() <= 1e-9 * e.abs().max(g.abs())
}
fn check_scaling(fam: &str, word: &[u8], op: AggOp, a: &[X], b: &[X], base: &Outcome<Vec<Cell>>, model: &[Exp], ctx: &mut Ctx) {
    let open = model.iter().any(|e| e.any || (e.null_ok && e.val.is_some()));
    if open {
        return;
    }
    for (s1, s2) in [(1.0 / 8192.0, 1.0 / 8192.0), (1024.0, 1.0 / 8192.0), (1.0 / 8192.0, 1024.0), (1024.0, 1024.0)] {
        if !op.binary() && s1 != s2 {
            continue;
        }
        let factors = match scale_factors(op, s1, s2) {
            Some(f) => f,
            None => return,
        };
        let sa: Vec<X> = a.iter().map(|v| v.map(|p| p * s1)).collect();
        let sb: Vec<X> = b.iter().map(|v| v.map(|p| p * s2)).collect();
        let got = match run_agg_valid::<f64>(op, &sa, &sb, Source::TIter) {
            Some(g) => g,
            None => continue,
        };
        ctx.evals += 1;
        let ok = match (base, &got) {
            (Outcome::Ok(x), Outcome::Ok(y)) => x.len() == y.len() && x.iter().zip(y).zip(&factors).all(|((p, q), f)| match (p.num(), q.num()) {
                (None, None) => true,
                (Some(u), Some(v)) => rel_close(v, u * f),
                _ => false,
            }),
            (Outcome::Panic(_), Outcome::Panic(_)) => true,
            _ => false,
        };
        if !ok {
            ctx.violation(Violation {
                entry: format!("scaling:{}", op.name()),
                finding: None,
                size: a.len() * 100,
                case: json!({"family": fam, "word": word, "series": json_word(a), "second": json_word(b), "op": format!("{op:?}"), "scales": [s1, s2]}),
                expected: format!("{:?} * {}", factors, show_outcome(base)),
                got: show_outcome(&got),
            });
        }
    }
}

fn valid_ops(len: usize, alpha: &[X]) -> Vec<AggOp> {
    use AggOp::*;
    let mut v = vec![CountValid, CountNone, VFirst, VLast, VSum, VMean, VMax, VMin, VArgmax, VArgmin];
    for t in alpha {
        v.push(VCountValue(*t));
    }
    for mp in 0..=len + 1 {
        v.extend([VMeanVar(mp), VVar(mp), VStd(mp), VSkew(mp), VKurt(mp)]);
    }
    v
}
fn plain_ops(alpha: &[X]) -> Vec<AggOp> {
    use AggOp::*;
    let mut v = vec![First, Last, Sum, Mean, NSum, Max, Min, Argmax, Argmin];
    for t in alpha.iter().flatten() {
        v.push(CountValue(*t));
    }
    v
}
fn pair_ops(len: usize) -> Vec<AggOp> {
    use AggOp::*;
    let mut v = vec![NVSumFilter, NSumFilter];
    for mp in 0..=len + 1 {
        v.extend([VCov(mp), VCorr(mp), VMeanFilter(mp)]);
    }
    v
}

struct Numeric {
    name: String,
    alpha: Vec<X>,
    max_len: usize,
    tys: Vec<(&'static str, RunV)>,
    ptys: Vec<(&'static str, RunP)>,
    /// only the aggregations that stay exact with infinite observations (positions, counts, extrema)
    order_only: bool,
    /// skip the aggregations whose result type is the element type (a sum that leaves the type is inherent there)
    no_elem_sums: bool,
}
fn order_op(op: AggOp) -> bool {
    use AggOp::*;
    matches!(op, CountValid | CountNone | VFirst | VLast | VMax | VMin | VArgmax | VArgmin | VCountValue(_) | First | Last | Max | Min | Argmax | Argmin | CountValue(_))
}

fn classify(op: AggOp, x: &[X], got: &Outcome<Vec<Cell>>) -> Option<String> {
    let n = x.iter().flatten().count();
    // F16: variance of a single valid observation is reported as 0 instead of null
    if matches!(op, AggOp::VMeanVar(_) | AggOp::VVar(_) | AggOp::VStd(_)) && n == 1 {
        if let Outcome::Ok(c) = got {
            if c.last().and_then(|v| v.num()) == Some(0.0) {
                return Some("F16".into());
            }
        }
    }
    None
}

impl Numeric {
    fn check_word(&self, word: &[u8], ctx: &mut Ctx) {
        if self.name.ends_with("-nan-kinds") {
            // every NaN is the same null (DESIGN 5.4); only words that contain a null
            if decode(word, &self.alpha).iter().any(|v| v.is_none()) {
                for kind in [1u8, 3] {
                    with_nan_kind(kind, || self.check_word_inner(word, ctx));
                }
            }
        } else {
            self.check_word_inner(word, ctx)
        }
    }
    fn check_word_inner(&self, word: &[u8], ctx: &mut Ctx) {
        let x = decode(word, &self.alpha);
        let len = x.len();
        ctx.fam(&self.name).states += 1;
        let nontrivial = x.iter().any(|v| v.is_some());
        if nontrivial {
            ctx.nontrivial(&self.name, hash_bytes(word));
        }
        // a permutation of the input: the word sorted by symbol
        let mut sorted_syms = word.to_vec();
        sorted_syms.sort();
        let xs = decode(&sorted_syms, &self.alpha);
        let permuted = sorted_syms != word;
        for op in valid_ops(len, &self.alpha) {
            if self.order_only && !order_op(op) {
                continue;
            }
            if self.no_elem_sums && matches!(op, AggOp::VSum) {
                continue;
            }
            let model = agg_model(op, &x, &[]);
            for (tname, run) in &self.tys {
                // sources of exact and of unknown announced length (size hints (n, n), (0, n), (0, None))
                for src in [Source::Owned, Source::TIter, Source::OptView, Source::Filtered, Source::FlatMapped] {
                    let got = match run(op, &x, &[], src) {
                        None => continue,
                        Some(g) => g,
                    };
                    ctx.eval(&self.name, outcome_hash(&got));
                    if *tname == "f64" && src == Source::TIter && !self.order_only {
                        check_scaling(&self.name, word, op, &x, &[], &got, &model, ctx);
                    }
                    if let Some((exp, g)) = judge(&got, &model, cmp_of(op)) {
                        ctx.violation(Violation {
                            entry: op.name().into(),
                            finding: classify(op, &x, &got),
                            size: len * 100,
                            case: json!({"family": self.name, "word": word, "series": json_word(&x), "op": format!("{op:?}"), "elem": tname, "source": format!("{src:?}")}),
                            expected: exp,
                            got: g,
                        });
                    } else if ctx.samples.len() < 3 && len == 5 && nontrivial && matches!(op, AggOp::VSkew(0)) {
                        ctx.sample(json!({"op": format!("{op:?}"), "series": json_word(&x), "elem": tname, "source": format!("{src:?}"), "model": show_exps(&model), "observed": show_outcome(&got)}));
                    }
                    // permutation relation for the symmetric aggregations
                    if permuted && op.symmetric() && src == Source::TIter {
                        if let (Outcome::Ok(a), Some(Outcome::Ok(b))) = (&got, run(op, &xs, &[], src)) {
                            ctx.evals += 1;
                            let same = a.len() == b.len()
                                && a.iter().zip(&b).all(|(p, q)| if cmp_of(op) == Cmp::Exact { exact_eq(p, q) } else { tol_eq(p, q) });
                            if !same {
                                ctx.violation(Violation {
                                    entry: format!("permutation:{}", op.name()),
                                    finding: None,
                                    size: len * 100,
                                    case: json!({"family": self.name, "word": word, "series": json_word(&x), "op": format!("{op:?}"), "elem": tname, "permuted": json_word(&xs)}),
                                    expected: format!("same result on the permuted series: {}", show_cells(&b)),
                                    got: show_cells(a),
                                });
                            }
                        }
                    }
                }
            }
        }
        if x.iter().all(|v| v.is_some()) {
            for op in plain_ops(&self.alpha) {
                if self.order_only && !order_op(op) {
                    continue;
                }
                if self.no_elem_sums && matches!(op, AggOp::Sum | AggOp::NSum) {
                    continue;
                }
                let model = agg_model(op, &x, &[]);
                for (tname, run) in &self.ptys {
                    for src in [Source::Owned, Source::TIter] {
                        let got = match run(op, &x, src) {
                            None => continue,
                            Some(g) => g,
                        };
                        ctx.eval(&self.name, outcome_hash(&got));
                        if let Some((exp, g)) = judge(&got, &model, cmp_of(op)) {
                            ctx.violation(Violation {
                                entry: op.name().into(),
                                finding: None,
                                size: len * 100,
                                case: json!({"family": self.name, "word": word, "series": json_word(&x), "op": format!("{op:?}"), "elem": tname, "source": format!("{src:?}")}),
                                expected: exp,
                                got: g,
                            });
                        }
                    }
                }
            }
        }
    }
}
impl TreeSys for Numeric {
    type Memo = ();
    fn k(&self) -> usize {
        self.alpha.len()
    }
    fn max_len(&self) -> usize {
        self.max_len
    }
    fn name(&self) -> String {
        self.name.clone()
    }
    fn visit(&self, w: &[u8], _p: Option<&()>, ctx: &mut Ctx) {
        self.check_word(w, ctx)
    }
}

struct Pairs {
    alpha: Vec<X>,
    max_len: usize,
    /// the masked sums and means on an alphabet with infinite observations (family pairs-inf)
    inf: bool,
}
impl Pairs {
    fn check_word(&self, word: &[u8], ctx: &mut Ctx) {
        let k = self.alpha.len();
        let a: Vec<X> = word.iter().map(|s| self.alpha[*s as usize / k]).collect();
        let b: Vec<X> = word.iter().map(|s| self.alpha[*s as usize % k]).collect();
        let name = if self.inf { "pairs-inf" } else { "pairs" };
        ctx.fam(name).states += 1;
        ctx.nontrivial(name, hash_bytes(word));
        // masks are boolean: only 0 / 1 / null can be cast to bool (anything else is the documented panic)
        let mask: Vec<X> = b.iter().map(|m| m.map(|v| if v != 0.0 { 1.0 } else { 0.0 })).collect();
        if self.inf {
            // +inf and -inf selected together: the sum is not a number under every order; not claimed
            let sel: Vec<f64> = a.iter().zip(&mask).filter(|(_, m)| matches!(m, Some(t) if *t != 0.0)).filter_map(|(v, _)| *v).collect();
            if sel.contains(&f64::INFINITY) && sel.contains(&f64::NEG_INFINITY) {
                return;
            }
        }
        for op in pair_ops(a.len()) {
            if self.inf && !matches!(op, AggOp::NVSumFilter | AggOp::NSumFilter | AggOp::VMeanFilter(_)) {
                continue;
            }
            let b = if matches!(op, AggOp::NVSumFilter | AggOp::NSumFilter | AggOp::VMeanFilter(_)) { &mask } else { &b };
            let model = agg_model(op, &a, b);
            for (tname, run) in [("f64", run_agg_valid::<f64> as RunV), ("Option<f64>", run_agg_valid::<Option<f64>> as RunV), ("Option<i32>", run_agg_valid::<Option<i32>> as RunV)] {
                for src in [Source::Owned, Source::TIter, Source::OptView, Source::Filtered, Source::FlatMapped] {
                    let got = match run(op, &a, b, src) {
                        None => continue,
                        Some(g) => g,
                    };
                    ctx.eval(name, outcome_hash(&got));
                    if tname == "f64" && src == Source::TIter && !self.inf {
                        check_scaling(name, word, op, &a, b, &got, &model, ctx);
                    }
                    if let Some((exp, g)) = judge(&got, &model, cmp_of(op)) {
                        ctx.violation(Violation {
                            entry: op.name().into(),
                            finding: None,
                            size: a.len() * 100,
                            case: json!({"family": name, "word": word, "first": json_word(&a), "second_or_mask": json_word(b), "op": format!("{op:?}"), "elem": tname, "source": format!("{src:?}")}),
                            expected: exp,
                            got: g,
                        });
                    }
                }
            }
        }
        if self.inf {
            return;
        }
        // the convenience wrapper vcorr(other, min_periods: Option, method): omitted min_periods = len / 2
        let len = a.len();
        for mp in std::iter::once(None).chain((0..=len + 1).map(Some)) {
            let model = agg_model(AggOp::VCorr(mp.unwrap_or(len / 2)), &a, &b);
            let runs = [("f64", wrapper::vcorr_f64(&a, &b, mp)), ("Option<f64>", wrapper::vcorr_opt(&a, &b, mp))];
            for (tname, got) in runs {
                ctx.eval(name, outcome_hash(&got));
                if let Some((exp, g)) = judge(&got, &model, Cmp::Tol) {
                    ctx.violation(Violation {
                        entry: "vcorr (wrapper, Pearson)".into(),
                        finding: None,
                        size: len * 100,
                        case: json!({"family": name, "word": word, "first": json_word(&a), "second_or_mask": json_word(&b), "min_periods": mp_json(mp), "elem": tname}),
                        expected: exp,
                        got: g,
                    });
                }
            }
        }
    }
}
mod wrapper {
    use mc_checks::*;
    use tevec::agg::CorrMethod;
    use tevec::prelude::*;
    pub fn vcorr_f64(a: &[X], b: &[X], mp: Option<usize>) -> Outcome<Vec<Cell>> {
        let (va, vb): (Vec<f64>, Vec<f64>) = (enc_vec(a), enc_vec(b));
        catch(|| vec![Cell::f(va.vcorr(&vb, mp, CorrMethod::Pearson))])
    }
    pub fn vcorr_opt(a: &[X], b: &[X], mp: Option<usize>) -> Outcome<Vec<Cell>> {
        let (va, vb): (Vec<Option<f64>>, Vec<Option<f64>>) = (enc_vec(a), enc_vec(b));
        catch(|| vec![va.vcorr(&vb, mp, CorrMethod::Pearson).dec()])
    }
}
impl TreeSys for Pairs {
    type Memo = ();
    fn k(&self) -> usize {
        self.alpha.len() * self.alpha.len()
    }
    fn max_len(&self) -> usize {
        self.max_len
    }
    fn visit(&self, w: &[u8], _p: Option<&()>, ctx: &mut Ctx) {
        self.check_word(w, ctx)
    }
}

struct Bools {
    max_len: usize,
}
impl Bools {
    fn check_word(&self, word: &[u8], ctx: &mut Ctx) {
        let alpha: Vec<X> = vec![None, Some(1.0), Some(0.0)];
        let x = decode(word, &alpha);
        let name = "bools";
        ctx.fam(name).states += 1;
        ctx.nontrivial(name, hash_bytes(word));
        let v: Vec<bool> = x.iter().flatten().map(|b| *b != 0.0).collect();
        let any = v.iter().any(|b| *b);
        let all = v.iter().all(|b| *b);
        for (nm, opt, want) in [
            ("vany", true, any),
            ("vall", true, all),
            ("vany(owned)", true, any),
            ("vall(owned)", true, all),
            ("vany", false, any),
            ("vall", false, all),
            ("any", false, any),
            ("all", false, all),
        ] {
            if let Some(got) = run_agg_bool(nm, &x, opt) {
                ctx.eval(name, outcome_hash(&got));
                let ok = matches!(&got, Outcome::Ok(c) if c == &vec![Cell::B(want)]);
                if !ok {
                    ctx.violation(Violation {
                        entry: nm.into(),
                        finding: None,
                        size: x.len() * 100,
                        case: json!({"family": name, "word": word, "series": json_word(&x), "optional_elements": opt}),
                        expected: format!("{want}"),
                        got: show_outcome(&got),
                    });
                }
            }
        }
    }
}
impl TreeSys for Bools {
    type Memo = ();
    fn k(&self) -> usize {
        3
    }
    fn max_len(&self) -> usize {
        self.max_len
    }
    fn visit(&self, w: &[u8], _p: Option<&()>, ctx: &mut Ctx) {
        self.check_word(w, ctx)
    }
}

/// aggregations of long structured series (DESIGN 5.14): 17 .. 4100 elements, so that an accumulation that
/// is unrolled or processed in blocks is driven through its block boundaries
/// constant series of a value that is not a dyadic rational (seed round 10): the one-pass variance cancels to a
/// rounding residue of either sign. The sample variance is a sum of squares: never negative, and zero up to
/// rounding at the value's magnitude; the standard deviation of two or more observations is not a null.
fn check_constant(ctx: &mut Ctx) {
    let fam = "numeric-constant";
    for v in [0.1f64, 3.3, 99.99, 100.1, -100.1, 1000.1, 1234.567, 100000.1, 1000000.7] {
        for n in 2usize..=12 {
            for gaps in [false, true] {
                let mut x: Vec<X> = vec![];
                for i in 0..n {
                    x.push(Some(v));
                    if gaps && i % 2 == 0 {
                        x.push(None);
                    }
                }
                ctx.states += 1;
                ctx.fam(fam).states += 1;
                ctx.nontrivial(fam, hash_bytes(format!("{v}{n}{gaps}").as_bytes()));
                let tol = 1e-9 * v * v;
                for (tname, run) in [("f64", run_agg_valid::<f64> as RunV), ("Option<f64>", run_agg_valid::<Option<f64>>)] {
                    for src in [Source::Owned, Source::TIter, Source::OptView, Source::Filtered] {
                        for mp in [0usize, 2, n] {
                            for op in [AggOp::VMeanVar(mp), AggOp::VVar(mp), AggOp::VStd(mp)] {
                                let got = match run(op, &x, &[], src) {
                                    Some(g) => g,
                                    None => continue,
                                };
                                ctx.transitions += 1;
                                ctx.eval(fam, outcome_hash(&got));
                                let spread = match &got {
                                    Outcome::Ok(c) => c.last().and_then(|c| c.num()),
                                    _ => None,
                                };
                                let bound = if matches!(op, AggOp::VStd(_)) { tol.sqrt() } else { tol };
                                let ok = matches!(spread, Some(s) if s >= 0.0 && s <= bound);
                                if !ok {
                                    ctx.violation(Violation {
                                        entry: format!("{} (constant series)", op.name()),
                                        finding: None,
                                        size: n,
                                        case: json!({"family": fam, "value": v, "n": n, "nulls_between": gaps, "elem": tname, "source": format!("{src:?}"), "min_periods": mp}),
                                        expected: format!("a spread in [0, {bound:e}]: not negative, not null"),
                                        got: show_outcome(&got),
                                    });
                                } else {
                                    ctx.traces += 1;
                                }
                            }
                        }
                    }
                }
            }
        }
    }
}

fn aggs_long(thorough: bool, threads: usize) -> Ctx {
    use AggOp::*;
    let lens: Vec<usize> = if thorough { vec![17, 64, 257, 1030, 4100] } else { vec![17, 257, 1030] };
    let mut items: Vec<(String, Vec<X>)> = vec![];
    for len in lens {
        items.extend(rollcheck::structured_shapes(len, true).into_iter().enumerate().filter(|(i, _)| len < 1000 || i % 3 == 0).map(|(_, s)| s));
    }
    par_items(&items, threads, |(label, x), ctx| {
        let fam = "numeric-long";
        let len = x.len();
        ctx.states += 1;
        ctx.transitions += 1;
        ctx.fam(fam).states += 1;
        ctx.nontrivial(fam, hash_bytes(format!("{label}{len}").as_bytes()));
        let ops = [CountValid, CountNone, VFirst, VLast, VSum, VMean, VMax, VMin, VArgmax, VArgmin, VMeanVar(0), VVar(2), VStd(len), VSkew(0), VKurt(3)];
        for op in ops {
            let model = agg_model(op, x, &[]);
            for (tname, run) in [("f64", run_agg_valid::<f64> as RunV), ("Option<f64>", run_agg_valid::<Option<f64>>)] {
                for src in [Source::Owned, Source::TIter] {
                    let got = match run(op, x, &[], src) {
                        None => continue,
                        Some(g) => g,
                    };
                    ctx.eval(fam, outcome_hash(&got));
                    if let Some((exp, g)) = judge(&got, &model, cmp_of(op)) {
                        ctx.violation(Violation {
                            entry: op.name().into(),
                            finding: None,
                            size: 200_000 + len,
                            case: json!({"family": fam, "shape": label, "len": len, "op": format!("{op:?}"), "elem": tname, "source": format!("{src:?}")}),
                            expected: exp,
                            got: g,
                        });
                    } else {
                        ctx.traces += 1;
                    }
                }
            }
        }
    })
}

fn main() {
    let run = Run::from_args("C11");
    let num = Numeric {
        name: "numeric".into(),
        alpha: if run.quick() { alphabet5(run.seed) } else { alphabet6() },
        max_len: run.pick(6, 7),
        tys: vec![
            ("f64", run_agg_valid::<f64> as RunV),
            ("Option<f64>", run_agg_valid::<Option<f64>>),
            ("i32", run_agg_valid::<i32>),
            ("Option<i32>", run_agg_valid::<Option<i32>>),
            ("f32", run_agg_valid::<f32>),
        ],
        ptys: vec![("f64", run_agg_plain::<f64> as RunP), ("i32", run_agg_plain::<i32>), ("i64", run_agg_plain::<i64>)],
        order_only: false,
        no_elem_sums: false,
    };
    let nan = Numeric {
        name: "numeric-nan-kinds".into(),
        alpha: vec![None, Some(-1.0), Some(0.0), Some(2.0)],
        max_len: run.pick(5, 6),
        tys: vec![("f64", run_agg_valid::<f64> as RunV), ("f32", run_agg_valid::<f32>)],
        ptys: vec![],
        order_only: false,
        no_elem_sums: false,
    };
    // infinities are ordinary observations for counts, positions and extrema: a series may consist of nothing else
    let inf = Numeric {
        name: "numeric-inf".into(),
        alpha: vec![None, Some(f64::NEG_INFINITY), Some(0.0), Some(1.0), Some(f64::INFINITY)],
        max_len: run.pick(5, 6),
        tys: vec![("f64", run_agg_valid::<f64> as RunV), ("Option<f64>", run_agg_valid::<Option<f64>>), ("f32", run_agg_valid::<f32>)],
        ptys: vec![("f64", run_agg_plain::<f64> as RunP), ("f32", run_agg_plain::<f32>)],
        order_only: true,
        no_elem_sums: false,
    };
    // narrow element types with values whose squares / sums leave the element type's exact range
    // (50001^2 > i32::MAX and is not an f32): everything must be accumulated in f64
    let wide = Numeric {
        name: "numeric-wide".into(),
        alpha: vec![None, Some(1.0), Some(3.0), Some(50001.0), Some(-50001.0)],
        max_len: run.pick(4, 5),
        tys: vec![("i32", run_agg_valid::<i32> as RunV), ("Option<i32>", run_agg_valid::<Option<i32>>), ("f32", run_agg_valid::<f32>), ("i64", run_agg_valid::<i64>)],
        ptys: vec![("i32", run_agg_plain::<i32> as RunP), ("i64", run_agg_plain::<i64>)],
        order_only: false,
        no_elem_sums: false,
    };
    // each value fits an i32, their sum does not: a mean / variance is representable all the same
    let wide_sum = Numeric {
        name: "numeric-wide-sum".into(),
        alpha: vec![None, Some(1.0), Some(1_400_000_000.0), Some(-1_400_000_000.0), Some(2_000_000_000.0)],
        max_len: run.pick(4, 5),
        tys: vec![("i32", run_agg_valid::<i32> as RunV), ("Option<i32>", run_agg_valid::<Option<i32>>)],
        ptys: vec![("i32", run_agg_plain::<i32> as RunP)],
        order_only: false,
        no_elem_sums: true,
    };
    let pairs = Pairs { alpha: vec![None, Some(0.0), Some(1.0), Some(3.0)], max_len: run.pick(4, 5), inf: false };
    // the mask is the second component (0 / non-zero / null); the first carries the infinities
    let pairs_inf = Pairs { alpha: vec![None, Some(f64::NEG_INFINITY), Some(0.0), Some(1.0), Some(f64::INFINITY)], max_len: run.pick(3, 4), inf: true };
    let bools = Bools { max_len: run.pick(7, 11) };
    if let Some(path) = &run.replay {
        let stored = load_replay(path).unwrap_or_else(|e| {
            eprintln!("MACHINERY-ERROR: {e}");
            std::process::exit(2)
        });
        let mut ctx = Ctx::new();
        let case = &stored["case"];
        let word = syms_from_json(&case["word"]);
        match case["family"].as_str().unwrap_or("") {
            "pairs" => pairs.check_word(&word, &mut ctx),
            "pairs-inf" => pairs_inf.check_word(&word, &mut ctx),
            "bools" => bools.check_word(&word, &mut ctx),
            "numeric-wide" => wide.check_word(&word, &mut ctx),
            "numeric-inf" => inf.check_word(&word, &mut ctx),
            "numeric-wide-sum" => wide_sum.check_word(&word, &mut ctx),
            "numeric-nan-kinds" => nan.check_word(&word, &mut ctx),
            "numeric-long" => ctx.merge(aggs_long(!run.quick(), 1)),
            "numeric-constant" => check_constant(&mut ctx),
            _ => num.check_word(&word, &mut ctx),
        }
        std::process::exit(finish_replay(&run, &stored, ctx));
    }
    let mut total = explore_tree(&num, run.threads);
    total.merge(explore_tree(&wide, run.threads));
    total.merge(explore_tree(&inf, run.threads));
    total.merge(explore_tree(&wide_sum, run.threads));
    total.merge(explore_tree(&nan, run.threads));
    total.merge(aggs_long(!run.quick(), run.threads));
    {
        let mut c = Ctx::new();
        check_constant(&mut c);
        total.merge(c);
    }
    total.merge(explore_tree(&pairs, run.threads));
    total.merge(explore_tree(&pairs_inf, run.threads));
    total.merge(explore_tree(&bools, run.threads));
    let meta = Meta {
        rule: "history tree of every word over the value alphabet (numeric), over {null,0,1,3}^2 (two-series and masked aggregations), over {null,T,F} (any/all); every aggregation, every min_periods 0..=len+1, element types f64/f32/i32/Option<f64>/Option<i32>, sources owned / borrowed iterator / option view; compared with two-pass textbook definitions on the non-null sub-list, plus the permutation relation agg(word) == agg(sorted word) for the symmetric ones. Non-trivial = word with a non-null element. Also (DESIGN 5.15, 5.16): infinite observations for counts, positions and extrema (numeric-inf); NaN kinds (numeric-nan-kinds); sources of unknown announced length (filtered: hint (0,n); flat-mapped: hint (0,None)); i32 series whose sum leaves the type (numeric-wide-sum, aggregations with an f64 result). Round 8 (DESIGN 5.17): the convenience wrapper vcorr(other, min_periods: Option, Pearson) for omitted min_periods and 0..=len+1. Round 9 (DESIGN 5.18): the masked aggregations n_sum_filter / vmean_filter on words with infinities (numeric-inf); infinities in the two-series statistics (pairs-inf). Round 10 (DESIGN 5.19): numeric-constant - constant series of non-dyadic values (0.1 .. 1000000.7, 2..12 observations, nulls in between, four sources): variance and standard deviation are in [0, rounding at the value's magnitude], never negative, never null.".into(),
        bounds: json!({"numeric": {"alphabet": json_word(&num.alpha), "L": num.max_len}, "pairs": {"alphabet": json_word(&pairs.alpha), "L": pairs.max_len}, "bools": {"L": bools.max_len},
                       "min_periods": "0..=len+1"}),
        assumptions: vec![
            "plain (AggBasic) forms on null-free words only (DESIGN 5.2)".into(),
            "skew/kurt of a constant series: 0 or null (DESIGN 5.6)".into(),
            "vmean_var with a single observation: the mean may be reported or null; the variance must be null".into(),
        ],
        exhaustive: true,
        min_states: 1000,
    };
    std::process::exit(finish(&run, meta, total));
}
