//! reference model: order statistics by sorting (C12).
use crate::X;

#[derive(Clone, Copy, Debug, PartialEq)]
pub enum QMethod {
    Linear,
    Lower,
    Higher,
    MidPoint,
}
pub const QMETHODS: [QMethod; 4] = [QMethod::Linear, QMethod::Lower, QMethod::Higher, QMethod::MidPoint];

pub fn sorted_valid(x: &[X]) -> Vec<f64> {
    let mut v: Vec<f64> = x.iter().filter_map(|a| *a).collect();
    v.sort_by(|a, b| a.partial_cmp(b).unwrap());
    v
}

fn at(v: &[f64], lo: usize, hi: usize, frac: f64, m: QMethod) -> f64 {
    match m {
        QMethod::Lower => v[lo],
        QMethod::Higher => v[hi],
        QMethod::MidPoint => (v[lo] + v[hi]) / 2.0,
        QMethod::Linear => v[lo] + (v[hi] - v[lo]) * frac,
    }
}

/// acceptable values of the q-quantile (None = null, only when there is no valid element).
/// When (n-1)q is within 1e-9 of an integer both neighbouring readings are accepted (DESIGN 5.5).
pub fn quantile(x: &[X], q: f64, m: QMethod) -> Option<Vec<f64>> {
    let v = sorted_valid(x);
    let n = v.len();
    if n == 0 {
        return None;
    }
    let h = (n - 1) as f64 * q;
    let r = h.round();
    let mut out = vec![];
    if (h - r).abs() < 1e-9 {
        let r = r as usize;
        out.push(v[r]);
        if m != QMethod::Linear {
            if r >= 1 {
                out.push(at(&v, r - 1, r, 1.0, m));
            }
            if r + 1 < n {
                out.push(at(&v, r, r + 1, 0.0, m));
            }
        }
    } else {
        let (lo, hi) = (h.floor() as usize, h.ceil() as usize);
        out.push(at(&v, lo, hi, h - lo as f64, m));
    }
    Some(out)
}

#[derive(Clone, Copy, Debug, PartialEq)]
pub enum PMethod {
    Rank,
    Weak,
    Strict,
}

/// percentile of score; None = null (null score or no valid element)
pub fn percentile_of(x: &[X], score: X, m: PMethod) -> Option<f64> {
    let s = score?;
    let v = sorted_valid(x);
    let n = v.len();
    if n == 0 {
        return None;
    }
    let less = v.iter().filter(|a| **a < s).count() as f64;
    let eq = v.iter().filter(|a| **a == s).count() as f64;
    Some(match m {
        PMethod::Rank => (less + if eq > 0.0 { (eq + 1.0) / 2.0 } else { 0.0 }) / n as f64,
        PMethod::Weak => (less + eq) / n as f64,
        PMethod::Strict => less / n as f64,
    })
}

/// average ranks of the non-null elements (ascending, or descending if rev; fraction of the valid
/// count if pct); null elements get null
pub fn rank(x: &[X], pct: bool, rev: bool) -> Vec<X> {
    let v: Vec<f64> = x.iter().filter_map(|a| *a).collect();
    let n = v.len() as f64;
    x.iter()
        .map(|a| {
            a.map(|c| {
                let less = v.iter().filter(|b| **b < c).count() as f64;
                let eq = v.iter().filter(|b| **b == c).count() as f64;
                let asc = less + (eq + 1.0) / 2.0;
                let r = if rev { n + 1.0 - asc } else { asc };
                if pct {
                    r / n
                } else {
                    r
                }
            })
        })
        .collect()
}

/// the k+1 smallest (largest if rev) non-null elements in order, padded with null
pub fn partition_sorted(x: &[X], k: usize, rev: bool) -> Vec<X> {
    let mut v = sorted_valid(x);
    if rev {
        v.reverse();
    }
    let mut out: Vec<X> = v.into_iter().take(k + 1).map(Some).collect();
    while out.len() < k + 1 {
        out.push(None);
    }
    out
}

pub fn same_multiset(a: &[X], b: &[X]) -> bool {
    let key = |v: &X| v.map_or(u64::MAX, |f| (f + 0.0).to_bits());
    let mut ka: Vec<u64> = a.iter().map(key).collect();
    let mut kb: Vec<u64> = b.iter().map(key).collect();
    ka.sort();
    kb.sort();
    ka == kb
}

#[cfg(test)]
mod tests {
    use super::*;
    fn s(v: &[f64]) -> Vec<X> {
        v.iter().map(|x| if x.is_nan() { None } else { Some(*x) }).collect()
    }
    #[test]
    fn golden() {
        // repository test: 1..=10
        let a = s(&[1., 2., 3., 4., 5., 6., 7., 8., 9., 10.]);
        assert_eq!(quantile(&a, 0.5, QMethod::Linear).unwrap(), vec![5.5]);
        assert_eq!(quantile(&a, 0.25, QMethod::Lower).unwrap(), vec![3.0]);
        assert_eq!(quantile(&a, 0.75, QMethod::Higher).unwrap(), vec![8.0]);
        assert!((quantile(&a, 0.22, QMethod::Linear).unwrap()[0] - 2.98).abs() < 1e-12);
        // numpy.percentile([1,2,3,4], 50, method='midpoint') = 2.5
        assert_eq!(quantile(&s(&[1., 2., 3., 4.]), 0.5, QMethod::MidPoint).unwrap(), vec![2.5]);
        // scipy.stats.percentileofscore([1,2,3,3,4], 3) = 70 ; strict 40 ; weak 80
        let b = s(&[1., 2., 3., 3., 4.]);
        assert_eq!(percentile_of(&b, Some(3.), PMethod::Rank), Some(0.7));
        assert_eq!(percentile_of(&b, Some(3.), PMethod::Strict), Some(0.4));
        assert_eq!(percentile_of(&b, Some(3.), PMethod::Weak), Some(0.8));
        // repository test_rank
        assert_eq!(rank(&s(&[2., 1., f64::NAN, 3., 1.]), false, false), vec![Some(3.), Some(1.5), None, Some(4.), Some(1.5)]);
        assert_eq!(partition_sorted(&s(&[3., f64::NAN, 1.]), 2, false), vec![Some(1.), Some(3.), None]);
    }
}
