//! C20 — composite analytics terminate within range and respect their defining relations.
use mc_checks::*;
use mc_ref::order::{quantile, rank, QMethod};
use mc_ref::stats;
use std::sync::atomic::{AtomicBool, Ordering as AO};
use std::sync::{Arc, Mutex};

mod imp {
    use mc_adapt::maps::drain;
    use mc_checks::*;
    use tevec::agg::CorrMethod;
    use tevec::map::WinsorizeMethod;
    use tevec::prelude::*;

    pub fn half_life_f64(x: &[X], mp: Option<usize>) -> Outcome<usize> {
        let v: Vec<f64> = enc_vec(x);
        catch(|| v.half_life(mp))
    }
    pub fn half_life_opt(x: &[X], mp: Option<usize>) -> Outcome<usize> {
        let v: Vec<Option<f64>> = enc_vec(x);
        catch(|| v.half_life(mp))
    }
    pub fn winsorize<T>(x: &[X], method: u8, p: Option<f64>) -> Option<Outcome<Result<Vec<Cell>, ()>>>
    where
        T: Elem + IsNone + Cast<f64>,
        T::Inner: Number,
    {
        if !encodable::<T>(x) {
            return None;
        }
        let v: Vec<T> = enc_vec(x);
        let m = match method {
            0 => WinsorizeMethod::Quantile,
            1 => WinsorizeMethod::Median,
            _ => WinsorizeMethod::Sigma,
        };
        Some(catch(|| match v.winsorize(m, p) {
            Ok(it) => {
                let d = drain(it, |f: &f64| Cell::f(*f));
                if d.capped {
                    Err(())
                } else {
                    Ok(d.cells)
                }
            }
            Err(_) => Err(()),
        }))
    }
    pub fn spearman(a: &[f64], b: &[X], mp: Option<usize>) -> Outcome<Cell> {
        let va: Vec<f64> = a.to_vec();
        let vb: Vec<f64> = enc_vec(b);
        catch(|| Cell::f(va.vcorr(&vb, mp, CorrMethod::Spearman)))
    }
    pub fn spearman_x(a: &[X], b: &[X], mp: Option<usize>) -> Outcome<Cell> {
        let va: Vec<f64> = enc_vec(a);
        let vb: Vec<f64> = enc_vec(b);
        catch(|| Cell::f(va.vcorr(&vb, mp, CorrMethod::Spearman)))
    }
    /// Spearman on integer series given as base + offset (integers f64 cannot tell apart)
    pub fn spearman_i64(a: &[Option<i64>], b: &[Option<i64>], mp: Option<usize>, optional: bool) -> Outcome<Cell> {
        if optional {
            let (va, vb) = (a.to_vec(), b.to_vec());
            catch(|| va.vcorr(&vb, mp, CorrMethod::Spearman).dec())
        } else {
            let va: Vec<i64> = a.iter().map(|v| v.unwrap()).collect();
            let vb: Vec<i64> = b.iter().map(|v| v.unwrap()).collect();
            catch(|| Cell::f(va.vcorr(&vb, mp, CorrMethod::Spearman)))
        }
    }
    pub fn pearson_x(a: &[X], b: &[X], mp: Option<usize>) -> Outcome<Cell> {
        let va: Vec<f64> = enc_vec(a);
        let vb: Vec<f64> = enc_vec(b);
        catch(|| Cell::f(va.vcorr(&vb, mp, CorrMethod::Pearson)))
    }
}
use imp::*;

fn viol(ctx: &mut Ctx, entry: &str, finding: Option<&str>, case: Value, expected: String, got: String) {
    ctx.violation(Violation { entry: entry.into(), finding: finding.map(|s| s.into()), size: case.to_string().len(), case, expected, got });
}

/// lag-n autocorrelation by the model: Pearson on the pairs (x[i], x[i-n]), null below max(mp, 2) pairs
fn acf(x: &[X], n: usize, mp: usize) -> Option<f64> {
    if n >= x.len() {
        return None;
    }
    let a: Vec<X> = x[n..].to_vec();
    let b: Vec<X> = x[..x.len() - n].to_vec();
    let (pa, pb) = mc_ref::roll::pairs(&a, &b);
    if pa.len() < mp.max(2) {
        return None;
    }
    stats::corr(&pa, &pb)
}

/// If the lag profile is "above 0.5 exactly for lags < L" (and clear of the threshold), Some(expected)
fn half_life_model(x: &[X], mp: usize) -> Option<usize> {
    let len = x.len();
    if len < 2 {
        return Some(0);
    }
    let prof: Vec<Option<f64>> = (1..len).map(|n| acf(x, n, mp)).collect();
    if prof.iter().flatten().any(|c| (c - 0.5).abs() < 1e-6) {
        return None; // too close to the threshold to call
    }
    let above = |c: &Option<f64>| matches!(c, Some(v) if *v > 0.5);
    let l = prof.iter().position(|c| !above(c)).map(|p| p + 1).unwrap_or(len);
    // strict threshold profile: never above again after the first lag that is not
    if prof.iter().skip(l.saturating_sub(1)).any(above) {
        return None;
    }
    Some(l.min(len - 1))
}

struct Watch {
    current: Mutex<String>,
    done: AtomicBool,
}

fn check_half_life(x: &[X], mp: usize, fam: &str, ctx: &mut Ctx, watch: &Watch, opt_elem: bool) {
    *watch.current.lock().unwrap() = format!("{} mp={mp}", show_word(x));
    let len = x.len();
    let got = if opt_elem { half_life_opt(x, Some(mp)) } else { half_life_f64(x, Some(mp)) };
    ctx.eval(fam, match &got { Outcome::Ok(v) => *v as u64, _ => 9999 });
    let want = half_life_model(x, mp);
    let in_range = |v: usize| if len < 2 { v == 0 } else { v >= 1 && v < len };
    let ok = match (&got, want) {
        (Outcome::Ok(v), Some(w)) => *v == w && in_range(*v),
        (Outcome::Ok(v), None) => in_range(*v),
        _ => false,
    };
    if !ok {
        // F28: the bisection assigns (last_n, n) = (life, last_n) and the bracket inverts
        let f28 = matches!(&got, Outcome::Panic(m) if m.contains("subtract with overflow"));
        // F34: a null (too few pairs) correlation inside the bisection is treated as an exact hit and ends the search early
        let f34 = matches!((&got, want), (Outcome::Ok(v), Some(w)) if *v > w && *v < len && acf(x, *v, mp).is_none());
        viol(ctx, "half_life", if f28 { Some("F28") } else if f34 { Some("F34") } else { None }, json!({"family": fam, "series": json_word(x), "min_periods": mp, "optional_elements": opt_elem}),
            match want { Some(w) => format!("{w} (first lag whose autocorrelation is not above 0.5, capped at len-1)"), None => "no panic, a lag in 1..=len-1".into() }, format!("{got:?}"));
    } else {
        ctx.traces += 1;
    }
}

fn half_life_all(run: &Run, ctx: &mut Ctx, watch: &Watch) {
    // (1) ramp family: realises every pair (len, L)
    let fam = "half_life/ramps";
    for len in 1..=run.pick(48, 96) {
        let x: Vec<X> = (0..len).map(|i| Some(i as f64)).collect();
        for mp in 1..=len {
            ctx.states += 1;
            ctx.transitions += 1;
            ctx.fam(fam).states += 1;
            ctx.nontrivial(fam, (len * 1000 + mp) as u64);
            check_half_life(&x, mp, fam, ctx, watch, false);
        }
    }
    // (2) block-constant and alternating profiles
    let fam = "half_life/profiles";
    for len in 2..=run.pick(24, 56) {
        for block in 1..=len {
            for kind in 0..3 {
                let x: Vec<X> = (0..len)
                    .map(|i| match kind {
                        0 => Some(((i / block) % 2) as f64),          // square wave
                        1 => Some((i / block) as f64),                // staircase
                        _ => Some(if i % 2 == 0 { 1.0 } else { -1.0 } * (1 + i / block) as f64), // alternating
                    })
                    .collect();
                for mp in [1, 2, len / 2, len] {
                    ctx.states += 1;
                    ctx.transitions += 1;
                    ctx.fam(fam).states += 1;
                    ctx.nontrivial(fam, hash_bytes(format!("{kind}{len}/{block}/{mp}").as_bytes()));
                    check_half_life(&x, mp.max(1), fam, ctx, watch, false);
                }
            }
        }
    }
}

/// (2b) AR(1)-type paths x_t = phi * x_{t-1} + e_t with every persistence on a grid and three fixed
/// (deterministic) innovation patterns: totality / range always, value when the profile is a strict
/// threshold profile
fn half_life_ar1(run: &Run, ctx: &mut Ctx, watch: &Watch) {
    let fam = "half_life/ar1";
    let mut lcg: u64 = 0x2545F4914F6CDD1D;
    let noise: Vec<f64> = (0..128)
        .map(|_| {
            lcg = lcg.wrapping_mul(6364136223846793005).wrapping_add(1442695040888963407);
            ((lcg >> 33) % 2001) as f64 / 1000.0 - 1.0
        })
        .collect();
    for len in [8usize, 12, 16, 24, 32, 48, 64].into_iter().filter(|l| *l <= run.pick(32, 64)) {
        for phi_i in 0..=20 {
            let phi = if phi_i == 20 { 0.99 } else { phi_i as f64 / 20.0 };
            for pat in 0..3 {
                let mut x = Vec::with_capacity(len);
                let mut prev = 0.0;
                for t in 0..len {
                    let e = match pat {
                        0 => if t % 2 == 0 { 1.0 } else { -1.0 },
                        1 => if (t / 2) % 2 == 0 { 1.0 } else { -1.0 },
                        _ => noise[t],
                    };
                    prev = phi * prev + e;
                    x.push(Some(prev));
                }
                for mp in [1, 2, len / 4, len / 2] {
                    ctx.states += 1;
                    ctx.transitions += 1;
                    ctx.fam(fam).states += 1;
                    ctx.nontrivial(fam, hash_bytes(format!("{len}/{phi_i}/{pat}/{mp}").as_bytes()));
                    check_half_life(&x, mp.max(1), fam, ctx, watch, false);
                }
            }
        }
    }
}

fn winsor_model(x: &[X], method: u8, p: f64) -> Option<(f64, f64)> {
    let v: Vec<f64> = x.iter().flatten().cloned().collect();
    if v.is_empty() {
        return None;
    }
    match method {
        0 => Some((quantile(x, p, QMethod::Linear)?[0], quantile(x, 1.0 - p, QMethod::Linear)?[0])),
        1 => {
            let med = quantile(x, 0.5, QMethod::Linear)?[0];
            let dev: Vec<X> = v.iter().map(|a| Some((a - med).abs())).collect();
            let mad = quantile(&dev, 0.5, QMethod::Linear)?[0];
            Some((med - p * mad, med + p * mad))
        }
        _ => {
            let m = stats::mean(&v)?;
            let s = stats::std(&v)?;
            if stats::is_constant(&v) {
                return None;
            }
            Some((m - p * s, m + p * s))
        }
    }
}

fn check_winsor(word: &[u8], alpha: &[X], ctx: &mut Ctx) {
    let x = decode(word, alpha);
    check_winsor_x("winsorize", word, x, ctx)
}

/// narrow integer element types at magnitude: each value fits an i32, their sum (and their squares) do not -
/// every accumulation has to happen in f64
fn narrow_alpha() -> Vec<X> {
    vec![None, Some(1.0), Some(3.0), Some(1_400_000_000.0), Some(-1_400_000_000.0), Some(2_000_000_000.0)]
}
fn winsor_narrow(max_len: usize, ctx: &mut Ctx) {
    let alpha = narrow_alpha();
    for w in all_words_upto(alpha.len(), max_len) {
        ctx.states += 1;
        ctx.transitions += 1;
        check_winsor_x("winsorize-narrow", &w, decode(&w, &alpha), ctx);
    }
}

/// long series for the order-statistic based bounds (17..=64 elements, see C12 `order-long`)
fn winsor_long(thorough: bool, ctx: &mut Ctx) {
    let lens: Vec<usize> = if thorough { vec![17, 18, 24, 33, 64] } else { vec![17, 24] };
    for len in lens {
        let mut shapes = rollcheck::structured_shapes(len, true);
        for k in [7usize, 11] {
            let m = if len % k == 0 { len + 1 } else { len };
            let perm: Vec<X> = (0..len).map(|i| Some(((i * k) % m) as f64)).collect();
            let mut holes = perm.clone();
            for i in (2..len).step_by(5) {
                holes[i] = None;
            }
            shapes.push((format!("perm({k})"), perm));
            shapes.push((format!("perm({k})+nulls"), holes));
        }
        for (_label, x) in shapes {
            ctx.states += 1;
            ctx.transitions += 1;
            check_winsor_x("winsorize-long", &[], x, ctx);
        }
    }
}

fn check_winsor_x(fam: &str, word: &[u8], x: Vec<X>, ctx: &mut Ctx) {
    ctx.fam(fam).states += 1;
    if x.iter().any(|v| v.is_some()) {
        ctx.nontrivial(fam, mix(hash_bytes(word), hash_u64s(&x.iter().map(|v| v.map_or(7, |a| a.to_bits())).collect::<Vec<_>>())));
    }
    type W = fn(&[X], u8, Option<f64>) -> Option<Outcome<Result<Vec<Cell>, ()>>>;
    for (tname, run) in [("f64", winsorize::<f64> as W), ("Option<f64>", winsorize::<Option<f64>> as W), ("i32", winsorize::<i32> as W), ("Option<i32>", winsorize::<Option<i32>> as W), ("i64", winsorize::<i64> as W)] {
        if fam == "winsorize-narrow" && !tname.contains("i32") {
            continue;
        }
        for (method, params) in [(0u8, vec![0.0, 0.01, 0.1, 0.25, 0.5]), (1, vec![0.0, 0.5, 1.0, 3.0]), (2, vec![0.0, 0.5, 1.0, 3.0])] {
            for p in params {
                let got = match run(&x, method, Some(p)) {
                    None => continue,
                    Some(g) => g,
                };
                ctx.eval(fam, hash_bytes(format!("{got:?}").as_bytes()));
                let bounds = winsor_model(&x, method, p);
                let mut why = None;
                match &got {
                    Outcome::Ok(Ok(cells)) => {
                        if cells.len() != x.len() {
                            why = Some(format!("{} outputs for {} inputs", cells.len(), x.len()));
                        } else {
                            for (i, (g, v)) in cells.iter().zip(&x).enumerate() {
                                let ok = match (v, bounds) {
                                    (None, _) => g.is_null(),
                                    (Some(v), None) => g.num() == Some(*v),
                                    (Some(v), Some((lo, hi))) => {
                                        // bounds are interpolated / averaged from the data: their rounding is relative to the data's magnitude
                                        let xmax = x.iter().flatten().fold(0.0f64, |m, a| m.max(a.abs()));
                                        let tol = 1e-9 * (1.0 + lo.abs().max(hi.abs()).max(xmax));
                                        match g.num() {
                                            None => false,
                                            Some(g) => {
                                                if *v < lo - tol {
                                                    (g - lo).abs() <= tol
                                                } else if *v > hi + tol {
                                                    (g - hi).abs() <= tol
                                                } else if *v > lo + tol && *v < hi - tol {
                                                    g == *v // inside the bounds: unchanged, bit for bit
                                                } else {
                                                    (g - *v).abs() <= 2.0 * tol // within rounding of a bound
                                                }
                                            }
                                        }
                                    }
                                };
                                if !ok {
                                    why = Some(format!("position {i}: input {v:?}, bounds {bounds:?}, output {}", g.show()));
                                    break;
                                }
                            }
                            // order preserving
                            if why.is_none() {
                                for i in 0..x.len() {
                                    for j in 0..x.len() {
                                        if let (Some(a), Some(b), Some(ga), Some(gb)) = (x[i], x[j], cells[i].num(), cells[j].num()) {
                                            if a <= b && ga > gb + 1e-9 {
                                                why = Some(format!("not order preserving at ({i},{j})"));
                                            }
                                        }
                                    }
                                }
                            }
                        }
                    }
                    other => why = Some(format!("{other:?}")),
                }
                let mname = ["Quantile", "Median", "Sigma"][method as usize];
                if let Some(w) = why {
                    viol(ctx, "winsorize", None, json!({"family": fam, "word": word, "series": json_word(&x), "elem": tname, "method": mname, "param": p}), format!("clip to {bounds:?}: inside unchanged, outside onto the nearer bound, nulls stay null"), w);
                } else {
                    ctx.traces += 1;
                    if ctx.samples.len() < 2 && x.len() == 5 && method == 1 && p == 1.0 && x.iter().all(|v| v.is_some()) {
                        ctx.sample(json!({"op": "winsorize(Median, 1.0)", "series": json_word(&x), "model_bounds": format!("{bounds:?}"), "observed": format!("{got:?}")}));
                    }
                }
            }
        }
    }
}

fn check_spearman(word: &[u8], alpha: &[X], ctx: &mut Ctx) {
    let k = alpha.len();
    let a: Vec<X> = word.iter().map(|s| alpha[*s as usize / k]).collect();
    let b: Vec<X> = word.iter().map(|s| alpha[*s as usize % k]).collect();
    if a.iter().filter(|v| v.is_none()).count() > 1 || b.iter().filter(|v| v.is_none()).count() > 1 {
        return;
    }
    let fam = "spearman";
    ctx.fam(fam).states += 1;
    ctx.nontrivial(fam, hash_bytes(word));
    let len = a.len();
    for mp in [None, Some(0), Some(2), Some(len)] {
        let mpe = mp.unwrap_or(len / 2);
        let got = spearman_x(&a, &b, mp);
        ctx.eval(fam, match &got { Outcome::Ok(c) => c.hash64(), _ => 5 });
        // model: Pearson of the average ranks (ranks of each series over its own non-null elements)
        let (ra, rb) = (rank(&a, false, false), rank(&b, false, false));
        let (pa, pb) = mc_ref::roll::pairs(&ra, &rb);
        let want = if pa.len() < mpe.max(2) { None } else { stats::corr(&pa, &pb) };
        let ok = matches!(&got, Outcome::Ok(c) if tol_eq(c, &Cell::of(want)));
        if !ok {
            viol(ctx, "vcorr(Spearman)", None, json!({"family": fam, "word": word, "first": json_word(&a), "second": json_word(&b), "min_periods": mp}), format!("{want:?}"), format!("{got:?}"));
            continue;
        }
        ctx.traces += 1;
        // invariance under strictly increasing transformations of the first series
        if a.iter().all(|v| v.is_some()) {
            for (gname, g) in [("2x+1", (|v: f64| 2.0 * v + 1.0) as fn(f64) -> f64), ("x^3", |v: f64| v * v * v), ("exp", |v: f64| v.exp())] {
                let ta: Vec<f64> = a.iter().map(|v| g(v.unwrap())).collect();
                let t = spearman(&ta, &b, mp);
                ctx.evals += 1;
                let same = match (&got, &t) {
                    (Outcome::Ok(x), Outcome::Ok(y)) => tol_eq(x, y),
                    _ => false,
                };
                if !same {
                    viol(ctx, "vcorr(Spearman) invariance", None, json!({"family": fam, "word": word, "first": json_word(&a), "second": json_word(&b), "transform": gname}), format!("{got:?}"), format!("{t:?}"));
                }
            }
        }
        // translation relation on 64-bit integers (a strictly increasing map): the ranks of base + offsets are the
        // ranks of the offsets, also where neighbouring integers are not distinct f64 values
        if a.iter().chain(b.iter()).flatten().all(|v| v.fract() == 0.0) {
            for (bname, base) in [("2^60", 1i64 << 60), ("-2^60", -(1i64 << 60)), ("i64::MAX-4", i64::MAX - 4)] {
                let ia: Vec<Option<i64>> = a.iter().map(|v| v.map(|x| base + x as i64)).collect();
                let ib: Vec<Option<i64>> = b.iter().map(|v| v.map(|x| base + x as i64)).collect();
                let nulls = ia.iter().chain(ib.iter()).any(|v| v.is_none());
                for optional in [true, false] {
                    if nulls && !optional {
                        continue;
                    }
                    let t = spearman_i64(&ia, &ib, mp, optional);
                    ctx.evals += 1;
                    if !matches!((&got, &t), (Outcome::Ok(x), Outcome::Ok(y)) if tol_eq(x, y)) {
                        viol(ctx, "vcorr(Spearman) translation (i64)", None, json!({"family": fam, "word": word, "first": json_word(&a), "second": json_word(&b), "base": bname, "elem": if optional { "Option<i64>" } else { "i64" }, "min_periods": mp}), format!("{got:?}"), format!("{t:?}"));
                    }
                }
            }
        }
        // Pearson method equals the plain aggregation
        let p = pearson_x(&a, &b, mp);
        let (qa, qb) = mc_ref::roll::pairs(&a, &b);
        let wantp = if qa.len() < mpe.max(2) { None } else { stats::corr(&qa, &qb) };
        if !matches!(&p, Outcome::Ok(c) if tol_eq(c, &Cell::of(wantp))) {
            viol(ctx, "vcorr(Pearson)", None, json!({"family": fam, "word": word, "first": json_word(&a), "second": json_word(&b), "min_periods": mp}), format!("{wantp:?}"), format!("{p:?}"));
        }
    }
}

struct Words {
    alpha: Vec<X>,
    max_len: usize,
    kind: u8,
    watch: Arc<Watch>,
}
impl TreeSys for Words {
    type Memo = ();
    fn k(&self) -> usize {
        if self.kind == 2 {
            self.alpha.len() * self.alpha.len()
        } else {
            self.alpha.len()
        }
    }
    fn max_len(&self) -> usize {
        self.max_len
    }
    fn name(&self) -> String {
        ["half_life/words", "winsorize", "spearman"][self.kind as usize].to_string()
    }
    fn visit(&self, w: &[u8], _p: Option<&()>, ctx: &mut Ctx) {
        match self.kind {
            0 => {
                // half_life totality and range on every word, every min_periods
                let x = decode(w, &self.alpha);
                let fam = "half_life/words";
                ctx.fam(fam).states += 1;
                ctx.nontrivial(fam, hash_bytes(w));
                for mp in 1..=x.len().max(1) {
                    check_half_life(&x, mp, fam, ctx, &self.watch, false);
                    check_half_life(&x, mp, fam, ctx, &self.watch, true);
                }
            }
            1 => check_winsor(w, &self.alpha, ctx),
            _ => check_spearman(w, &self.alpha, ctx),
        }
    }
}

fn main() {
    let run = Run::from_args("C20");
    let watch = Arc::new(Watch { current: Mutex::new(String::new()), done: AtomicBool::new(false) });
    // watchdog for "always terminates": no single family may stall
    {
        let w = watch.clone();
        let limit = run.pick(240, 1500);
        let prop = run.property;
        std::thread::spawn(move || {
            let start = std::time::Instant::now();
            let mut last = String::new();
            let mut same_for = 0;
            loop {
                std::thread::sleep(std::time::Duration::from_secs(5));
                if w.done.load(AO::SeqCst) {
                    return;
                }
                let cur = w.current.lock().unwrap().clone();
                if cur == last && !cur.is_empty() {
                    same_for += 5;
                } else {
                    same_for = 0;
                    last = cur.clone();
                }
                if same_for >= 60 || start.elapsed().as_secs() > limit {
                    let path = format!("{}/replays/{prop}/nontermination.json", verif_root());
                    let _ = std::fs::create_dir_all(format!("{}/replays/{prop}", verif_root()));
                    let _ = std::fs::write(&path, json!({"property": prop, "entry": "half_life", "case": {"family": "half_life/words", "stalled_on": cur}}).to_string());
                    println!("VIOLATION property={prop} replay={path}");
                    println!("  half_life did not return within the horizon on {cur}");
                    std::process::exit(1);
                }
            }
        });
    }
    let hl = Words { alpha: vec![None, Some(-1.0), Some(0.0), Some(1.0), Some(2.0)], max_len: run.pick(6, 8), kind: 0, watch: watch.clone() };
    let wz = Words { alpha: if run.quick() { alphabet5(run.seed) } else { alphabet6() }, max_len: run.pick(5, 7), kind: 1, watch: watch.clone() };
    let sp = Words { alpha: vec![None, Some(0.0), Some(1.0), Some(2.0), Some(3.0)], max_len: run.pick(4, 5), kind: 2, watch: watch.clone() };
    if let Some(path) = &run.replay {
        let stored = load_replay(path).unwrap_or_else(|e| {
            eprintln!("MACHINERY-ERROR: {e}");
            std::process::exit(2)
        });
        let mut ctx = Ctx::new();
        let case = &stored["case"];
        let word = syms_from_json(&case["word"]);
        match case["family"].as_str().unwrap_or("") {
            "winsorize" => check_winsor(&word, &wz.alpha, &mut ctx),
            "winsorize-narrow" => check_winsor_x("winsorize-narrow", &word, decode(&word, &narrow_alpha()), &mut ctx),
            "winsorize-long" => check_winsor_x("winsorize-long", &[], word_from_json(&case["series"]), &mut ctx),
            "spearman" => check_spearman(&word, &sp.alpha, &mut ctx),
            _ => {
                let x = word_from_json(&case["series"]);
                let mp = case["min_periods"].as_u64().unwrap_or(1) as usize;
                check_half_life(&x, mp, "half_life/replay", &mut ctx, &watch, case["optional_elements"].as_bool().unwrap_or(false));
            }
        }
        watch.done.store(true, AO::SeqCst);
        std::process::exit(finish_replay(&run, &stored, ctx));
    }
    let mut total = Ctx::new();
    half_life_all(&run, &mut total, &watch);
    half_life_ar1(&run, &mut total, &watch);
    total.merge(explore_tree(&hl, run.threads));
    total.merge(explore_tree(&wz, run.threads));
    total.merge(explore_tree(&sp, run.threads));
    winsor_long(!run.quick(), &mut total);
    winsor_narrow(run.pick(4, 5), &mut total);
    watch.done.store(true, AO::SeqCst);
    total.sample(json!({"op": "half_life", "series": "ramp 0..40", "min_periods": 1, "model": 39}));
    let meta = Meta {
        rule: "half_life: the ramp family (len 1..=N, every min_periods: realises every (len, L) pair hence every path of the doubling search and of the bisection), square-wave / staircase / alternating profiles, AR(1)-type paths with every persistence 0, 0.05, .., 0.95, 0.99 under three fixed innovation patterns, and every word over {null,-1,0,1,2} up to length L with every min_periods (f64 and Option<f64>): no panic, returns (watchdog), result in 1..=len-1 (0 iff len < 2), and when the model's lag profile is a strict threshold profile the result is the first lag not above 0.5 capped at len-1. winsorize: every word of the value alphabet, and long structured series of 17..=64 elements (ramps, saws, plateaus, modular permutations, null patterns), x 3 methods x parameter grids: one output per input, nulls stay null, inside values bit-identical, outside values on the nearer model bound, order preserving. vcorr(Spearman): every pair word over {null,0,1,2,3}^2 with <= 1 null each: equals Pearson of average ranks; invariant under 2x+1, x^3, exp. Non-trivial = distinct words / (len, min_periods) points. Also winsorize on i32 / Option<i32> values whose sum leaves the type (winsorize-narrow; tolerance of the bounds relative to the data's magnitude; DESIGN 5.16). Round 8 (DESIGN 5.17): Spearman translation relation on i64 / Option<i64> series around +-2^60 and i64::MAX.".into(),
        bounds: json!({"ramp_len": run.pick(48, 96), "profile_len": run.pick(24, 56), "half_life_words_L": hl.max_len, "winsorize": {"alphabet": json_word(&wz.alpha), "L": wz.max_len, "q": [0, 0.01, 0.1, 0.25, 0.5], "k": [0, 0.5, 1, 3]}, "spearman_L": sp.max_len}),
        assumptions: vec!["profiles within 1e-6 of the 0.5 threshold are judged for totality and range only".into(), "finite exact inputs (DESIGN 5.2)".into()],
        exhaustive: true,
        min_states: 1000,
    };
    std::process::exit(finish(&run, meta, total));
}
