//! Input back-end configurations (DESIGN C02/C07): the same logical word realised as every container.
use crate::elem::*;
use ndarray::{s, Array1};
use polars::prelude::*;
use std::collections::VecDeque;
use std::sync::Arc;
use tevec::prelude::{IsNone, Vec1View};

/// A generic visitor: called once per back-end configuration with the concrete container.
pub trait BackendVisitor<T> {
    fn visit<V: Vec1View<T> + SliceRead<T>>(&mut self, name: &str, v: &V);
}

/// Reading the items of a back end's slice type by the slice type's own std/ndarray/polars iteration
/// (implemented per container because the slice type is a GAT).
pub trait SliceRead<T>: Vec1View<T> {
    fn read_slice<'a>(s: &Self::SliceOutput<'a>) -> Vec<T>
    where
        Self: 'a,
        T: 'a;
}
impl<T: Clone> SliceRead<T> for Vec<T> {
    fn read_slice<'a>(s: &&'a [T]) -> Vec<T>
    where
        T: 'a,
    {
        s.to_vec()
    }
}
impl<T: Clone, const N: usize> SliceRead<T> for [T; N] {
    fn read_slice<'a>(s: &&'a [T]) -> Vec<T>
    where
        T: 'a,
    {
        s.to_vec()
    }
}
impl<T: Clone> SliceRead<T> for VecDeque<T> {
    fn read_slice<'a>(s: &std::collections::vec_deque::Iter<'a, T>) -> Vec<T>
    where
        T: 'a,
    {
        s.clone().cloned().collect()
    }
}
impl<T: Clone> SliceRead<T> for Array1<T> {
    fn read_slice<'a>(s: &ndarray::ArrayView1<'a, T>) -> Vec<T>
    where
        T: 'a,
    {
        s.iter().cloned().collect()
    }
}
impl<'t, T: Clone> SliceRead<T> for ndarray::ArrayView1<'t, T> {
    fn read_slice<'a>(s: &ndarray::ArrayView1<'a, T>) -> Vec<T>
    where
        Self: 'a,
        T: 'a,
    {
        s.iter().cloned().collect()
    }
}
impl<'t, T: Clone> SliceRead<T> for ndarray::ArrayViewMut1<'t, T> {
    fn read_slice<'a>(s: &ndarray::ArrayView1<'a, T>) -> Vec<T>
    where
        Self: 'a,
        T: 'a,
    {
        s.iter().cloned().collect()
    }
}
impl<V: SliceRead<T>, T> SliceRead<T> for Arc<V> {
    fn read_slice<'a>(s: &V::SliceOutput<'a>) -> Vec<T>
    where
        Self: 'a,
        T: 'a,
    {
        V::read_slice(s)
    }
}
impl<'o, V: Vec1View<T>, T: IsNone + 'o> SliceRead<Option<T::Inner>> for tevec::prelude::OptIter<'o, V, T>
where
    for<'b> V::SliceOutput<'b>: tevec::prelude::TIter<T>,
{
    fn read_slice<'a>(s: &Vec<Option<T::Inner>>) -> Vec<Option<T::Inner>>
    where
        Self: 'a,
        Option<T::Inner>: 'a,
    {
        s.clone()
    }
}
impl SliceRead<Option<f64>> for Float64Chunked {
    fn read_slice<'a>(s: &Float64Chunked) -> Vec<Option<f64>>
    where
        Self: 'a,
    {
        s.into_iter().collect()
    }
}
impl SliceRead<Option<f64>> for &Float64Chunked {
    fn read_slice<'a>(s: &Float64Chunked) -> Vec<Option<f64>>
    where
        Self: 'a,
    {
        s.into_iter().collect()
    }
}

impl<'t> SliceRead<Option<&'t str>> for &'t polars::prelude::StringChunked {
    fn read_slice<'a>(s: &<Self as Vec1View<Option<&'t str>>>::SliceOutput<'a>) -> Vec<Option<&'t str>>
    where
        Self: 'a,
    {
        // the slice owns its buffers: hand the strings out as leaked copies (tiny, harness only)
        s.into_iter().map(|x| x.map(|t| &*Box::leak(t.to_string().into_boxed_str()))).collect()
    }
}
macro_rules! slice_read_ca {
    ($CA:ty, $t:ty) => {
        impl SliceRead<Option<$t>> for &$CA {
            fn read_slice<'a>(s: &<Self as Vec1View<Option<$t>>>::SliceOutput<'a>) -> Vec<Option<$t>>
            where
                Self: 'a,
            {
                s.into_iter().collect()
            }
        }
    };
}
slice_read_ca!(polars::prelude::Int64Chunked, i64);
slice_read_ca!(polars::prelude::Int32Chunked, i32);
slice_read_ca!(polars::prelude::Float32Chunked, f32);
slice_read_ca!(polars::prelude::BooleanChunked, bool);

/// ring buffer of capacity `cap` whose head sits at physical offset `off`
pub fn deque_with_head<T: Clone>(items: &[T], cap: usize, off: usize, filler: T) -> VecDeque<T> {
    let mut d: VecDeque<T> = VecDeque::with_capacity(cap);
    for _ in 0..off {
        d.push_back(filler.clone());
    }
    for _ in 0..off {
        d.pop_front();
    }
    for it in items {
        d.push_back(it.clone());
    }
    d
}

/// base array and a strided view description so that the view reads exactly `items`
pub fn strided_base<T: Clone>(items: &[T], step: isize, filler: T) -> Array1<T> {
    let n = items.len();
    let a = step.unsigned_abs();
    let mut base = vec![filler; n * a + 2];
    for (i, it) in items.iter().enumerate() {
        let logical = if step > 0 { i } else { n - 1 - i };
        base[1 + logical * a] = it.clone();
    }
    Array1::from_vec(base)
}

macro_rules! fixed_arrays {
    ($vis:expr, $items:expr, $($n:literal),*) => {
        match $items.len() {
            $($n => {
                let arr: [T; $n] = std::array::from_fn(|i| $items[i].clone());
                $vis.visit(concat!("[T;", stringify!($n), "]"), &arr);
            })*
            _ => {}
        }
    };
}

/// All element-generic input back ends. `level`: 0 = the five container kinds once each,
/// 1 = every ring offset / stride / fixed array as well.
pub fn for_backends<T: Elem, Vis: BackendVisitor<T>>(word: &[X], level: u8, vis: &mut Vis) {
    let items: Vec<T> = enc_vec(word);
    let n = items.len();
    let filler = items.first().cloned().unwrap_or_else(|| T::enc(Some(0.0)));
    vis.visit("Vec", &items);
    vis.visit("Arc<Vec>", &Arc::new(items.clone()));
    let arr = Array1::from_vec(items.clone());
    vis.visit("Array1", &arr);
    vis.visit("ArrayView1", &arr.view());
    {
        let mut arr2 = arr.clone();
        vis.visit("ArrayViewMut1", &arr2.view_mut());
    }
    vis.visit("Arc<Array1>", &Arc::new(arr.clone()));
    if level >= 1 {
        fixed_arrays!(vis, items, 0, 1, 2, 3, 4, 5, 6, 7);
    }
    let offs: Vec<usize> = if level >= 1 { (0..8).collect() } else { vec![0, 6] };
    for off in offs {
        // capacity 8 for the short words; for longer series the capacity follows the length so that the ring still wraps
        let d = deque_with_head(&items, n.max(8), off, filler.clone());
        let wrapped = !d.as_slices().1.is_empty();
        vis.visit(&format!("VecDeque(head={off}{})", if wrapped { ",wrapped" } else { "" }), &d);
    }
    let steps: Vec<isize> = if level >= 1 { vec![2, 3, -1, -2] } else { vec![2, -1] };
    for step in steps {
        let base = strided_base(&items, step, filler.clone());
        let a = step.unsigned_abs();
        let view = if n == 0 {
            base.slice(s![1..1])
        } else if step > 0 {
            base.slice(s![1..1 + (n - 1) * a + 1; step])
        } else {
            base.slice(s![1..1 + (n - 1) * a + 1; step])
        };
        debug_assert_eq!(view.len(), n);
        vis.visit(&format!("ArrayView1(step={step})"), &view);
        // an *owned* array in the same non-standard layout (`slice_move` / `invert_axis` keep the storage and
        // change the stride without copying): not contiguous, or contiguous but reversed (seed round 10)
        if level >= 1 || step == -1 || step == 2 {
            let owned: Array1<T> = if n == 0 { base.clone().slice_move(s![1..1]) } else { base.clone().slice_move(s![1..1 + (n - 1) * a + 1; step]) };
            debug_assert_eq!(owned.len(), n);
            vis.visit(&format!("Array1(owned, step={step})"), &owned);
            if step == -1 {
                let mut inv = Array1::from_vec(items.iter().rev().cloned().collect::<Vec<T>>());
                inv.invert_axis(ndarray::Axis(0));
                vis.visit("Array1(owned, inverted axis)", &inv);
                if level >= 1 {
                    vis.visit("Arc<Array1(owned, inverted axis)>", &Arc::new(inv));
                }
            }
        }
    }
}

/// splits of `n` into 1..=3 non-empty chunks (n = 0: one empty chunk)
pub fn chunkings(n: usize) -> Vec<Vec<usize>> {
    let mut out = vec![vec![n]];
    for a in 1..n {
        out.push(vec![a, n - a]);
        for b in 1..(n - a) {
            out.push(vec![a, b, n - a - b]);
        }
    }
    out
}

pub fn chunked_f64(word: &[X], chunks: &[usize]) -> Float64Chunked {
    let mut pos = 0;
    let mut ca: Option<Float64Chunked> = None;
    for &c in chunks {
        let part = Float64Chunked::from_slice_options("".into(), &word[pos..pos + c]);
        pos += c;
        ca = Some(match ca {
            None => part,
            Some(mut acc) => {
                acc.append(&part).unwrap();
                acc
            }
        });
    }
    ca.unwrap_or_else(|| Float64Chunked::from_slice_options("".into(), &[]))
}

/// Back ends whose element type is Option<f64>: Vec<Option<f64>>, the option view over Vec<f64>,
/// VecDeque / ndarray of options, and Polars Float64Chunked under every chunking.
pub fn for_backends_opt<Vis: BackendVisitor<Option<f64>>>(word: &[X], level: u8, vis: &mut Vis) {
    for_backends::<Option<f64>, Vis>(word, level, vis);
    let nan: Vec<f64> = enc_vec(word);
    vis.visit("OptIter<Vec<f64>>", &nan.opt());
    let arr = Array1::from_vec(nan.clone());
    vis.visit("OptIter<Array1<f64>>", &arr.opt());
    {
        let mut inv = Array1::from_vec(nan.iter().rev().cloned().collect::<Vec<f64>>());
        inv.invert_axis(ndarray::Axis(0));
        vis.visit("OptIter<Array1<f64>(owned, inverted axis)>", &inv.opt());
    }
    let chs = if level >= 1 { chunkings(word.len()) } else { chunkings(word.len()).into_iter().rev().take(2).collect() };
    for ch in chs {
        let ca = chunked_f64(word, &ch);
        vis.visit(&format!("Float64Chunked{ch:?}"), &ca);
        if level >= 1 {
            vis.visit(&format!("&Float64Chunked{ch:?}"), &&ca);
        }
    }
}

/// helper so callers can name the IsNone bound without importing tevec
pub fn is_null<T: IsNone>(v: &T) -> bool {
    v.is_none()
}
