//! Shared helpers of the per-property check binaries.
pub use mc_adapt::*;
pub use mc_core::*;
pub use mc_ref::roll::{Exp, R1, R2};

pub type X = Option<f64>;
pub mod rollcheck;

/// DESIGN 3.1 value alphabets (exact arithmetic: small dyadic rationals).
pub fn alphabet5(seed: u64) -> Vec<X> {
    match seed % 3 {
        0 => vec![None, Some(-2.0), Some(0.0), Some(1.0), Some(3.0)],
        1 => vec![None, Some(-1.0), Some(0.0), Some(2.0), Some(4.0)],
        _ => vec![None, Some(-2.0), Some(1.0), Some(1.5), Some(3.0)],
    }
}
pub fn alphabet6() -> Vec<X> {
    vec![None, Some(-2.0), Some(0.0), Some(1.0), Some(3.0), Some(1.5)]
}

pub fn decode(word: &[u8], alpha: &[X]) -> Vec<X> {
    word.iter().map(|s| alpha[*s as usize]).collect()
}

pub fn show_word(w: &[X]) -> String {
    let v: Vec<String> = w
        .iter()
        .map(|x| match x {
            None => "null".into(),
            Some(v) => format!("{v}"),
        })
        .collect();
    format!("[{}]", v.join(","))
}
pub fn json_word(w: &[X]) -> Value {
    // JSON has no infinities: they are written as the strings "inf" / "-inf"
    Value::Array(
        w.iter()
            .map(|x| match x {
                None => Value::Null,
                Some(v) if v.is_infinite() => json!(if *v > 0.0 { "inf" } else { "-inf" }),
                Some(v) => json!(v),
            })
            .collect(),
    )
}
pub fn word_from_json(v: &Value) -> Vec<X> {
    v.as_array()
        .map(|a| {
            a.iter()
                .map(|x| match x.as_str() {
                    Some("inf") => Some(f64::INFINITY),
                    Some("-inf") => Some(f64::NEG_INFINITY),
                    _ => x.as_f64(),
                })
                .collect()
        })
        .unwrap_or_default()
}
pub fn syms_from_json(v: &Value) -> Vec<u8> {
    v.as_array().map(|a| a.iter().map(|x| x.as_u64().unwrap_or(0) as u8).collect()).unwrap_or_default()
}

/// the (w, mp) configurations of a single-series rolling function for a series of length `len`
pub fn wmp_band(len: usize, w_lo: usize, extra: usize) -> Vec<(usize, Option<usize>)> {
    let mut v = vec![];
    for w in w_lo..=len + extra {
        v.push((w, None));
        for mp in 0..=w {
            v.push((w, Some(mp)));
        }
    }
    v
}

#[derive(Clone, Copy, Debug, PartialEq)]
pub enum Cmp {
    Exact,
    Tol,
}

#[derive(Clone, Copy, Debug, PartialEq)]
pub enum OutKind {
    F64,
    /// results are rounded to f32 on output
    F32,
    /// integer output: null is NaN's cast (0), values are truncating casts (DESIGN 2.7 IntCast, 5.9)
    Int,
}
pub fn out_kind<U: Elem>() -> OutKind {
    if U::INTEGER {
        OutKind::Int
    } else if U::NAME.contains("f32") {
        OutKind::F32
    } else {
        OutKind::F64
    }
}

/// Does observed cell `got` satisfy the model expectation?
pub fn satisfies(got: &Cell, exp: &Exp, cmp: Cmp, kind: OutKind) -> bool {
    if exp.any {
        return true;
    }
    if kind == OutKind::Int {
        if got.is_null() {
            return exp.null_ok; // Option<integer> outputs can hold a null
        }
        let g = match got {
            Cell::I(i) => *i as f64,
            _ => return false,
        };
        if exp.null_ok && g == 0.0 {
            return true;
        }
        if let Some(v) = exp.val {
            let tol = TOL * v.abs().max(1.0);
            return [v, v - tol, v + tol].iter().any(|c| c.trunc() == g);
        }
        return false;
    }
    if got.is_null() {
        return exp.null_ok;
    }
    match (got.num(), exp.val) {
        (Some(g), Some(v)) => match (cmp, kind) {
            (Cmp::Exact, OutKind::F32) => g == (v as f32) as f64,
            (Cmp::Exact, _) => g == v,
            (Cmp::Tol, OutKind::F32) => g == (v as f32) as f64 || (g - v).abs() <= 2e-6 * v.abs().max(1.0),
            (Cmp::Tol, _) => close(g, v),
        },
        _ => false,
    }
}

pub fn show_exps(e: &[Exp]) -> String {
    let v: Vec<String> = e.iter().map(|x| x.show()).collect();
    format!("[{}]", v.join(", "))
}

/// hash of an implementation outcome for the distinct-outcome counters
pub fn outcome_hash(o: &Outcome<Vec<Cell>>) -> u64 {
    match o {
        Outcome::Ok(c) => hash_cells(c),
        Outcome::Panic(m) => hash_bytes(m.as_bytes()) ^ 0x5555,
    }
}

pub fn mp_json(mp: Option<usize>) -> Value {
    match mp {
        None => Value::Null,
        Some(m) => json!(m),
    }
}
