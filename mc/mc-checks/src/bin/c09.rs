//! C09 — trusted-length iterators yield exactly as many items as they announce.
//! Operation-sequence machine over iterators: a recipe builds the iterator from scratch; in every
//! state reached by next / next_back the upper size hint must equal the number of items still to come.
use mc_adapt::backends::{chunked_f64, deque_with_head, strided_base};
use mc_checks::*;
use ndarray::{s, Array1};
use polars::prelude::Float64Chunked;
use std::collections::VecDeque;
use tevec::map::WinsorizeMethod;
use tevec::prelude::*;

type It<'a> = Box<dyn TrustedLen<Item = f64> + 'a>;
/// a boxed double-ended trusted iterator (local wrapper so that it can be TrustedLen itself)
struct DeIt<'a>(Box<dyn TIterator<Item = f64> + 'a>);
impl<'a> Iterator for DeIt<'a> {
    type Item = f64;
    fn next(&mut self) -> Option<f64> {
        self.0.next()
    }
    fn size_hint(&self) -> (usize, Option<usize>) {
        self.0.size_hint()
    }
}
impl<'a> DoubleEndedIterator for DeIt<'a> {
    fn next_back(&mut self) -> Option<f64> {
        self.0.next_back()
    }
}
// sound as far as the harness is concerned: the wrapper forwards size_hint unchanged, and the harness
// never hands it to a raw collector before the hints were validated
unsafe impl<'a> TrustedLen for DeIt<'a> {}
fn any_of<T>(v: &[T], f: impl Fn(&T) -> bool) -> bool {
    Iterator::any(&mut v.iter(), |x| f(x))
}

#[derive(Clone, Debug, PartialEq)]
enum Src {
    Vec,
    Deque(usize),
    Array,
    View(isize),
    OptView,
    Polars(Vec<usize>),
    VDiff(i32, Option<X>),
    VPct(i32),
    VPart(usize, bool, bool),
    VArgPart(usize, bool, bool),
    Range(f64, f64, f64),
    Linspace(f64, f64, usize),
    RollIter(usize),
    Winsor(u8, f64),
    /// vcut with bin configuration k of CUTS (fallible items: an error item still counts as an item)
    VCut(usize),
}
/// (edges, labels, right, add_bounds): values of the word alphabet fall inside, outside and on the open edge
const CUTS: [(&[f64], &[f64], bool, bool); 6] = [
    (&[0.5, 1.5], &[10.0], true, false),
    (&[1.0, 2.0], &[10.0], true, false),
    (&[1.0, 2.0], &[10.0], false, false),
    (&[0.0, 1.0, 2.0], &[10.0, 20.0], true, false),
    (&[-1.0, 0.0, 1.0], &[10.0, 20.0], false, false),
    (&[1.0], &[10.0, 20.0], true, true),
];
#[derive(Clone, Debug, PartialEq)]
enum Ad {
    Shift(i32, f64),
    VShift(i32, Option<f64>),
    Ffill(Option<f64>),
    Bfill(Option<f64>),
    Fill(f64),
    FfillMask0,
    FillMask0,
    VClip(X, X),
    Abs,
    VAbs,
    /// a state-carrying std adaptor the library declares trusted (keeps a running count, yields its input)
    Scan,
}
impl Src {
    fn trust_iter(&self) -> bool {
        matches!(self, Src::VDiff(..) | Src::VPct(..) | Src::VPart(..) | Src::VArgPart(..) | Src::RollIter(..))
    }
}
impl Ad {
    fn trust_iter(&self) -> bool {
        matches!(self, Ad::Shift(..) | Ad::VShift(..))
    }
}

struct Data {
    word: Vec<X>,
    vec: Vec<f64>,
    deques: Vec<VecDeque<f64>>,
    arr: Array1<f64>,
    bases: Vec<(isize, Array1<f64>)>,
    cuts: Vec<(Vec<f64>, Vec<f64>)>,
}
impl Data {
    fn new(word: &[X]) -> Data {
        let vec: Vec<f64> = enc_vec(word);
        Data {
            word: word.to_vec(),
            deques: (0..8).map(|o| deque_with_head(&vec, 8, o, 0.0)).collect(),
            arr: Array1::from_vec(vec.clone()),
            bases: [2isize, -1, -2].iter().map(|st| (*st, strided_base(&vec, *st, 0.0))).collect(),
            cuts: CUTS.iter().map(|c| (c.0.to_vec(), c.1.to_vec())).collect(),
            vec,
        }
    }
    fn view(&self, step: isize) -> ndarray::ArrayView1<'_, f64> {
        let n = self.vec.len();
        let base = &self.bases.iter().find(|(s, _)| *s == step).unwrap().1;
        let a = step.unsigned_abs();
        if n == 0 {
            base.slice(s![1..1])
        } else {
            base.slice(s![1..1 + (n - 1) * a + 1; step])
        }
    }
}

fn de_source<'a>(d: &'a Data, pol: &'a Option<Float64Chunked>, src: &Src) -> Option<DeIt<'a>> {
    Some(DeIt(match src {
        Src::Vec => Box::new(d.vec.titer()),
        Src::Deque(o) => Box::new(d.deques[*o].titer()),
        Src::Array => Box::new(d.arr.titer()),
        Src::View(st) => Box::new(d.view(*st).into_iter().cloned()),
        Src::Polars(_) => Box::new(pol.as_ref().unwrap().titer().map(|v| v.unwrap_or(f64::NAN))),
        _ => return None,
    }))
}

fn source<'a>(d: &'a Data, pol: &'a Option<Float64Chunked>, src: &Src) -> It<'a> {
    if let Some(it) = de_source(d, pol, src) {
        return Box::new(it);
    }
    match src {
        Src::OptView => Box::new(d.vec.opt().titer().map(|v| v.unwrap_or(f64::NAN)).collect_trusted_to_vec().into_iter()),
        Src::VDiff(n, f) => d.vec.vdiff(*n, f.map(|v| v.unwrap_or(f64::NAN))),
        Src::VPct(n) => d.vec.vpct_change(*n),
        Src::VPart(k, s, r) => d.vec.vpartition(*k, *s, *r),
        Src::VArgPart(k, s, r) => Box::new(d.vec.varg_partition(*k, *s, *r).map(|i| i as f64)),
        Src::RollIter(w) => Box::new(d.vec.rolling_custom_iter(*w, |s: &[f64]| s.len() as f64)),
        Src::Winsor(m, p) => {
            let m = match m {
                0 => WinsorizeMethod::Quantile,
                1 => WinsorizeMethod::Median,
                _ => WinsorizeMethod::Sigma,
            };
            d.vec.winsorize(m, Some(*p)).expect("winsorize parameters are valid")
        }
        Src::VCut(k) => {
            let (bins, labels) = &d.cuts[*k];
            let it = d.vec.titer().vcut::<Vec<f64>, Vec<f64>, f64>(bins, labels, CUTS[*k].2, CUTS[*k].3).expect("cut configuration is valid");
            Box::new(it.map(|r| r.unwrap_or(-1.0)))
        }
        Src::Range(..) | Src::Linspace(..) => panic!("generators are observed through the probe collector"),
        _ => unreachable!(),
    }
}

/// range / linspace iterators are private to the library: they are observed through an instrumented
/// output container whose trusted collector records the whole forward pass (hints and yield)
fn check_generator(src: &Src, ctx: &mut Ctx) {
    use mc_adapt::probe::*;
    let fam = "generators";
    ctx.fam(fam).states += 1;
    ctx.states += 1;
    ctx.nontrivial(fam, hash_bytes(format!("{src:?}").as_bytes()));
    probe_reset();
    let out = catch(|| -> ProbeOut<f64> {
        match src {
            Src::Range(a, b, st) => Vec1Create::range(Some(*a), *b, Some(*st)),
            Src::Linspace(a, b, n) => Vec1Create::linspace(Some(*a), *b, *n),
            _ => unreachable!(),
        }
    });
    let log = probe_take();
    let bad = match &out {
        Outcome::Panic(m) => Some(format!("PANIC({})", truncate(m, 100))),
        Outcome::Ok(o) => {
            ctx.eval(fam, hash_cells(&o.cells()));
            match log.passes.first() {
                None => Some("the trusted collector was never handed an iterator".into()),
                Some((hints, n)) => {
                    ctx.states += hints.len() as u64;
                    ctx.transitions += hints.len() as u64;
                    let mut b = None;
                    for (k, h) in hints.iter().enumerate() {
                        let remaining = n.saturating_sub(k);
                        if h.1 != Some(remaining) || h.0 > remaining {
                            b = Some(format!("after {k} next(): size_hint = {h:?}, remaining = {remaining} (yields {n})"));
                            break;
                        }
                    }
                    b
                }
            }
        }
    };
    match bad {
        Some(got) => ctx.violation(Violation {
            entry: src_name(src),
            finding: None,
            size: 100,
            case: json!({"family": fam, "source": format!("{src:?}")}),
            expected: "size_hint upper = number of items still to come, in every state".into(),
            got,
        }),
        None => ctx.traces += 1,
    }
}

fn apply<'a>(it: It<'a>, ad: &Ad) -> It<'a> {
    let z = |x: &f64| *x == 0.0;
    match ad {
        Ad::Shift(n, f) => it.shift(*n, *f),
        Ad::VShift(n, f) => it.vshift(*n, *f),
        Ad::Ffill(f) => Box::new(it.ffill(*f)),
        Ad::Bfill(_) => panic!("bfill needs a double-ended input"),
        Ad::Fill(f) => Box::new(it.fill(*f)),
        Ad::FfillMask0 => Box::new(it.ffill_mask(z, Some(7.0))),
        Ad::FillMask0 => Box::new(it.fill_mask(z, 7.0)),
        Ad::VClip(lo, hi) => it.vclip(lo.unwrap_or(f64::NAN), hi.unwrap_or(f64::NAN)),
        Ad::Abs => Box::new(it.abs()),
        Ad::VAbs => Box::new(it.vabs()),
        Ad::Scan => Box::new(it.scan(0.0f64, |s, x| {
            *s += 1.0;
            Some(x)
        })),
    }
}

fn build<'a>(d: &'a Data, pol: &'a Option<Float64Chunked>, src: &Src, ads: &[Ad]) -> It<'a> {
    // bfill can only be the first adaptor, directly on a double-ended source
    let (mut it, rest): (It<'a>, &[Ad]) = match ads.first() {
        Some(Ad::Bfill(f)) => match de_source(d, pol, src) {
            Some(de) => (Box::new(de.bfill(*f)), &ads[1..]),
            None => (source(d, pol, src), &ads[1..]), // not applicable: skipped by the enumerator
        },
        _ => (source(d, pol, src), ads),
    };
    for ad in rest {
        it = apply(it, ad);
    }
    it
}

/// one forward pass: hints before each next(), items; capped at first hint + 4096
struct Pass {
    /// TrustedLen::len() in every state (usize::MAX where the upper hint is absent)
    lens: Vec<usize>,
    hints: Vec<(usize, Option<usize>)>,
    items: Vec<f64>,
    capped: bool,
}
fn forward_pass(mut it: It) -> Pass {
    let first = it.size_hint();
    let cap = first.1.unwrap_or(first.0).saturating_add(4096);
    let mut p = Pass { lens: vec![], hints: vec![], items: vec![], capped: false };
    loop {
        p.hints.push(it.size_hint());
        p.lens.push(if it.size_hint().1.is_some() { TrustedLen::len(&it) } else { usize::MAX });
        match it.next() {
            Some(v) => {
                if p.items.len() >= cap {
                    p.capped = true;
                    break;
                }
                p.items.push(v);
            }
            None => break,
        }
    }
    // two extra calls after exhaustion
    if !p.capped {
        for _ in 0..2 {
            p.hints.push(it.size_hint());
            if it.next().is_some() {
                p.items.push(f64::INFINITY); // an item after None: recorded as a fault
                p.capped = true;
            }
        }
    }
    p
}

struct Recipe {
    src: Src,
    ads: Vec<Ad>,
}

fn polars_for(d: &Data, src: &Src) -> Option<Float64Chunked> {
    match src {
        Src::Polars(ch) => Some(chunked_f64(&d.word, ch)),
        _ => None,
    }
}

fn check_recipe(fam: &str, d: &Data, r: &Recipe, src_total: Option<usize>, ctx: &mut Ctx) -> Option<usize> {
    let pol = polars_for(d, &r.src);
    let len = d.vec.len();
    let pass = catch(|| forward_pass(build(d, &pol, &r.src, &r.ads)));
    ctx.states += 1;
    let mut bad: Option<(String, String, Option<String>)> = None;
    let mut total = None;
    match &pass {
        Outcome::Panic(m) => {
            bad = Some(("an iterator".into(), format!("PANIC({})", truncate(m, 100)), None));
            ctx.eval(fam, hash_bytes(m.as_bytes()));
        }
        Outcome::Ok(p) => {
            ctx.eval(fam, hash_u64s(&p.items.iter().map(|x| x.to_bits()).collect::<Vec<_>>()));
            let n = p.items.len();
            total = Some(n);
            ctx.states += p.hints.len() as u64;
            ctx.transitions += p.hints.len() as u64;
            if p.capped {
                bad = Some((format!("{} items (first hint)", p.hints[0].1.map_or("?".into(), |h| h.to_string())), format!("more than {} items", n), None));
            } else {
                for (k, l) in p.lens.iter().enumerate() {
                    let remaining = n.saturating_sub(k);
                    if *l != remaining && bad.is_none() && p.hints[k].1 == Some(remaining) {
                        bad = Some((format!("after {k} next(): TrustedLen::len() = remaining = {remaining}"), format!("len() = {l} with size_hint = {:?}", p.hints[k]), None));
                    }
                }
                for (k, h) in p.hints.iter().enumerate() {
                    let remaining = n.saturating_sub(k);
                    if h.1 != Some(remaining) || h.0 > remaining {
                        // F12: TrustIter::size_hint is a constant
                        let has_trust = r.src.trust_iter() || any_of(&r.ads, |a| a.trust_iter());
                        let f12 = k >= 1 && p.hints[0].1 == Some(n) && has_trust;
                        bad = Some((
                            format!("after {k} next(): size_hint upper = remaining = {remaining}"),
                            format!("size_hint = {h:?} (yields {n} items in total; hints {:?})", &p.hints[..p.hints.len().min(8)]),
                            if f12 { Some("F12".into()) } else { None },
                        ));
                        break;
                    }
                }
            }
            // every adaptor of the alphabet preserves the length of its input
            if bad.is_none() {
                if let Some(st) = src_total {
                    if n != st {
                        bad = Some((format!("{st} items (length of the adaptor's input)"), format!("{n} items"), None));
                    }
                }
            }
        }
    }
    if let Some((exp, got, finding)) = bad {
        let finding = finding.or_else(|| {
            // F11: shift without a guard for |n| > len
            if any_of(&r.ads, |a| matches!(a, Ad::Shift(n, _) if n.unsigned_abs() as usize > src_total.unwrap_or(len))) {
                return Some("F11".into());
            }
            // F13: sorted partition yields len items when len < k+1
            if matches!(&r.src, Src::VPart(k, true, _) if len < k + 1) {
                return Some("F13".into());
            }
            None
        });
        // F31: the Polars container iterator keeps its initial size hint while being consumed
        let finding = finding.or_else(|| if matches!(r.src, Src::Polars(_)) && got.contains("size_hint") { Some("F31".to_string()) } else { None });
        let full = format!("{}{}", src_name(&r.src), r.ads.iter().map(|a| format!(".{}", ad_name(a))).collect::<String>());
        let entry = match finding.as_deref() {
            Some("F12") => "TrustIter::size_hint after partial consumption".to_string(),
            Some("F11") => "shift(|n| > len)".to_string(),
            Some("F31") => "Float64Chunked.titer".to_string(),
            _ if r.ads.len() >= 2 => format!("pipeline ending in .{}", ad_name(&r.ads[r.ads.len() - 1])),
            _ => full.clone(),
        };
        ctx.violation(Violation {
            entry,
            finding,
            size: len * 100 + r.ads.len() * 10,
            case: json!({"family": fam, "series": json_word(&d.word), "source": format!("{:?}", r.src), "adaptors": format!("{:?}", r.ads), "pipeline": full}),
            expected: exp,
            got,
        });
        return total;
    }
    ctx.traces += 1;
    // the recipe passed in every state: now the raw collectors may be trusted with it (DESIGN 2.6)
    if let Outcome::Ok(p) = &pass {
        let want: Vec<Cell> = p.items.iter().map(|x| Cell::f(*x)).collect();
        let mut col = |name: &str, got: Outcome<Vec<Cell>>| {
            ctx.evals += 1;
            let ok = matches!(&got, Outcome::Ok(c) if cells_eq(c, &want, exact_eq));
            if !ok {
                ctx.violation(Violation {
                    entry: format!("collector:{name}"),
                    finding: None,
                    size: len * 100 + r.ads.len() * 10,
                    case: json!({"family": fam, "series": json_word(&d.word), "source": format!("{:?}", r.src), "adaptors": format!("{:?}", r.ads)}),
                    expected: show_cells(&want),
                    got: show_outcome(&got),
                });
            }
        };
        col("collect_trusted_to_vec", catch(|| build(d, &pol, &r.src, &r.ads).collect_trusted_to_vec().cells()));
        col("collect_trusted_vec1<VecDeque>", catch(|| build(d, &pol, &r.src, &r.ads).collect_trusted_vec1::<VecDeque<f64>>().cells()));
        col("collect_trusted_vec1<Array1>", catch(|| build(d, &pol, &r.src, &r.ads).collect_trusted_vec1::<Array1<f64>>().cells()));
        col(
            "collect_trusted_vec1<Float64Chunked>",
            catch(|| build(d, &pol, &r.src, &r.ads).map(|v| if v.is_nan() { None } else { Some(v) }).collect_trusted_vec1::<Float64Chunked>().cells()),
        );
        col(
            "try_collect_trusted_vec1<Vec>",
            catch(|| build(d, &pol, &r.src, &r.ads).map(|v| -> TResult<f64> { Ok(v) }).try_collect_trusted_vec1::<Vec<f64>>().map(|v| v.cells()).unwrap_or_default()),
        );
        if ctx.samples.len() < 3 && len == 4 && r.ads.len() == 2 {
            ctx.sample(json!({"series": json_word(&d.word), "source": format!("{:?}", r.src), "adaptors": format!("{:?}", r.ads), "hints": format!("{:?}", p.hints), "items": show_cells(&want)}));
        }
    }
    total
}

fn src_name(s: &Src) -> String {
    match s {
        Src::Vec => "Vec.titer".into(),
        Src::Deque(_) => "VecDeque.titer".into(),
        Src::Array => "Array1.titer".into(),
        Src::View(_) => "ArrayView1.titer".into(),
        Src::OptView => "opt().titer".into(),
        Src::Polars(_) => "Float64Chunked.titer".into(),
        Src::VDiff(..) => "vdiff".into(),
        Src::VPct(..) => "vpct_change".into(),
        Src::VPart(_, s, _) => format!("vpartition(sort={s})"),
        Src::VArgPart(_, s, _) => format!("varg_partition(sort={s})"),
        Src::Range(..) => "range".into(),
        Src::Linspace(..) => "linspace".into(),
        Src::RollIter(_) => "rolling_custom_iter".into(),
        Src::Winsor(..) => "winsorize".into(),
        Src::VCut(_) => "vcut".into(),
    }
}
fn ad_name(a: &Ad) -> &'static str {
    match a {
        Ad::Shift(..) => "shift",
        Ad::VShift(..) => "vshift",
        Ad::Ffill(_) => "ffill",
        Ad::Bfill(_) => "bfill",
        Ad::Fill(_) => "fill",
        Ad::FfillMask0 => "ffill_mask",
        Ad::FillMask0 => "fill_mask",
        Ad::VClip(..) => "vclip",
        Ad::Abs => "abs",
        Ad::VAbs => "vabs",
        Ad::Scan => "scan",
    }
}

fn lags(len: usize) -> Vec<i32> {
    let l = len as i32;
    let mut v: Vec<i32> = (-l - 3..=l + 3).collect();
    v.extend([i32::MIN, i32::MAX]);
    v
}

fn sources_full(len: usize) -> Vec<Src> {
    let mut v = vec![Src::Vec, Src::Array, Src::OptView];
    v.extend((0..8).map(Src::Deque));
    v.extend([2isize, -1, -2].map(Src::View));
    v.extend(mc_adapt::backends::chunkings(len).into_iter().map(Src::Polars));
    for n in lags(len) {
        v.push(Src::VPct(n));
        for f in [None, Some(None), Some(Some(7.0))] {
            v.push(Src::VDiff(n, f));
        }
    }
    for k in 0..=len + 2 {
        for s in [false, true] {
            for r in [false, true] {
                v.push(Src::VPart(k, s, r));
                v.push(Src::VArgPart(k, s, r));
            }
        }
    }
    for w in 1..=len + 2 {
        v.push(Src::RollIter(w));
    }
    for m in 0..3u8 {
        for p in [0.0, 0.1, 0.5, 1.0, 3.0] {
            if m == 0 && p > 0.5 {
                continue;
            }
            v.push(Src::Winsor(m, p));
        }
    }
    v.extend((0..CUTS.len()).map(Src::VCut));
    v
}
fn generators() -> Vec<Src> {
    let mut v = vec![];
    for a in [-1.0, 0.0, 0.5] {
        for b in [-1.0, 0.0, 2.0, 2.5] {
            for st in [0.5, 1.0, -0.5, -1.0] {
                // dyadic grid (DESIGN 5.7); spans pointing the other way are C19's subject (F27)
                if (b - a) / st >= 0.0 {
                    v.push(Src::Range(a, b, st));
                }
            }
            for n in 0..=5 {
                v.push(Src::Linspace(a, b, n));
            }
        }
    }
    // non-dyadic steps: the element count ceil((end-start)/step) is formed in rounded arithmetic, so
    // the end point start + step*k may land on either side of `end`. The hint law needs no oracle
    // for the contents (those are C19's subject, on dyadic grids): announced == yielded in every state.
    for a in [0.0, 0.1, -0.7] {
        for st in [0.1, 0.3, 0.7, 1e-6, 1_000_000.1, -0.1, -0.3] {
            for n in 0..=30 {
                let b = a + st * n as f64;
                for b in [b, b * (1.0 + 4e-16), b * (1.0 - 4e-16), st * n as f64 + a] {
                    if (b - a) / st >= 0.0 {
                        v.push(Src::Range(a, b, st));
                    }
                }
            }
        }
    }
    v
}
fn adaptors_full(len: usize) -> Vec<Ad> {
    let mut v = vec![];
    for n in lags(len) {
        v.push(Ad::Shift(n, 7.0));
        for f in [None, Some(7.0)] {
            v.push(Ad::VShift(n, f));
        }
    }
    for f in [None, Some(7.0)] {
        v.push(Ad::Ffill(f));
        v.push(Ad::Bfill(f));
    }
    v.extend([Ad::Fill(7.0), Ad::FfillMask0, Ad::FillMask0, Ad::Abs, Ad::VAbs, Ad::Scan]);
    for lo in [None, Some(-1.0), Some(2.0)] {
        for hi in [None, Some(-1.0), Some(2.0)] {
            v.push(Ad::VClip(lo, hi));
        }
    }
    v
}
/// one instance per adaptor, parameters on the guard boundaries
fn adaptors_reduced(len: usize) -> Vec<Ad> {
    let l = len as i32;
    vec![Ad::Shift(l, 7.0), Ad::VShift(l + 1, None), Ad::VShift(-1, Some(7.0)), Ad::Ffill(None), Ad::Fill(7.0), Ad::VClip(Some(-1.0), Some(2.0)), Ad::VAbs, Ad::Shift(-1, 7.0), Ad::Scan]
}

/// the (next / next_back) operation machine on double-ended sources: every op sequence up to len+2
fn de_machine(fam: &str, d: &Data, src: &Src, ctx: &mut Ctx) {
    let pol = polars_for(d, src);
    let list: Vec<f64> = match catch(|| forward_pass(source(d, &pol, src))) {
        Outcome::Ok(p) if !p.capped => p.items,
        _ => return, // already reported by check_recipe
    };
    let n = list.len();
    let bound = n + 2;
    let mut seq: Vec<bool> = vec![];
    fn rec(fam: &str, d: &Data, pol: &Option<Float64Chunked>, src: &Src, list: &[f64], seq: &mut Vec<bool>, bound: usize, ctx: &mut Ctx) {
        // rebuild, replay the prefix, observe
        let n = list.len();
        let obs = catch(|| {
            let mut it = de_source(d, pol, src).unwrap();
            let (mut f, mut b) = (0usize, n);
            let mut ok_items = true;
            for &front in seq.iter() {
                let got = if front { it.next() } else { it.next_back() };
                let want = if f < b {
                    if front {
                        f += 1;
                        Some(list[f - 1])
                    } else {
                        b -= 1;
                        Some(list[b])
                    }
                } else {
                    None
                };
                let same = match (got, want) {
                    (Some(g), Some(w)) => g.to_bits() == w.to_bits() || (g.is_nan() && w.is_nan()),
                    (None, None) => true,
                    _ => false,
                };
                ok_items &= same;
            }
            // TrustedLen::len / is_empty are derived from the hint
            let derived_ok = TrustedLen::len(&it) == b - f && TrustedLen::is_empty(&it) == (b == f);
            (it.size_hint(), b - f, ok_items && derived_ok)
        });
        ctx.states += 1;
        ctx.evals += 1;
        match obs {
            Outcome::Ok((hint, remaining, ok_items)) => {
                if hint.1 != Some(remaining) || hint.0 > remaining || !ok_items {
                    ctx.violation(Violation {
                        entry: format!("{}(double-ended)", src_name(src)),
                        finding: if matches!(src, Src::Polars(_)) && ok_items { Some("F31".into()) } else { None },
                        size: n * 100 + seq.len(),
                        case: json!({"family": fam, "series": json_word(&d.word), "source": format!("{src:?}"), "ops": seq.iter().map(|f| if *f { "next" } else { "next_back" }).collect::<Vec<_>>()}),
                        expected: format!("size_hint upper = remaining = {remaining}, items from the two ends of {list:?}"),
                        got: format!("size_hint = {hint:?}, items_ok = {ok_items}"),
                    });
                    return;
                }
            }
            Outcome::Panic(m) => {
                ctx.violation(Violation {
                    entry: format!("{}(double-ended)", src_name(src)),
                    finding: None,
                    size: n * 100 + seq.len(),
                    case: json!({"family": fam, "series": json_word(&d.word), "source": format!("{src:?}"), "ops": format!("{seq:?}")}),
                    expected: "no panic".into(),
                    got: m,
                });
                return;
            }
        }
        if seq.len() >= bound {
            ctx.traces += 1;
            return;
        }
        for front in [true, false] {
            seq.push(front);
            ctx.transitions += 1;
            rec(fam, d, pol, src, list, seq, bound, ctx);
            seq.pop();
        }
    }
    rec(fam, d, &pol, src, &list, &mut seq, bound, ctx);
}

/// the same next / next_back machine on the typed Polars columns (Datetime in three units, String): the
/// column is rebuilt and the prefix replayed for every state; items are observed as Option<i64> / Option<String> hashes
fn typed_columns(word: &[u8], x: &[X], ctx: &mut Ctx) {
    use polars::prelude::{DatetimeChunked, Int64Chunked, NewChunkedArray, StringChunked, TimeUnit};
    let fam = "double-ended-typed";
    let n = x.len();
    let ints: Vec<Option<i64>> = x.iter().map(|v| v.map(|a| (a as i64) * 1_000_003 - 7)).collect();
    let strs: Vec<Option<String>> = x.iter().map(|v| v.map(|a| format!("s{a}"))).collect();
    let want: Vec<Option<i64>> = ints.clone();
    for ch in mc_adapt::backends::chunkings(n).into_iter().rev().take(3) {
        let (mut ica, mut sca): (Option<Int64Chunked>, Option<StringChunked>) = (None, None);
        let mut pos = 0;
        for &c in &ch {
            let ip = Int64Chunked::from_slice_options("".into(), &ints[pos..pos + c]);
            let sp = StringChunked::from_iter_options("".into(), strs[pos..pos + c].iter().cloned());
            pos += c;
            ica = Some(match ica {
                None => ip,
                Some(mut a) => {
                    a.append(&ip).unwrap();
                    a
                }
            });
            sca = Some(match sca {
                None => sp,
                Some(mut a) => {
                    a.append(&sp).unwrap();
                    a
                }
            });
        }
        let (ica, sca) = (ica.unwrap(), sca.unwrap());
        let cols: Vec<(&str, DatetimeChunked)> = vec![
            ("DatetimeChunked(ns).titer", ica.clone().into_datetime(TimeUnit::Nanoseconds, None)),
            ("DatetimeChunked(us).titer", ica.clone().into_datetime(TimeUnit::Microseconds, None)),
            ("DatetimeChunked(ms).titer", ica.clone().into_datetime(TimeUnit::Milliseconds, None)),
        ];
        // kind 0..3: datetime units, 3: string
        for kind in 0..4usize {
            let name = if kind < 3 { cols[kind].0 } else { "&StringChunked.titer" };
            let mut seq: Vec<bool> = vec![];
            // iterative DFS over op sequences up to n + 2
            let mut stack: Vec<Vec<bool>> = vec![vec![]];
            while let Some(cur) = stack.pop() {
                seq.clear();
                seq.extend(&cur);
                let obs = catch(|| {
                    fn run<I: DoubleEndedIterator<Item = Option<i64>>>(mut it: I, seq: &[bool], want: &[Option<i64>]) -> ((usize, Option<usize>), usize, bool) {
                        let (mut f, mut b) = (0usize, want.len());
                        let mut ok = true;
                        for &front in seq {
                            let got = if front { it.next() } else { it.next_back() };
                            let w = if f < b {
                                if front {
                                    f += 1;
                                    Some(want[f - 1])
                                } else {
                                    b -= 1;
                                    Some(want[b])
                                }
                            } else {
                                None
                            };
                            ok &= got == w;
                        }
                        (it.size_hint(), b - f, ok)
                    }
                    let opt = |nat: bool, v: i64| if nat { None } else { Some(v) };
                    match kind {
                        0 => run(TIter::<DateTime<unit::Nanosecond>>::titer(&&cols[0].1).map(|d| opt(d.is_nat(), d.0)), &seq, &want),
                        1 => run(TIter::<DateTime<unit::Microsecond>>::titer(&&cols[1].1).map(|d| opt(d.is_nat(), d.0)), &seq, &want),
                        2 => run(TIter::<DateTime<unit::Millisecond>>::titer(&&cols[2].1).map(|d| opt(d.is_nat(), d.0)), &seq, &want),
                        _ => {
                            // strings are mapped back to the integer they were made from
                            let back = |s: Option<&str>| s.and_then(|s| strs.iter().position(|t| t.as_deref() == Some(s))).and_then(|i| ints[i]);
                            run((&sca).titer().map(back), &seq, &want)
                        }
                    }
                });
                ctx.states += 1;
                ctx.evals += 1;
                ctx.fam(fam).states += 1;
                let bad = match &obs {
                    Outcome::Ok((hint, remaining, ok)) => hint.1 != Some(*remaining) || hint.0 > *remaining || !ok,
                    Outcome::Panic(_) => true,
                };
                ctx.eval(fam, hash_bytes(format!("{obs:?}").as_bytes()));
                if bad {
                    let hint_only = matches!(&obs, Outcome::Ok((_, _, true)));
                    ctx.violation(Violation {
                        entry: format!("{name}(double-ended)"),
                        finding: if hint_only { Some("F37".into()) } else { None },
                        size: n * 100 + seq.len(),
                        case: json!({"family": fam, "word": word, "series": json_word(x), "chunks": ch, "ops": seq.iter().map(|f| if *f { "next" } else { "next_back" }).collect::<Vec<_>>()}),
                        expected: "size_hint upper = number of items still to come; items from the two ends".into(),
                        got: format!("{obs:?} (size_hint, remaining, items_ok)"),
                    });
                    continue;
                }
                if cur.len() >= n + 2 {
                    ctx.traces += 1;
                    continue;
                }
                for front in [false, true] {
                    let mut nx = cur.clone();
                    nx.push(front);
                    ctx.transitions += 1;
                    stack.push(nx);
                }
            }
        }
    }
}

fn check_word(word: &[u8], alpha: &[X], max_depth: usize, ctx: &mut Ctx) {
    let x = decode(word, alpha);
    let len = x.len();
    let d = Data::new(&x);
    ctx.nontrivial("recipes", hash_bytes(word));
    ctx.fam("depth0").states += 1;
    // depth 0: every source, full parameter bands; double-ended machine on the container iterators
    for src in sources_full(len) {
        let t = check_recipe("depth0", &d, &Recipe { src: src.clone(), ads: vec![] }, None, ctx);
        if t.is_some() && matches!(src, Src::Vec | Src::Deque(_) | Src::Array | Src::View(_) | Src::Polars(_)) {
            de_machine("double-ended", &d, &src, ctx);
        }
    }
    typed_columns(word, &x, ctx);
    // depth 1: a few sources x every adaptor with its full band
    let base_sources = [Src::Vec, Src::Deque(6), Src::View(-1), Src::VDiff(1, None), Src::VPart(1, false, false), Src::RollIter(2)];
    for src in &base_sources {
        let pol = None;
        let st = match catch(|| forward_pass(source(&d, &pol, src))) {
            Outcome::Ok(p) if !p.capped => p.items.len(),
            _ => continue,
        };
        for ad in adaptors_full(len) {
            if matches!(ad, Ad::Bfill(_)) && de_source(&d, &pol, src).is_none() {
                continue;
            }
            check_recipe("depth1", &d, &Recipe { src: src.clone(), ads: vec![ad] }, Some(st), ctx);
        }
    }
    // depth 2: full band for the outer adaptor, reduced alphabet for the inner one
    if max_depth >= 2 {
        for inner in adaptors_reduced(len) {
            for outer in adaptors_full(len) {
                if matches!(outer, Ad::Bfill(_)) {
                    continue;
                }
                check_recipe("depth2", &d, &Recipe { src: Src::Vec, ads: vec![inner.clone(), outer] }, Some(len), ctx);
            }
        }
    }
    // depth 3..: all pipelines over the reduced alphabet
    let red = adaptors_reduced(len);
    for depth in 3..=max_depth {
        let mut idx = vec![0usize; depth];
        'outer: loop {
            let ads: Vec<Ad> = idx.iter().map(|i| red[*i].clone()).collect();
            check_recipe(&format!("depth{depth}"), &d, &Recipe { src: Src::Vec, ads }, Some(len), ctx);
            let mut p = depth;
            loop {
                if p == 0 {
                    break 'outer;
                }
                p -= 1;
                if idx[p] + 1 < red.len() {
                    idx[p] += 1;
                    break;
                }
                idx[p] = 0;
            }
        }
    }
}

/// Second engine (DESIGN 1.4): the next / next_back machine on the container iterators as a stateright
/// model. A state is (word, source, items taken from the front, items taken from the back, agreed?): unlike
/// the history tree above, stateright merges all operation sequences that reach the same (front, back)
/// point, and the observation in a state is made after replaying the *canonical* sequence (all fronts,
/// then all backs) on a freshly built real iterator - a state reached by a different route than the
/// explorer's. The reachable set is known in closed form ((n+1)(n+2)/2 points per iterator of n items).
struct SrDeque {
    words: Vec<Vec<X>>,
    srcs: Vec<Vec<Src>>,
}
type SrState = (u32, u16, u8, u8, bool);
impl SrDeque {
    fn observe(&self, wi: usize, si: usize, f: usize, back: usize) -> bool {
        let d = Data::new(&self.words[wi]);
        let src = &self.srcs[wi][si];
        let pol = polars_for(&d, src);
        let list: Vec<f64> = d.vec.clone();
        let n = list.len();
        let r = catch(|| {
            let mut it = de_source(&d, &pol, src).unwrap();
            let mut ok = true;
            let same = |g: Option<f64>, w: f64| matches!(g, Some(g) if g.to_bits() == w.to_bits() || (g.is_nan() && w.is_nan()));
            for i in 0..f {
                ok &= same(it.next(), list[i]);
            }
            for j in 0..back {
                ok &= same(it.next_back(), list[n - 1 - j]);
            }
            let rem = n - f - back;
            let h = it.size_hint();
            ok && h.1 == Some(rem) && h.0 <= rem
        });
        matches!(r, Outcome::Ok(true))
    }
}
impl stateright::Model for SrDeque {
    type State = SrState;
    type Action = bool;
    fn init_states(&self) -> Vec<SrState> {
        let mut v = vec![];
        for (wi, ss) in self.srcs.iter().enumerate() {
            for si in 0..ss.len() {
                v.push((wi as u32, si as u16, 0, 0, self.observe(wi, si, 0, 0)));
            }
        }
        v
    }
    fn actions(&self, _s: &SrState, a: &mut Vec<bool>) {
        a.extend([true, false]);
    }
    fn next_state(&self, s: &SrState, front: bool) -> Option<SrState> {
        let n = self.words[s.0 as usize].len();
        let (f, b) = (s.2 as usize, s.3 as usize);
        if f + b >= n {
            return None; // exhausted: further calls return None and leave the point unchanged
        }
        let (f, b) = if front { (f + 1, b) } else { (f, b + 1) };
        Some((s.0, s.1, f as u8, b as u8, self.observe(s.0 as usize, s.1 as usize, f, b)))
    }
    fn properties(&self) -> Vec<stateright::Property<Self>> {
        vec![stateright::Property::always("size hint = items still to come, items from both ends", |_, s: &SrState| s.4)]
    }
}

/// returns (unique states found by stateright, closed-form count, discoveries)
fn stateright_crosscheck(alpha: &[X], max_len: usize) -> (usize, usize, usize) {
    use stateright::{Checker, Model};
    let words: Vec<Vec<X>> = all_words_upto(alpha.len(), max_len).iter().map(|w| decode(w, alpha)).collect();
    let srcs: Vec<Vec<Src>> = words
        .iter()
        .map(|w| sources_full(w.len()).into_iter().filter(|s| matches!(s, Src::Vec | Src::Deque(_) | Src::Array | Src::View(_) | Src::Polars(_))).collect())
        .collect();
    let mut expected = 0usize;
    for (w, ss) in words.iter().zip(&srcs) {
        expected += ss.len() * (w.len() + 1) * (w.len() + 2) / 2;
    }
    let checker = SrDeque { words, srcs }.checker().threads(1).spawn_bfs().join();
    (checker.unique_state_count(), expected, checker.discoveries().len())
}

/// long series (DESIGN 5.14): 1030 and 4100 elements through the sources and depth-1 / depth-2 pipelines, so that an
/// iterator or collector that works in blocks is driven across its block boundaries
fn long_recipes(thorough: bool, ctx: &mut Ctx) {
    let fam = "long";
    for len in if thorough { vec![300usize, 1030, 4100] } else { vec![1030] } {
        let x: Vec<X> = (0..len).map(|i| if i % 7 == 3 || (i > 500 && i < 520) { None } else { Some(((i * 5) % 11) as f64 - 3.0) }).collect();
        let d = Data::new(&x);
        ctx.nontrivial("recipes", hash_bytes(format!("long{len}").as_bytes()));
        let l = len as i32;
        let sources = vec![
            Src::Vec, Src::Deque(6), Src::Array, Src::View(-1), Src::View(2), Src::OptView, Src::Polars(vec![len / 2, len - len / 2]), Src::Polars(vec![1, len - 2, 1]),
            Src::VDiff(1, None), Src::VDiff(-l + 1, Some(Some(7.0))), Src::VPct(3), Src::VPct(-1), Src::VPart(len / 2, true, false), Src::VPart(len + 1, false, true),
            Src::VArgPart(16, true, false), Src::RollIter(40), Src::RollIter(len + 1), Src::Winsor(0, 0.1),
        ];
        for src in &sources {
            let pol = polars_for(&d, src);
            let st = match catch(|| forward_pass(source(&d, &pol, src))) {
                Outcome::Ok(p) if !p.capped => p.items.len(),
                _ => {
                    check_recipe(fam, &d, &Recipe { src: src.clone(), ads: vec![] }, None, ctx);
                    continue;
                }
            };
            check_recipe(fam, &d, &Recipe { src: src.clone(), ads: vec![] }, None, ctx);
            let mut ads = adaptors_reduced(len);
            ads.extend([Ad::Shift(1024, 7.0), Ad::VShift(-1024, None), Ad::Shift(l - 1, 7.0), Ad::FfillMask0, Ad::Abs]);
            for ad in &ads {
                if matches!(ad, Ad::Bfill(_)) {
                    continue;
                }
                check_recipe(fam, &d, &Recipe { src: src.clone(), ads: vec![ad.clone()] }, Some(st), ctx);
            }
            if matches!(src, Src::Vec | Src::Polars(_)) {
                for a in &ads {
                    for b in adaptors_reduced(len) {
                        if matches!(a, Ad::Bfill(_)) {
                            continue;
                        }
                        check_recipe(fam, &d, &Recipe { src: src.clone(), ads: vec![a.clone(), b] }, Some(st), ctx);
                    }
                }
            }
        }
    }
}

// ---- whatever the library *declares* trusted-length must be exact (std adaptor chains over sources of unknown length) ----
/// `Probe(it).announced()` is `Some(TrustedLen::len(&it))` if the library implements `TrustedLen` for the type of
/// `it` (the inherent method is only a candidate when its bound holds), `None` otherwise (trait method as fallback).
struct Probe<I>(I);
trait NotDeclared {
    fn announced(&self) -> Option<usize> {
        None
    }
}
impl<I> NotDeclared for Probe<I> {}
impl<I: TrustedLen> Probe<I> {
    fn announced(&self) -> Option<usize> {
        Some(TrustedLen::len(&self.0))
    }
}

fn check_declared(word: &[u8], alpha: &[X], ctx: &mut Ctx) {
    let fam = "declared-trusted";
    let x = decode(word, alpha);
    let v: Vec<f64> = enc_vec(&x);
    let len = v.len();
    ctx.fam(fam).states += 1;
    ctx.nontrivial(fam, hash_bytes(word));
    let valid = |a: &f64| !a.is_nan();
    // hold the announced length of `$make` (if the type is declared trusted) against its real length, before
    // consumption and after every partial consumption from the front
    macro_rules! chain {
        ($name:expr, $make:expr) => {{
            let total = Iterator::count($make);
            let mut declared = false;
            for consumed in 0..=total + 1 {
                let mut it = $make;
                for _ in 0..consumed {
                    it.next();
                }
                let p = Probe(it);
                ctx.transitions += 1;
                if let Some(announced) = p.announced() {
                    declared = true;
                    let rest = Iterator::count(p.0);
                    if announced != rest {
                        ctx.violation(Violation {
                            entry: format!("declared TrustedLen: {}", $name),
                            finding: None,
                            size: len * 100 + consumed,
                            case: json!({"family": fam, "series": json_word(&x), "chain": $name, "consumed": consumed}),
                            expected: format!("announced length == items still to come = {rest}"),
                            got: format!("announces {announced}"),
                        });
                        break;
                    }
                }
            }
            ctx.eval(fam, mix(hash_bytes($name.as_bytes()), declared as u64));
            if declared {
                ctx.traces += 1;
            }
        }};
    }
    for k in 0..=len + 1 {
        chain!(format!("titer().take({k})"), v.titer().take(k));
        chain!(format!("titer().filter(valid).take({k})"), v.titer().filter(valid).take(k));
        chain!(format!("titer().skip_while(!valid).take({k})"), v.titer().skip_while(|a| !valid(a)).take(k));
        chain!(format!("titer().take_while(valid).take({k})"), v.titer().take_while(valid).take(k));
        chain!(format!("titer().drop_none().take({k})"), v.titer().drop_none().take(k));
        chain!(format!("titer().vsorted_unique().take({k})"), v.titer().vsorted_unique().take(k));
        chain!(format!("titer().flat_map(once).take({k})"), v.titer().flat_map(std::iter::once).take(k));
        chain!(format!("titer().chain(repeat).take({k})"), v.titer().chain(std::iter::repeat(7.0)).take(k));
        chain!(format!("iter().cloned().cycle().take({k})"), v.iter().cloned().cycle().take(k));
        chain!(format!("titer().skip({k})"), v.titer().skip(k));
        chain!(format!("titer().step_by({})", k + 1), v.titer().step_by(k + 1));
        chain!(format!("titer().filter(valid).step_by({})", k + 1), v.titer().filter(valid).step_by(k + 1));
    }
    chain!("titer().filter(valid)", v.titer().filter(valid));
    chain!("titer().filter(valid).map", v.titer().filter(valid).map(|a| a + 1.0));
    chain!("titer().filter(valid).enumerate", v.titer().filter(valid).enumerate());
    chain!("titer().filter(valid).zip(titer())", v.titer().filter(valid).zip(v.titer()));
    chain!("titer().zip(titer().filter(valid))", v.titer().zip(v.titer().filter(valid)));
    chain!("titer().filter(valid).chain(titer())", v.titer().filter(valid).chain(v.titer()));
    chain!("titer().chain(titer().filter(valid))", v.titer().chain(v.titer().filter(valid)));
    chain!("titer().filter(valid).rev()", v.titer().filter(valid).rev());
    chain!("titer().filter(valid).scan", v.titer().filter(valid).scan(0.0f64, |s, a| {
        *s += 1.0;
        Some(a)
    }));
    chain!("titer().take_while(valid)", v.titer().take_while(valid));
    chain!("titer().skip_while(valid)", v.titer().skip_while(valid));
    chain!("titer().flat_map(once)", v.titer().flat_map(std::iter::once));
    chain!("titer().drop_none()", v.titer().drop_none());
    chain!("titer().vsorted_unique()", v.titer().vsorted_unique());
    chain!("titer().peekable()", v.titer().peekable());
    chain!("titer().fuse()", v.titer().fuse());
    chain!("titer().inspect()", v.titer().inspect(|_| {}));
    chain!("titer().rev().filter(valid).rev()", v.titer().rev().filter(valid).rev());
}

fn main() {
    let run = Run::from_args("C09");
    let alpha: Vec<X> = vec![None, Some(-1.0), Some(0.0), Some(2.0)];
    let max_len = run.pick(4, 6);
    let max_depth = run.pick(4, 6);
    if let Some(path) = &run.replay {
        let stored = load_replay(path).unwrap_or_else(|e| {
            eprintln!("MACHINERY-ERROR: {e}");
            std::process::exit(2)
        });
        let mut ctx = Ctx::new();
        let x = word_from_json(&stored["case"]["series"]);
        let word: Vec<u8> = x.iter().map(|v| alpha.iter().position(|a| a == v).unwrap_or(0) as u8).collect();
        if stored["case"]["family"] == "declared-trusted" {
            check_declared(&word, &alpha, &mut ctx);
        } else if stored["case"]["family"] == "generators" {
            for g in generators() {
                check_generator(&g, &mut ctx);
            }
        } else if stored["case"]["family"] == "long" {
            long_recipes(true, &mut ctx);
        } else {
            check_word(&word, &alpha, max_depth, &mut ctx);
        }
        std::process::exit(finish_replay(&run, &stored, ctx));
    }
    // words: every word up to max_len for depth <= 2; deep pipelines on a sub-family of words
    let words = all_words_upto(alpha.len(), max_len);
    let mut total = par_items(&words, run.threads, |w, ctx| {
        // deep pipelines only on words of length >= 2 with a null and a zero (guards + masks exercised)
        let deep = w.len() >= 2 && w.contains(&0) && w.contains(&2);
        check_word(w, &alpha, if deep { max_depth } else { 2 }, ctx);
    });
    total.merge(par_items(&words, run.threads, |w, ctx| {
        ctx.states += 1;
        check_declared(w, &alpha, ctx)
    }));
    let mut g = Ctx::new();
    for src in generators() {
        check_generator(&src, &mut g);
    }
    long_recipes(!run.quick(), &mut g);
    total.merge(g);
    // cross-check of the double-ended machine with the second engine (words up to length 3 / 4)
    let (sr_states, sr_expected, sr_disc) = stateright_crosscheck(&alpha, run.pick(3, 4));
    println!("stateright cross-check (double-ended machine): unique states {sr_states} (closed form {sr_expected}), discoveries {sr_disc}");
    let de_violations = total.buckets.keys().filter(|k| k.contains("(double-ended)") && !k.contains("Chunked(") && !k.contains("StringChunked")).count();
    if sr_disc == 0 && sr_states != sr_expected {
        // (stateright stops at the first discovery, so the count is only meaningful on a clean run)
        total.error(format!("stateright explored {sr_states} states of the double-ended machine, closed form says {sr_expected}"));
    }
    if (de_violations == 0) != (sr_disc == 0) {
        total.error(format!("engines disagree on the double-ended machine: explorer {de_violations} violation buckets, stateright {sr_disc} discoveries"));
    }
    total.states += sr_states as u64;
    let meta = Meta {
        rule: "operation-sequence machine over iterators. A recipe = source (container titer on every back end / ring offset / stride / chunking, vdiff, vpct_change, vpartition, varg_partition, rolling_custom_iter, winsorize, range, linspace with full parameter bands) followed by 0..d adaptors (shift, vshift, ffill, bfill, fill, ffill_mask, fill_mask, vclip, abs, vabs; full bands at depth 1 and for the outer adaptor at depth 2, all 8^d pipelines of a reduced alphabet at depth 3..d). In every state (after k next(), and for double-ended sources after every next/next_back sequence up to len+2) size_hint().1 must equal the number of items still to come and the lower bound must not exceed it; adaptors preserve the input length; only then the raw trusted collectors are run and must return exactly the safely iterated list. Non-trivial = distinct input words. Also vcut as a source (6 bin configurations; an error item counts as an item), the std scan adaptor, and TrustedLen::len() == items still to come in every state (DESIGN 5.15). Round 8 (DESIGN 5.17): declared-trusted - about 40 std adaptor chains over sources of unknown length; a compile-time probe tells whether the library declares the chain's type trusted-length, and whatever it declares must announce exactly the items still to come in every state.".into(),
        bounds: json!({"alphabet": json_word(&alpha), "L": max_len, "max_depth": max_depth, "lags": "-len-3..=len+3, i32::MIN, i32::MAX", "kth": "0..=len+2", "window": "1..=len+2",
                       "deep_pipelines_on": "words of length >= 2 containing a null and a zero"}),
        assumptions: vec![
            "iterators are consumed by plain safe iteration, capped at hint + 4096 items; raw collectors only on recipes whose hints were validated (DESIGN 2.6)".into(),
            "range on dyadic grids, non-negative spans only (C19 owns the rest)".into(),
            "vcut returns fallible items: an error item counts as an item here (the labels are C14's subject)".into(),
        ],
        exhaustive: true,
        min_states: 1000,
    };
    std::process::exit(finish(&run, meta, total));
}
