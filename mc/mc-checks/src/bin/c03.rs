//! C03 — rolling extrema, arg-extrema, rank and normalisation are exact per window.
use mc_adapt::roll::*;
use mc_checks::rollcheck::*;
use mc_checks::*;

fn classify(c: &CaseInfo) -> Option<String> {
    // F30: ts_vminmaxnorm subtracts in the integer element type
    if c.f == R1::Minmax && c.ty.contains("i32") && matches!(c.got, Outcome::Panic(m) if m.contains("overflow")) {
        return Some("F30".into());
    }
    None
}

/// Order statistics of integers that f64 cannot tell apart (|v| > 2^53, neighbours one apart): the
/// alphabet type of the explorer is f64, so these cannot be written as words; instead the translation
/// relation is checked, which needs no oracle: arg-extrema and ranks depend on the order only, so
/// f(base + x) == f(x) exactly, and min / max commute with the translation (output element i64).
mod bigint {
    use mc_adapt::roll::*;
    use mc_checks::*;
    use tevec::prelude::*;

    pub fn check_word(word: &[u8], ctx: &mut Ctx) {
        let fam = "translation-bigint";
        ctx.fam(fam).states += 1;
        ctx.nontrivial(fam, hash_bytes(word));
        // symbols: 0 = null, 1..=3 = offsets 0, 1, 2
        let small: Vec<Option<i64>> = word.iter().map(|s| if *s == 0 { None } else { Some(*s as i64 - 1) }).collect();
        let len = small.len();
        for (bname, base) in [("2^60", 1i64 << 60), ("-2^60", -(1i64 << 60)), ("i64::MAX-2", i64::MAX - 2)] {
            let big: Vec<Option<i64>> = small.iter().map(|v| v.map(|o| base + o)).collect();
            let mut fns: Vec<R1> = vec![R1::Argmin, R1::Argmax];
            for pct in [false, true] {
                for rev in [false, true] {
                    fns.push(R1::Rank { pct, rev });
                }
            }
            for w in 1..=len + 1 {
                for mp in [Some(0), Some(1), Some(w)] {
                    for &f in &fns {
                        let a = catch(|| call_v1::<Vec<Option<i64>>, Option<i64>, Vec<f64>, f64>(f, &small, w, mp, Path::Ret).cells());
                        let b = catch(|| call_v1::<Vec<Option<i64>>, Option<i64>, Vec<f64>, f64>(f, &big, w, mp, Path::Ret).cells());
                        ctx.eval(fam, outcome_hash(&b));
                        ctx.transitions += 1;
                        let same = matches!((&a, &b), (Outcome::Ok(x), Outcome::Ok(y)) if cells_eq(x, y, exact_eq));
                        if !same {
                            ctx.violation(Violation {
                                entry: format!("translation:{}", r1_name(f, true)),
                                finding: None,
                                size: len * 100 + w,
                                case: json!({"family": fam, "word": word, "offsets": small, "base": bname, "w": w, "mp": mp_json(mp)}),
                                expected: format!("as on the offsets alone: {}", show_outcome(&a)),
                                got: show_outcome(&b),
                            });
                        }
                    }
                    // min / max with an integer output: translated by exactly `base`
                    for f in [R1::Min, R1::Max] {
                        let a = catch(|| call_v1::<Vec<Option<i64>>, Option<i64>, Vec<Option<i64>>, Option<i64>>(f, &small, w, mp, Path::Ret));
                        let b = catch(|| call_v1::<Vec<Option<i64>>, Option<i64>, Vec<Option<i64>>, Option<i64>>(f, &big, w, mp, Path::Ret));
                        ctx.evals += 1;
                        ctx.transitions += 1;
                        let same = match (&a, &b) {
                            (Outcome::Ok(x), Outcome::Ok(y)) => x.len() == y.len() && (0..x.len()).filter(|i| x[*i].map(|v| v + base) != y[*i]).next().is_none(),
                            _ => false,
                        };
                        if !same {
                            ctx.violation(Violation {
                                entry: format!("translation:{}", r1_name(f, true)),
                                finding: None,
                                size: len * 100 + w,
                                case: json!({"family": fam, "word": word, "offsets": small, "base": bname, "w": w, "mp": mp_json(mp)}),
                                expected: format!("{base} + {a:?}"),
                                got: format!("{b:?}"),
                            });
                        }
                    }
                }
            }
        }
    }
}

fn fns() -> Vec<R1> {
    let mut v = V1_CMP.to_vec();
    v.extend(V1_NORM);
    v
}

fn mk(name: &str, alpha: Vec<X>, max_len: usize, tys: Vec<Ty1>, paths: Vec<Path>) -> SeriesFam {
    SeriesFam {
        name: name.into(),
        alpha,
        max_len,
        plain: false,
        fns: fns(),
        tys,
        paths,
        law: Law::ValueUndef,
        w_lo: 1,
        w_extra: 2,
        min_len: 1,
        scales: vec![],
        cfg_ok: cfg_cmp,
        classify,
    }
}

fn tys_deep() -> Vec<Ty1> {
    vec![ty_v1::<f64, f64>(), ty_v1::<Option<f64>, Option<f64>>()]
}
fn tys_matrix() -> Vec<Ty1> {
    vec![
        ty_v1::<Option<i32>, Option<f64>>(),
        ty_v1::<Option<i32>, Option<i32>>(),
        ty_v1::<i32, f64>(),
        ty_v1::<i32, Option<i32>>(),
        ty_v1::<f64, Option<i32>>(),
        ty_v1::<f32, f32>(),
        ty_v1::<i64, Option<f64>>(),
    ]
}

fn perm_words(max_l: usize) -> Vec<Vec<u8>> {
    // every permutation of 1..=l with nulls substituted at every subset of <= 2 positions
    let mut out = vec![];
    for l in 1..=max_l {
        let subs = subsets_upto(l, 2);
        for_permutations(l, &mut |p| {
            for s in &subs {
                let mut w: Vec<u8> = p.iter().map(|v| v + 1).collect();
                for &i in s {
                    w[i] = 0;
                }
                out.push(w);
            }
        });
    }
    out
}

fn main() {
    let run = Run::from_args("C03");
    let ties_alpha: Vec<X> = vec![None, Some(0.0), Some(1.0), Some(2.0)];
    let perm_alpha: Vec<X> = std::iter::once(None).chain((1..=9).map(|v| Some(v as f64))).collect();
    let mut ties = mk("ties-deep", ties_alpha.clone(), run.pick(6, 8), tys_deep(), vec![Path::Ret]);
    ties.scales = vec![1.0 / 8192.0, 1024.0];
    let ties_m = mk("ties-matrix", ties_alpha.clone(), run.pick(4, 6), tys_matrix(), vec![Path::Ret, Path::Buf]);
    let perms = mk("order-types", perm_alpha.clone(), run.pick(6, 8), tys_deep(), vec![Path::Ret]);
    // zscore is excluded here: one-pass power sums of 2^31-sized values are ill-conditioned (DESIGN 5.2)
    let mut big = mk(
        "extreme-values",
        vec![None, Some(-2147483648.0), Some(-1.0), Some(0.0), Some(2147483647.0)],
        run.pick(4, 5),
        vec![ty_v1::<Option<i32>, Option<i32>>(), ty_v1::<f64, f64>(), ty_v1::<i32, f64>()],
        vec![Path::Ret],
    );
    big.fns.retain(|f| *f != R1::Zscore);
    // infinities are ordinary (extreme) values for the order statistics; the normalisations are left out
    // (inf - inf is not a number)
    let mut infs = mk(
        "infinite-values",
        vec![None, Some(f64::NEG_INFINITY), Some(0.0), Some(1.0), Some(f64::INFINITY)],
        run.pick(4, 5),
        vec![ty_v1::<f64, f64>(), ty_v1::<Option<f64>, Option<f64>>(), ty_v1::<f32, f64>()],
        vec![Path::Ret],
    );
    infs.fns.retain(|f| !matches!(f, R1::Zscore | R1::Minmax));
    // every NaN is the same null (DESIGN 5.4)
    let ties_nan = ties.nan_kinds(run.pick(5, 6));
    let ties_m_nan = ties_m.nan_kinds(run.pick(3, 4));
    if let Some(path) = &run.replay {
        let stored = load_replay(path).unwrap_or_else(|e| {
            eprintln!("MACHINERY-ERROR: {e}");
            std::process::exit(2)
        });
        let mut ctx = Ctx::new();
        let case = &stored["case"];
        let fam_name = case["family"].as_str().unwrap_or("");
        if fam_name == "translation-bigint" {
            bigint::check_word(&syms_from_json(&case["word"]), &mut ctx);
        }
        for f in [&ties, &ties_m, &perms, &big, &infs, &ties_nan, &ties_m_nan] {
            if fam_name.starts_with(&f.name) && fam_name.ends_with("-nan-kinds") == f.name.ends_with("-nan-kinds") {
                if case["shape"].is_string() {
                    check_structured(f, !run.quick(), 2, &mut ctx);
                } else if case["trace"].is_string() {
                    traces(&run, f, &mut ctx);
                } else {
                    f.check_word(&syms_from_json(&case["word"]), &mut ctx);
                }
            }
        }
        std::process::exit(finish_replay(&run, &stored, ctx));
    }
    let mut total = explore_tree(&ties, run.threads);
    total.merge(explore_tree(&ties_nan, run.threads));
    total.merge(explore_tree(&ties_m_nan, run.threads));
    total.merge(explore_tree(&ties_m, run.threads));
    total.merge(explore_tree(&big, run.threads));
    total.merge(explore_tree(&infs, run.threads));
    let pw = perm_words(perms.max_len);
    let c = par_items(&pw, run.threads, |w, ctx| {
        ctx.states += 1;
        ctx.transitions += 1;
        ctx.traces += 1;
        perms.check_word(w, ctx);
    });
    total.merge(c);
    {
        let balpha: Vec<X> = vec![None, Some(0.0), Some(1.0), Some(2.0)];
        let bw = all_words_upto(balpha.len(), run.pick(4, 5));
        let bfns = fns();
        total.merge(par_items(&bw, run.threads, |w, ctx| {
            ctx.states += 1;
            if !w.is_empty() {
                check_backends_value("backends", &bfns, &[], Law::ValueUndef, w, &balpha, cfg_cmp, ctx)
            }
        }));
    }
    {
        // a flat stretch after values that are not exact in binary: the running sums keep a rounding residue of
        // the order 1e-17, far below the variance floor; the normalisations of a window with zero spread are null
        let mut zf = mk("flat-after-nondyadic", vec![], 0, tys_deep(), vec![Path::Ret]);
        zf.fns = vec![R1::Zscore, R1::Minmax];
        let mut shapes: Vec<(String, Vec<X>)> = vec![];
        for (i, head) in [vec![0.7, 0.1], vec![1.1, 0.3, 0.9], vec![0.7, 0.1, -0.3, 0.2], vec![0.1; 3]].into_iter().enumerate() {
            for level in [0.0, 0.1, -0.7] {
                let mut x: Vec<X> = head.iter().map(|v| Some(*v)).collect();
                x.extend(vec![Some(level); 9]);
                shapes.push((format!("head{i}+flat({level})"), x.clone()));
                x[head.len() + 2] = None;
                shapes.push((format!("head{i}+flat({level})+null"), x));
            }
        }
        let mut t = Ctx::new();
        check_shapes(&zf, "nondyadic", &shapes, &[2, 3, 5, 8], 2, &mut t);
        total.merge(t);
    }
    // translation relation on integers beyond 2^53
    let bw = all_words_upto(4, run.pick(4, 6));
    total.merge(par_items(&bw, run.threads, |w, ctx| {
        ctx.states += 1;
        bigint::check_word(w, ctx);
    }));
    let mut t = Ctx::new();
    traces(&run, &ties, &mut t);
    total.merge(t);
    total.merge(check_structured_par(&ties, !run.quick(), 2, run.threads));
    let meta = Meta {
        rule: "history tree over the tie-heavy alphabet {null,0,1,2} (every word), every order type (all permutations of 1..=l with nulls at every subset of <=2 positions), an extreme-value alphabet (i32 MIN/MAX), de Bruijn long trace; every window 1..=len+2, every min_periods 0..=w (omitted for len>=w), every output position compared with a scan of the window. Exact comparison for min/max/arg/rank. Non-trivial = word with a non-null element. Configuration families (DESIGN 5.15): the value law on every input back end (backends); plateaus after non-dyadic history with undefined normalisation (flat-after-nondyadic); NaN kinds (*-nan-kinds). Round 8 (DESIGN 5.17): structured series of 1030 / 2100 elements.".into(),
        bounds: json!({
            "families": [
                {"name": ties.name, "alphabet": json_word(&ties.alpha), "L": ties.max_len, "types": ties.tys.iter().map(|t| t.name.clone()).collect::<Vec<_>>()},
                {"name": ties_m.name, "alphabet": json_word(&ties_m.alpha), "L": ties_m.max_len, "types": ties_m.tys.iter().map(|t| t.name.clone()).collect::<Vec<_>>()},
                {"name": perms.name, "permutations_of_length_upto": perms.max_len, "nulls_at_subsets_upto": 2, "words": pw.len()},
                {"name": big.name, "alphabet": json_word(&big.alpha), "L": big.max_len},
            ],
            "entry_points": fns().iter().map(|f| r1_name(*f, true)).collect::<Vec<_>>(),
            "window": "1..=len+2", "min_periods": "0..=w, omitted when len >= w (DESIGN 5.3)",
            "long_trace": if run.quick() {"B(4,5)"} else {"B(4,7)"},
        }),
        assumptions: vec![
            "canonical nulls only (DESIGN 5.4)".into(),
            "min/max with plain integer output are not driven: a null result is a documented panic of none() on integer types".into(),
            "warm-up positions (fewer valid observations than min_periods) are judged by C05".into(),
        ],
        exhaustive: true,
        min_states: 1000,
    };
    std::process::exit(finish(&run, meta, total));
}

fn traces(run: &Run, fam: &SeriesFam, ctx: &mut Ctx) {
    let n = run.pick(5, 7);
    let seq = de_bruijn(4, n);
    let x = decode(&seq, &fam.alpha);
    let one = SeriesFam {
        name: fam.name.clone(),
        alpha: fam.alpha.clone(),
        max_len: 0,
        plain: false,
        fns: fam.fns.clone(),
        tys: vec![fam.tys[0].clone()],
        paths: vec![Path::Ret],
        law: fam.law,
        w_lo: 1,
        w_extra: 2,
        min_len: 1,
        scales: vec![],
        cfg_ok: fam.cfg_ok,
        classify: fam.classify,
    };
    check_long_trace(&one, &format!("B(4,{n})"), &x, n + 2, ctx);
    let mut r = x.clone();
    r.reverse();
    check_long_trace(&one, &format!("B(4,{n})-reversed"), &r, n + 2, ctx);
}
