//! mc-adapt: adapters from the explorer's type-erased world to tevec's generic API.
//! Everything here is generic; the check binaries choose the instantiations.
pub mod aggs;
pub mod backends;
pub mod elem;
pub mod maps;
pub mod outbuf;
pub mod probe;
pub mod roll;

pub use elem::*;
pub use mc_core::*;
pub use tevec;
