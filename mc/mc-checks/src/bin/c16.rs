//! C16 — time values: NaT is absorbing and unit changes agree with the calendar.
//! Finite lattice of (unit, timestamp) states, BFS with dedup over conversion chains.
use chrono::{DateTime as CrDateTime, Datelike, NaiveDate, Timelike, Utc};
use mc_checks::*;
use tevec::prelude::unit::{Microsecond, Millisecond, Nanosecond, Second};
use tevec::prelude::{Cast, DateTime, Time, TimeDelta};

const UNITS: [&str; 4] = ["s", "ms", "us", "ns"];
const PER_SEC: [i128; 4] = [1, 1_000, 1_000_000, 1_000_000_000];
const NAT: i64 = i64::MIN;

macro_rules! by_unit {
    ($u:expr, $U:ident => $body:expr) => {
        match $u {
            0 => {
                type $U = Second;
                $body
            }
            1 => {
                type $U = Millisecond;
                $body
            }
            2 => {
                type $U = Microsecond;
                $body
            }
            _ => {
                type $U = Nanosecond;
                $body
            }
        }
    };
}

fn conv(from: u8, to: u8, v: i64, via_cast: bool) -> Outcome<i64> {
    if via_cast && from != to {
        return conv_cast(from, to, v);
    }
    by_unit!(from, F => by_unit!(to, T => catch(|| DateTime::<F>::new(v).into_unit::<T>().into_i64())))
}
/// the Cast<DateTime<T>> impls (distinct unit pairs only)
fn conv_cast(from: u8, to: u8, v: i64) -> Outcome<i64> {
    macro_rules! c {
        ($F:ty, $T:ty) => {
            catch(|| Cast::<DateTime<$T>>::cast(DateTime::<$F>::new(v)).into_i64())
        };
    }
    match (from, to) {
        (0, 1) => c!(Second, Millisecond),
        (0, 2) => c!(Second, Microsecond),
        (0, 3) => c!(Second, Nanosecond),
        (1, 0) => c!(Millisecond, Second),
        (1, 2) => c!(Millisecond, Microsecond),
        (1, 3) => c!(Millisecond, Nanosecond),
        (2, 0) => c!(Microsecond, Second),
        (2, 1) => c!(Microsecond, Millisecond),
        (2, 3) => c!(Microsecond, Nanosecond),
        (3, 0) => c!(Nanosecond, Second),
        (3, 1) => c!(Nanosecond, Millisecond),
        (3, 2) => c!(Nanosecond, Microsecond),
        _ => unreachable!(),
    }
}

/// chrono's view of (unit, v): None when outside chrono's range
fn chrono_of(u: u8, v: i64) -> Option<CrDateTime<Utc>> {
    match u {
        0 => CrDateTime::from_timestamp(v, 0),
        1 => CrDateTime::from_timestamp_millis(v),
        2 => CrDateTime::from_timestamp_micros(v),
        _ => Some(CrDateTime::from_timestamp_nanos(v)),
    }
}
fn chrono_ts(c: &CrDateTime<Utc>, u: u8) -> Option<i64> {
    match u {
        0 => Some(c.timestamp()),
        1 => Some(c.timestamp_millis()),
        2 => Some(c.timestamp_micros()),
        _ => c.timestamp_nanos_opt(),
    }
}

/// model of a unit change: Ok(Some(v)) exact value, Ok(None) = NaT, Err = overflow (panic or NaT accepted)
fn conv_model(from: u8, to: u8, v: i64) -> Result<Option<i64>, ()> {
    if v == NAT {
        return Ok(None);
    }
    let (pf, pt) = (PER_SEC[from as usize], PER_SEC[to as usize]);
    if pt <= pf {
        let r = pf / pt;
        Ok(Some((v as i128).div_euclid(r) as i64)) // toward the past, also before 1970
    } else {
        let r = pt / pf;
        let x = v as i128 * r;
        if x > i64::MAX as i128 || x <= i64::MIN as i128 {
            Err(())
        } else {
            Ok(Some(x as i64))
        }
    }
}

/// thorough tier: denser lattice (set once in main before any use)
static DENSE: std::sync::atomic::AtomicBool = std::sync::atomic::AtomicBool::new(false);

fn lattice(u: u8) -> Vec<i64> {
    let dense = DENSE.load(std::sync::atomic::Ordering::Relaxed);
    let mut v: Vec<i128> = vec![NAT as i128, NAT as i128 + 1, i64::MAX as i128, 0, 1, -1];
    for r in [1_000i128, 1_000_000, 1_000_000_000] {
        let mut qs: Vec<i128> = if dense { (-60..=60).collect() } else { (-3..=3).collect() };
        qs.extend([i64::MAX as i128 / r, -(i64::MAX as i128 / r), i64::MAX as i128 / (r * r), -(i64::MAX as i128 / (r * r))]);
        for q in qs {
            for rho in [0, 1, 2, r / 2 - 1, r / 2, r / 2 + 1, r - 2, r - 1] {
                v.push(q * r + rho);
                v.push(q * r - rho);
            }
        }
    }
    // calendar lattice: first and last representable instant of every month 1678-01 .. 2262-03, +- one unit
    let p = PER_SEC[u as usize];
    for y in 1678..=2262 {
        for m in 1..=12 {
            if y == 2262 && m > 3 {
                break;
            }
            let first = NaiveDate::from_ymd_opt(y, m, 1).unwrap().and_hms_opt(0, 0, 0).unwrap().and_utc().timestamp() as i128 * p;
            v.extend([first - 1, first, first + 1]);
            if dense {
                // the 15th at 12:34:56 and +- one unit, the 28th at 23:59:59
                let mid = NaiveDate::from_ymd_opt(y, m, 15).unwrap().and_hms_opt(12, 34, 56).unwrap().and_utc().timestamp() as i128 * p;
                let late = NaiveDate::from_ymd_opt(y, m, 28).unwrap().and_hms_opt(23, 59, 59).unwrap().and_utc().timestamp() as i128 * p;
                v.extend([mid - 1, mid, mid + 1, late, late + p - 1]);
            }
        }
    }
    let mut out: Vec<i64> = v.into_iter().filter(|x| *x >= i64::MIN as i128 && *x <= i64::MAX as i128).map(|x| x as i64).collect();
    out.sort();
    out.dedup();
    out
}

#[derive(Clone, PartialEq, Eq, Hash, Debug)]
struct St {
    u: u8,
    v: i64,
}

fn viol(ctx: &mut Ctx, entry: &str, finding: Option<&str>, case: Value, expected: String, got: String) {
    ctx.violation(Violation { entry: entry.into(), finding: finding.map(|s| s.into()), size: case.to_string().len(), case, expected, got });
}

/// all checks on one state; returns its successors under every unit change
fn check_state(s: &St, ctx: &mut Ctx) -> Vec<St> {
    let fam = "units";
    ctx.fam(fam).states += 1;
    ctx.nontrivial(fam, hash_u64s(&[s.u as u64, s.v as u64]));
    let mut succ = vec![];
    for to in 0..4u8 {
        for via_cast in [false, true] {
            if via_cast && to == s.u {
                continue;
            }
            let got = conv(s.u, to, s.v, via_cast);
            ctx.eval(fam, match &got { Outcome::Ok(v) => *v as u64, _ => 99 });
            let want = conv_model(s.u, to, s.v);
            let ok = match (&got, &want) {
                (Outcome::Ok(g), Ok(Some(w))) => g == w,
                (Outcome::Ok(g), Ok(None)) => *g == NAT,
                (Outcome::Ok(g), Err(())) => *g == NAT,
                (Outcome::Panic(_), Err(())) => true,
                _ => false,
            };
            if !ok {
                // F22: into_unit divides / multiplies the NaT sentinel and truncates toward zero
                let f22 = s.v == NAT || (s.v < 0 && PER_SEC[to as usize] < PER_SEC[s.u as usize]) || want.is_err();
                viol(ctx, "into_unit", if f22 { Some("F22") } else { None },
                    json!({"family": fam, "from": UNITS[s.u as usize], "to": UNITS[to as usize], "value": s.v, "nat": s.v == NAT}),
                    match want { Ok(Some(w)) => format!("{w} (floor division / exact multiple)"), Ok(None) => "NaT".into(), Err(()) => "panic or NaT (overflow)".into() },
                    format!("{got:?}"));
            } else if let (Outcome::Ok(g), Ok(Some(_))) = (&got, &want) {
                // agreement with the calendar library on the same instant
                if let Some(c) = chrono_of(s.u, s.v) {
                    if PER_SEC[to as usize] <= PER_SEC[s.u as usize] {
                        if chrono_ts(&c, to) != Some(*g) {
                            viol(ctx, "into_unit vs chrono", None, json!({"family": fam, "from": UNITS[s.u as usize], "to": UNITS[to as usize], "value": s.v}), format!("{:?}", chrono_ts(&c, to)), format!("{g}"));
                        }
                    }
                }
                if !via_cast {
                    succ.push(St { u: to, v: *g });
                }
                // finer and back is the identity
                if PER_SEC[to as usize] > PER_SEC[s.u as usize] {
                    let back = conv(to, s.u, *g, false);
                    ctx.evals += 1;
                    if !matches!(back, Outcome::Ok(b) if b == s.v) {
                        viol(ctx, "finer-and-back", if s.v < 0 { Some("F22") } else { None }, json!({"family": fam, "from": UNITS[s.u as usize], "via": UNITS[to as usize], "value": s.v}), format!("{}", s.v), format!("{back:?}"));
                    }
                }
            }
        }
    }
    // option / calendar conversions and getters
    let (opt, cast_opt, cr, back, fields) = by_unit!(s.u, U => {
        let d = DateTime::<U>::new(s.v);
        let cr = d.as_cr();
        let back = cr.map(|c| catch(|| DateTime::<U>::from(c).into_i64()));
        let co: Option<i64> = Cast::<Option<i64>>::cast(d);
        (d.into_opt_i64(), co, cr, back, (d.year(), d.month(), d.day(), d.hour(), d.minute(), d.second()))
    });
    ctx.evals += 1;
    let want_opt = if s.v == NAT { None } else { Some(s.v) };
    if opt != want_opt || cast_opt != want_opt {
        viol(ctx, "into_opt_i64 / Cast<Option<i64>>", None, json!({"family": fam, "unit": UNITS[s.u as usize], "value": s.v}), format!("{want_opt:?}"), format!("{opt:?} / {cast_opt:?}"));
    }
    // every optional numeric target: NaT -> None, a valid instant -> Some (the numeric value is C15's subject)
    let some_flags: Vec<(&str, bool)> = by_unit!(s.u, U => {
        let d = DateTime::<U>::new(s.v);
        vec![
            ("Option<u8>", Cast::<Option<u8>>::cast(d).is_some()),
            ("Option<u64>", Cast::<Option<u64>>::cast(d).is_some()),
            ("Option<i32>", Cast::<Option<i32>>::cast(d).is_some()),
            ("Option<usize>", Cast::<Option<usize>>::cast(d).is_some()),
            ("Option<isize>", Cast::<Option<isize>>::cast(d).is_some()),
            ("Option<f32>", Cast::<Option<f32>>::cast(d).is_some()),
            ("Option<f64>", Cast::<Option<f64>>::cast(d).is_some()),
            ("f64 (NaN for NaT)", !Cast::<f64>::cast(d).is_nan()),
            ("f32 (NaN for NaT)", !Cast::<f32>::cast(d).is_nan()),
        ]
    });
    ctx.evals += some_flags.len() as u64;
    for (tname, is_some) in some_flags {
        if is_some != (s.v != NAT) {
            viol(ctx, "Cast<Option<number>> / Cast<float> of a date-time", None, json!({"family": fam, "unit": UNITS[s.u as usize], "value": s.v, "nat": s.v == NAT, "target": tname}), if s.v == NAT { "null".into() } else { "non-null".into() }, if is_some { "non-null".into() } else { "null".into() });
        }
    }
    let want_cr = if s.v == NAT { None } else { chrono_of(s.u, s.v) };
    // the other routes to a calendar value: the deprecated alias and the conversion trait
    #[allow(deprecated)]
    let (alias, tried): (Option<CrDateTime<Utc>>, Option<CrDateTime<Utc>>) = by_unit!(s.u, U => {
        let d = DateTime::<U>::new(s.v);
        (d.to_cr(), <CrDateTime<Utc> as TryFrom<DateTime<U>>>::try_from(d).ok())
    });
    ctx.evals += 2;
    if alias != want_cr || tried != want_cr {
        viol(ctx, "to_cr / TryFrom<DateTime> for chrono::DateTime", None, json!({"family": fam, "unit": UNITS[s.u as usize], "value": s.v, "nat": s.v == NAT}), format!("{want_cr:?}"), format!("to_cr {alias:?} / try_from {tried:?}"));
    }
    if cr != want_cr {
        viol(ctx, "as_cr", None, json!({"family": fam, "unit": UNITS[s.u as usize], "value": s.v}), format!("{want_cr:?}"), format!("{cr:?}"));
    }
    if let (Some(c), Some(_)) = (want_cr, &back) {
        // the naive calendar types are further routes into a date-time (round 11): NaiveDateTime,
        // Option<NaiveDateTime> and - at midnight - NaiveDate give the same count as the zoned value
        if chrono_ts(&c, s.u).is_some() {
            let naive = c.naive_utc();
            let routes: Vec<(&str, Outcome<i64>)> = by_unit!(s.u, U => {
                let mut r = vec![
                    ("From<NaiveDateTime>", catch(|| DateTime::<U>::from(naive).into_i64())),
                    ("From<Option<NaiveDateTime>>", catch(|| DateTime::<U>::from(Some(naive)).into_i64())),
                ];
                if naive.time() == chrono::NaiveTime::MIN {
                    r.push(("From<NaiveDate>", catch(|| DateTime::<U>::from(naive.date()).into_i64())));
                }
                r
            });
            ctx.evals += routes.len() as u64;
            for (rname, got) in routes {
                if !matches!(got, Outcome::Ok(x) if x == s.v) {
                    viol(ctx, rname, None, json!({"family": fam, "unit": UNITS[s.u as usize], "value": s.v}), format!("{}", s.v), format!("{got:?}"));
                }
            }
        }
    }
    if let (Some(c), Some(b)) = (want_cr, back) {
        // round trip through the calendar type inside the representable range of the unit
        let representable = chrono_ts(&c, s.u).is_some();
        if representable && !matches!(b, Outcome::Ok(x) if x == s.v) {
            viol(ctx, "From<chrono>(as_cr(x))", None, json!({"family": fam, "unit": UNITS[s.u as usize], "value": s.v}), format!("{}", s.v), format!("{b:?}"));
        }
        let want_fields = (Some(c.year()), Some(c.month() as usize), Some(c.day() as usize), Some(c.hour() as usize), Some(c.minute() as usize), Some(c.second() as usize));
        if fields != want_fields {
            viol(ctx, "calendar fields", None, json!({"family": fam, "unit": UNITS[s.u as usize], "value": s.v}), format!("{want_fields:?}"), format!("{fields:?}"));
        }
    } else if want_cr.is_none() && fields != (None, None, None, None, None, None) {
        viol(ctx, "calendar fields of NaT / out of range", None, json!({"family": fam, "unit": UNITS[s.u as usize], "value": s.v}), "all None".into(), format!("{fields:?}"));
    }
    succ
}

/// NaT is absorbed by every operator of impl_ops.rs
/// The Polars AnyValue bridge: DateTime<U> <-> AnyValue::Datetime in the three units Polars has; a conversion
/// between resolutions on this route must denote the same instant truncated toward the past as well.
fn anyvalue_bridge(ctx: &mut Ctx) {
    use polars::prelude::{AnyValue, TimeUnit};
    let fam = "polars-anyvalue";
    let tu = |u: u8| match u {
        1 => TimeUnit::Milliseconds,
        2 => TimeUnit::Microseconds,
        _ => TimeUnit::Nanoseconds,
    };
    for from in 1..=3u8 {
        for v in lattice(from) {
            ctx.states += 1;
            ctx.fam(fam).states += 1;
            ctx.nontrivial(fam, hash_u64s(&[from as u64, v as u64]));
            // DateTime -> AnyValue
            let dec = |a: AnyValue<'static>| match a {
                AnyValue::Null => None,
                AnyValue::Datetime(x, t, None) if t == tu(from) => Some(x),
                other => panic!("unexpected AnyValue {other:?}"),
            };
            let av = match from {
                1 => catch(|| dec(AnyValue::from(DateTime::<Millisecond>::new(v)))),
                2 => catch(|| dec(AnyValue::from(DateTime::<Microsecond>::new(v)))),
                _ => catch(|| dec(AnyValue::from(DateTime::<Nanosecond>::new(v)))),
            };
            let want_av = if v == NAT { None } else { Some(v) };
            ctx.eval(fam, hash_bytes(format!("{av:?}").as_bytes()));
            ctx.transitions += 1;
            if !matches!(&av, Outcome::Ok(g) if *g == want_av) {
                viol(ctx, "AnyValue::from(DateTime)", None, json!({"family": fam, "unit": UNITS[from as usize], "value": v}), format!("{want_av:?}"), format!("{av:?}"));
            }
            // AnyValue (unit `from`, or Null for NaT) -> DateTime<to>
            for to in 1..=3u8 {
                let src = if v == NAT { AnyValue::Null } else { AnyValue::Datetime(v, tu(from), None) };
                let got = match to {
                    1 => catch(|| DateTime::<Millisecond>::from(src.clone()).into_i64()),
                    2 => catch(|| DateTime::<Microsecond>::from(src.clone()).into_i64()),
                    _ => catch(|| DateTime::<Nanosecond>::from(src.clone()).into_i64()),
                };
                ctx.eval(fam, hash_bytes(format!("{got:?}").as_bytes()));
                ctx.transitions += 1;
                let ok = match (conv_model(from, to, v), &got) {
                    (Ok(Some(w)), Outcome::Ok(g)) => *g == w,
                    (Ok(None), Outcome::Ok(g)) => *g == NAT,
                    (Err(()), _) => true, // not representable in the target unit
                    _ => false,
                };
                if ok {
                    ctx.traces += 1;
                } else {
                    // F38: the cross-unit arm delegates to polars' cast, which divides toward zero
                    let f38 = from > to && v < 0 && v != NAT;
                    viol(ctx, "DateTime::from(AnyValue::Datetime)", if f38 { Some("F38") } else { None }, json!({"family": fam, "from": UNITS[from as usize], "to": UNITS[to as usize], "value": v}), format!("{:?}", conv_model(from, to, v)), format!("{got:?}"));
                }
            }
        }
    }
}

fn absorbing(ctx: &mut Ctx) {
    let fam = "absorbing";
    let deltas: Vec<TimeDelta> = ["0s", "1s", "-1s", "1d", "1mo", "-2y3mo", "1ns"].iter().map(|s| TimeDelta::parse(s).unwrap()).collect();
    let stamps = [0i64, 1, -1, 1_700_000_000, -1_700_000_000];
    let mut one = |ctx: &mut Ctx, name: &str, finding: Option<&str>, is_nat: Outcome<bool>, detail: String| {
        ctx.states += 1;
        ctx.transitions += 1;
        ctx.fam(fam).states += 1;
        ctx.eval(fam, match &is_nat { Outcome::Ok(b) => *b as u64, _ => 7 } + hash_bytes(name.as_bytes()) % 97);
        ctx.nontrivial(fam, hash_bytes(format!("{name}{detail}").as_bytes()));
        if !matches!(is_nat, Outcome::Ok(true)) {
            viol(ctx, name, finding, json!({"family": fam, "op": name, "operands": detail}), "NaT".into(), format!("{is_nat:?}"));
        } else {
            ctx.traces += 1;
        }
    };
    for u in 0..4u8 {
        for d in &deltas {
            let d = *d;
            by_unit!(u, U => {
                one(ctx, "NaT datetime + duration", None, catch(|| (DateTime::<U>::nat() + d).is_nat()), format!("{} {d:?}", UNITS[u as usize]));
                one(ctx, "NaT datetime - duration", None, catch(|| (DateTime::<U>::nat() - d).is_nat()), format!("{} {d:?}", UNITS[u as usize]));
            });
        }
        for t in stamps {
            by_unit!(u, U => {
                let x = DateTime::<U>::new(t);
                one(ctx, "datetime + NaT duration", None, catch(|| (x + TimeDelta::nat()).is_nat()), format!("{} {t}", UNITS[u as usize]));
                one(ctx, "datetime - NaT duration", None, catch(|| (x - TimeDelta::nat()).is_nat()), format!("{} {t}", UNITS[u as usize]));
                one(ctx, "datetime - NaT datetime", None, catch(|| (x - DateTime::<U>::nat()).is_nat()), format!("{} {t}", UNITS[u as usize]));
                one(ctx, "NaT datetime - datetime", None, catch(|| (DateTime::<U>::nat() - x).is_nat()), format!("{} {t}", UNITS[u as usize]));
            });
        }
        by_unit!(u, U => one(ctx, "NaT datetime - NaT datetime", None, catch(|| (DateTime::<U>::nat() - DateTime::<U>::nat()).is_nat()), UNITS[u as usize].into()));
    }
    one(ctx, "-NaT duration", None, catch(|| (-TimeDelta::nat()).is_nat()), "".into());
    for d in &deltas {
        let d = *d;
        one(ctx, "NaT duration + duration", None, catch(|| (TimeDelta::nat() + d).is_nat()), format!("{d:?}"));
        one(ctx, "duration + NaT duration", None, catch(|| (d + TimeDelta::nat()).is_nat()), format!("{d:?}"));
        one(ctx, "NaT duration - duration", None, catch(|| (TimeDelta::nat() - d).is_nat()), format!("{d:?}"));
        one(ctx, "duration - NaT duration", None, catch(|| (d - TimeDelta::nat()).is_nat()), format!("{d:?}"));
        if d.months == 0 {
            // F23: Time::nat() +- duration is not NaT
            one(ctx, "NaT time + duration", Some("F23"), catch(|| (Time::nat() + d).is_nat()), format!("{d:?}"));
            one(ctx, "NaT time - duration", Some("F23"), catch(|| (Time::nat() - d).is_nat()), format!("{d:?}"));
        }
    }
    for k in [0, 1, -1, 7] {
        one(ctx, "NaT duration * k", None, catch(|| (TimeDelta::nat() * k).is_nat()), format!("{k}"));
    }
    for t in [0i64, 1, 43_200_000_000_000] {
        one(ctx, "time + NaT duration", None, catch(|| (Time(t) + TimeDelta::nat()).is_nat()), format!("{t}"));
        one(ctx, "time - NaT duration", None, catch(|| (Time(t) - TimeDelta::nat()).is_nat()), format!("{t}"));
    }
}

/// Second, independent engine (DESIGN 1.4 / 2.10): the same transition system handed to stateright's
/// breadth-first checker. A state carries a flag saying whether the transition that produced it agreed
/// with the reference model; the invariant is that the flag is always true. The number of unique states
/// must equal the number found by the explorer above.
#[derive(Clone)]
struct SrModel {
    roots: Vec<(u8, i64)>,
}
impl stateright::Model for SrModel {
    type State = (u8, i64, bool);
    type Action = u8;
    fn init_states(&self) -> Vec<Self::State> {
        self.roots.iter().map(|(u, v)| (*u, *v, true)).collect()
    }
    fn actions(&self, _s: &Self::State, actions: &mut Vec<u8>) {
        actions.extend(0..4u8);
    }
    fn next_state(&self, s: &Self::State, to: u8) -> Option<Self::State> {
        let want = conv_model(s.0, to, s.1);
        match (conv(s.0, to, s.1, false), want) {
            (Outcome::Ok(g), Ok(Some(w))) => Some((to, g, g == w)),
            (Outcome::Ok(g), Ok(None)) => {
                if g == NAT {
                    None // NaT is absorbing: no new state (the explorer does not follow it either)
                } else {
                    Some((to, g, false))
                }
            }
            (Outcome::Ok(g), Err(())) => {
                if g == NAT {
                    None
                } else {
                    Some((to, g, false))
                }
            }
            (Outcome::Panic(_), Err(())) => None,
            (Outcome::Panic(_), _) => Some((to, s.1, false)),
        }
    }
    fn properties(&self) -> Vec<stateright::Property<Self>> {
        vec![stateright::Property::always("every unit change agrees with the reference model", |_, s: &(u8, i64, bool)| s.2)]
    }
}

fn stateright_crosscheck(depth: usize) -> (usize, usize) {
    use stateright::{Checker, Model};
    let roots: Vec<(u8, i64)> = (0..4u8).flat_map(|u| lattice(u).into_iter().map(move |v| (u, v))).collect();
    let checker = SrModel { roots }.checker().threads(1).target_max_depth(depth + 1).spawn_bfs().join();
    (checker.unique_state_count(), checker.discoveries().len())
}

fn main() {
    let run = Run::from_args("C16");
    let depth = run.pick(2, 3);
    DENSE.store(!run.quick(), std::sync::atomic::Ordering::Relaxed);
    let mut ctx = Ctx::new();
    let n_roots: usize = (0..4u8).map(|u| lattice(u).len()).sum();
    if let Some(path) = &run.replay {
        let stored = load_replay(path).unwrap_or_else(|e| {
            eprintln!("MACHINERY-ERROR: {e}");
            std::process::exit(2)
        });
        let case = &stored["case"];
        if case["family"] == "absorbing" {
            absorbing(&mut ctx);
        } else if case["family"] == "polars-anyvalue" {
            anyvalue_bridge(&mut ctx);
        } else {
            let u = UNITS.iter().position(|x| Some(*x) == case["from"].as_str().or(case["unit"].as_str())).unwrap_or(3) as u8;
            check_state(&St { u, v: case["value"].as_i64().unwrap_or(0) }, &mut ctx);
        }
        std::process::exit(finish_replay(&run, &stored, ctx));
    }
    // the BFS proper: successor function runs the implementation; states are deduplicated on (unit, value)
    let mut seen = std::collections::HashSet::new();
    let mut frontier: std::collections::VecDeque<(St, usize)> = (0..4u8).flat_map(|u| lattice(u).into_iter().map(move |v| (St { u, v }, 0))).collect();
    for (s, _) in &frontier {
        seen.insert(s.clone());
    }
    while let Some((s, d)) = frontier.pop_front() {
        ctx.states += 1;
        let succ = check_state(&s, &mut ctx);
        if d >= depth {
            ctx.traces += 1;
            continue;
        }
        for n in succ {
            ctx.transitions += 1;
            if seen.insert(n.clone()) {
                frontier.push_back((n, d + 1));
            }
        }
    }
    absorbing(&mut ctx);
    anyvalue_bridge(&mut ctx);
    // cross-check with the second engine
    let explorer_states = seen.len();
    let (sr_states, sr_discoveries) = stateright_crosscheck(depth);
    let explorer_violations = ctx.buckets.keys().filter(|k| k.starts_with("into_unit") || k.starts_with("finer")).count();
    println!("stateright cross-check: unique states {sr_states} (explorer {explorer_states}), discoveries {sr_discoveries}");
    if explorer_violations == 0 && (sr_states != explorer_states || sr_discoveries != 0) {
        ctx.error(format!("engines disagree: explorer {explorer_states} states / 0 violations, stateright {sr_states} states / {sr_discoveries} discoveries"));
    }
    if explorer_violations > 0 && sr_discoveries == 0 {
        ctx.error("engines disagree: the explorer reports a unit-conversion violation that stateright does not find".into());
    }
    ctx.sample(json!({"state": {"unit": "ms", "value": -1500}, "actions": {"into_unit<s>": format!("{:?}", conv(1, 0, -1500, false)), "model": "-2 (floor, as chrono)"}}));
    ctx.sample(json!({"state": {"unit": "ns", "value": "NaT"}, "actions": {"into_unit<us>": format!("{:?}", conv(3, 2, NAT, false)), "model": "NaT"}}));
    let meta = Meta {
        rule: "finite lattice of (unit, timestamp) states: NaT, NaT+1, i64::MAX, 0, +-1, q*r+-rho for every unit ratio r (q small and near the range limits, rho around 0, r/2 and r), the first instant of every month 1678-01..2262-03 +-1 unit; search with dedup over chains of unit conversions (into_unit and the Cast impls) up to the stated depth, every state also checked for into_opt_i64, Cast<Option<i64>>, as_cr, From<chrono>, calendar fields against chrono; plus every operator of impl_ops.rs with a NaT operand. Oracle: floor division in i128 (= chrono's timestamp of the same instant), exact multiplication when it fits (overflow: panic or NaT), NaT -> NaT / None. Non-trivial = distinct (unit, value) states. Also (DESIGN 5.15, 5.16): Cast<Option<T>> for the seven other numeric targets and Cast<f32 / f64> in every state (null iff NaT); the deprecated to_cr and TryFrom<DateTime> for the calendar type next to as_cr. Round 11 (DESIGN 5.20): the naive calendar routes From<NaiveDateTime>, From<Option<NaiveDateTime>>, From<NaiveDate> (at midnight) in every state that has a calendar value: the same count as the zoned route.".into(),
        bounds: json!({"units": UNITS, "root_states": n_roots, "chain_depth": depth,
            "second_engine": {"tool": "stateright 0.31 spawn_bfs, 1 thread", "unique_states": sr_states, "explorer_unique_states": explorer_states, "discoveries": sr_discoveries}}),
        assumptions: vec!["chrono is the oracle for calendar facts".into(), "conversion to a finer unit that overflows i64: panic or NaT accepted (DESIGN 5.6)".into()],
        exhaustive: true,
        min_states: 1000,
    };
    std::process::exit(finish(&run, meta, ctx));
}
