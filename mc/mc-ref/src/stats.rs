//! Textbook two-pass statistics on a list of finite values. `None` = undefined.

pub fn sum(v: &[f64]) -> f64 {
    let mut s = 0.0;
    for x in v {
        s += *x;
    }
    s
}

pub fn mean(v: &[f64]) -> Option<f64> {
    if v.is_empty() {
        None
    } else {
        Some(sum(v) / v.len() as f64)
    }
}

/// central moment of order p divided by n
pub fn cmoment(v: &[f64], p: i32) -> Option<f64> {
    let m = mean(v)?;
    let mut s = 0.0;
    for x in v {
        s += (*x - m).powi(p);
    }
    Some(s / v.len() as f64)
}

/// sample variance (n-1)
pub fn var(v: &[f64]) -> Option<f64> {
    let n = v.len();
    if n < 2 {
        return None;
    }
    let m = mean(v)?;
    let mut s = 0.0;
    for x in v {
        s += (*x - m) * (*x - m);
    }
    Some(s / (n as f64 - 1.0))
}

pub fn std(v: &[f64]) -> Option<f64> {
    var(v).map(|x| x.sqrt())
}

pub fn is_constant(v: &[f64]) -> bool {
    v.iter().all(|x| *x == v[0])
}

/// adjusted Fisher-Pearson skewness; None if n < 3; constant => reported separately by callers
pub fn skew(v: &[f64]) -> Option<f64> {
    let n = v.len();
    if n < 3 || is_constant(v) {
        return None;
    }
    let nf = n as f64;
    let m2 = cmoment(v, 2)?;
    let m3 = cmoment(v, 3)?;
    Some((nf * (nf - 1.0)).sqrt() / (nf - 2.0) * m3 / m2.powf(1.5))
}

/// excess kurtosis with the usual small-sample adjustment; None if n < 4 or constant
pub fn kurt(v: &[f64]) -> Option<f64> {
    let n = v.len();
    if n < 4 || is_constant(v) {
        return None;
    }
    let nf = n as f64;
    let m2 = cmoment(v, 2)?;
    let m4 = cmoment(v, 4)?;
    Some((nf - 1.0) / ((nf - 2.0) * (nf - 3.0)) * ((nf + 1.0) * (m4 / (m2 * m2) - 3.0) + 6.0))
}

/// sample covariance of paired lists
pub fn cov(a: &[f64], b: &[f64]) -> Option<f64> {
    let n = a.len();
    if n < 2 || b.len() != n {
        return None;
    }
    let (ma, mb) = (mean(a)?, mean(b)?);
    let mut s = 0.0;
    for i in 0..n {
        s += (a[i] - ma) * (b[i] - mb);
    }
    Some(s / (n as f64 - 1.0))
}

/// Pearson correlation; None if n < 2 or a variance is zero
pub fn corr(a: &[f64], b: &[f64]) -> Option<f64> {
    let n = a.len();
    if n < 2 || b.len() != n || is_constant(a) || is_constant(b) {
        return None;
    }
    let c = cov(a, b)?;
    Some(c / (var(a)?.sqrt() * var(b)?.sqrt()))
}

/// OLS of y on x: (alpha, beta); None if n < 2 or x constant
pub fn ols(y: &[f64], x: &[f64]) -> Option<(f64, f64)> {
    let n = y.len();
    if n < 2 || x.len() != n || is_constant(x) {
        return None;
    }
    let (mx, my) = (mean(x)?, mean(y)?);
    let (mut sxy, mut sxx) = (0.0, 0.0);
    for i in 0..n {
        sxy += (x[i] - mx) * (y[i] - my);
        sxx += (x[i] - mx) * (x[i] - mx);
    }
    let beta = sxy / sxx;
    Some((my - beta * mx, beta))
}

pub fn residuals(y: &[f64], x: &[f64], alpha: f64, beta: f64) -> Vec<f64> {
    (0..y.len()).map(|i| y[i] - alpha - beta * x[i]).collect()
}

/// generalised binomial coefficient C(d, k) by the product formula
pub fn binom(d: f64, k: usize) -> f64 {
    let mut c = 1.0;
    for j in 1..=k {
        c *= (d - j as f64 + 1.0) / j as f64;
    }
    c
}

#[cfg(test)]
mod tests {
    use super::*;
    #[test]
    fn golden() {
        // fdiff_coef(0.5, 4) = [-0.0625, -0.125, -0.5, 1] (repository test)
        let c: Vec<f64> = (0..4).rev().map(|k| binom(0.5, k) * if k % 2 == 0 { 1.0 } else { -1.0 }).collect();
        for (a, b) in c.iter().zip([-0.0625, -0.125, -0.5, 1.0]) {
            assert!((a - b).abs() < 1e-14);
        }
        assert!((var(&[1.0, 2.0, 3.0, 4.0]).unwrap() - 1.6666666666666667).abs() < 1e-12);
        // scipy.stats.skew([1,2,3,10], bias=False), kurtosis(bias=False), numpy.corrcoef
        assert!((skew(&[1.0, 2.0, 3.0, 10.0]).unwrap() - 1.763_632_614_803_888).abs() < 1e-9);
        assert!((kurt(&[1.0, 2.0, 3.0, 10.0]).unwrap() - 3.228_000_000_000_001_5).abs() < 1e-9);
        assert!((corr(&[1.0, 5.0, 3.0], &[2.0, 5.0, 4.0]).unwrap() - 0.981_980_506_061_965_6).abs() < 1e-9);
        let (a, b) = ols(&[1.0, 3.0, 5.0], &[0.0, 1.0, 2.0]).unwrap();
        assert!((a - 1.0).abs() < 1e-12 && (b - 2.0).abs() < 1e-12);
    }
}
