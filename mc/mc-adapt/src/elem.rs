//! Element encodings (DESIGN 3.4) and decoding of output containers into cells.
use mc_core::Cell;
use std::collections::VecDeque;

pub type X = Option<f64>;

/// An element type a logical word can be encoded into / decoded from.
pub trait Elem: Clone + Send + Sync + 'static {
    const NAME: &'static str;
    /// the type has a null value (NaN / None)
    const NULLABLE: bool;
    /// only integral values are representable
    const INTEGER: bool;
    fn enc(x: X) -> Self;
    fn dec(&self) -> Cell;
}

thread_local! {
    static NAN_KIND: std::cell::Cell<u8> = const { std::cell::Cell::new(0) };
    static NAN_CALLS: std::cell::Cell<u64> = const { std::cell::Cell::new(0) };
}
/// Which NaN a null of a float encoding is written as (DESIGN 5.4): 0 = the constant `NAN` (positive, quiet,
/// no payload); 1 = the NaN x86-64 arithmetic produces at run time (`0.0/0.0`: sign bit set); 2 = a positive
/// NaN with a payload; 3 = alternating between 1 and 0 from null to null. All of them are "NaN", i.e. the same null.
pub fn with_nan_kind<R>(kind: u8, f: impl FnOnce() -> R) -> R {
    struct Reset(u8);
    impl Drop for Reset {
        fn drop(&mut self) {
            NAN_KIND.with(|k| k.set(self.0));
        }
    }
    let _r = Reset(NAN_KIND.with(|k| k.replace(kind)));
    NAN_CALLS.with(|c| c.set(0));
    f()
}
pub fn nan_kind() -> u8 {
    NAN_KIND.with(|k| k.get())
}
fn nan_bits64() -> u64 {
    match nan_kind() {
        0 => f64::NAN.to_bits(),
        1 => 0xFFF8_0000_0000_0000,
        2 => 0x7FF8_0000_0000_0ABC,
        _ => {
            let n = NAN_CALLS.with(|c| c.replace(c.get() + 1));
            if n % 2 == 0 {
                0xFFF8_0000_0000_0000
            } else {
                f64::NAN.to_bits()
            }
        }
    }
}
trait NanOf {
    fn null_nan() -> Self;
}
impl NanOf for f64 {
    fn null_nan() -> f64 {
        f64::from_bits(nan_bits64())
    }
}
impl NanOf for f32 {
    fn null_nan() -> f32 {
        let b = nan_bits64();
        // same sign, quiet bit, low payload bits
        f32::from_bits((((b >> 63) as u32) << 31) | 0x7FC0_0000 | (b as u32 & 0xFFF))
    }
}

macro_rules! elem_float {
    ($t:ty, $n:expr) => {
        impl Elem for $t {
            const NAME: &'static str = $n;
            const NULLABLE: bool = true;
            const INTEGER: bool = false;
            fn enc(x: X) -> Self {
                match x {
                    Some(v) => v as $t,
                    None => <$t as NanOf>::null_nan(),
                }
            }
            fn dec(&self) -> Cell {
                Cell::f(*self as f64)
            }
        }
        impl Elem for Option<$t> {
            const NAME: &'static str = concat!("Option<", $n, ">");
            const NULLABLE: bool = true;
            const INTEGER: bool = false;
            fn enc(x: X) -> Self {
                x.map(|v| v as $t)
            }
            fn dec(&self) -> Cell {
                match self {
                    // canonical nulls only are generated; an observed Some(NaN) is reported as null
                    Some(v) => Cell::f(*v as f64),
                    None => Cell::Null,
                }
            }
        }
    };
}
elem_float!(f64, "f64");
elem_float!(f32, "f32");

macro_rules! elem_int {
    ($t:ty, $n:expr) => {
        impl Elem for $t {
            const NAME: &'static str = $n;
            const NULLABLE: bool = false;
            const INTEGER: bool = true;
            fn enc(x: X) -> Self {
                x.expect("null encoded into a non-nullable type") as $t
            }
            fn dec(&self) -> Cell {
                Cell::I(*self as i64)
            }
        }
        impl Elem for Option<$t> {
            const NAME: &'static str = concat!("Option<", $n, ">");
            const NULLABLE: bool = true;
            const INTEGER: bool = true;
            fn enc(x: X) -> Self {
                x.map(|v| v as $t)
            }
            fn dec(&self) -> Cell {
                match self {
                    Some(v) => Cell::I(*v as i64),
                    None => Cell::Null,
                }
            }
        }
    };
}
elem_int!(i32, "i32");
elem_int!(i64, "i64");
elem_int!(usize, "usize");
elem_int!(u64, "u64");

impl Elem for bool {
    const NAME: &'static str = "bool";
    const NULLABLE: bool = false;
    const INTEGER: bool = true;
    fn enc(x: X) -> Self {
        x.unwrap() != 0.0
    }
    fn dec(&self) -> Cell {
        Cell::B(*self)
    }
}
impl Elem for Option<bool> {
    const NAME: &'static str = "Option<bool>";
    const NULLABLE: bool = true;
    const INTEGER: bool = true;
    fn enc(x: X) -> Self {
        x.map(|v| v != 0.0)
    }
    fn dec(&self) -> Cell {
        match self {
            Some(b) => Cell::B(*b),
            None => Cell::Null,
        }
    }
}

/// can this logical word be encoded into T?
pub fn encodable<T: Elem>(word: &[X]) -> bool {
    word.iter().all(|x| match x {
        None => T::NULLABLE,
        Some(v) => !T::INTEGER || v.fract() == 0.0,
    })
}

pub fn enc_vec<T: Elem>(word: &[X]) -> Vec<T> {
    word.iter().map(|x| T::enc(*x)).collect()
}

/// Decoding of a finished output container by plain std iteration (not through tevec's traits).
pub trait OutCells {
    fn cells(&self) -> Vec<Cell>;
}
impl<T: Elem> OutCells for Vec<T> {
    fn cells(&self) -> Vec<Cell> {
        self.iter().map(|x| x.dec()).collect()
    }
}
impl<T: Elem> OutCells for VecDeque<T> {
    fn cells(&self) -> Vec<Cell> {
        self.iter().map(|x| x.dec()).collect()
    }
}
impl<T: Elem> OutCells for ndarray::Array1<T> {
    fn cells(&self) -> Vec<Cell> {
        self.iter().map(|x| x.dec()).collect()
    }
}
macro_rules! out_ca {
    ($pt:ty, $t:ty) => {
        impl OutCells for polars::prelude::ChunkedArray<$pt> {
            fn cells(&self) -> Vec<Cell> {
                self.into_iter().map(|x: Option<$t>| x.dec()).collect()
            }
        }
    };
}
out_ca!(polars::prelude::Float64Type, f64);
out_ca!(polars::prelude::Float32Type, f32);
out_ca!(polars::prelude::Int32Type, i32);
out_ca!(polars::prelude::Int64Type, i64);

/// triples produced by ts_vregx_all
impl<T: Elem> OutCells for Vec<(T, T, T)> {
    fn cells(&self) -> Vec<Cell> {
        self.iter().flat_map(|(a, b, c)| [a.dec(), b.dec(), c.dec()]).collect()
    }
}

/// (defined here, outside the tevec prelude, which shadows Iterator::any/all/sum/max/count)
pub fn has_null(x: &[X]) -> bool {
    x.iter().any(|v| v.is_none())
}
