#!/usr/bin/env python3
"""Generates /verif/MANIFEST.json from the table below (kept in one place so it stays valid)."""
import json, sys

COMMON_NOTE = "Bounded scope (lengths, alphabets, parameter bands as recorded in the evidence file); the reference models in mc-ref are trusted (they are independent two-pass / scan / sort formulations with golden tests); finite exact inputs (DESIGN 3.1, 5.2); checked build profile (DESIGN 2.2)."
CLAIMED = {
 "C01": dict(ref="DESIGN 4 C01", tech="exhaustive history-tree exploration (DFS, no state merging) of the real rolling kernels against a from-scratch reference model; de Bruijn long traces",
   text="Every word over a 5/6-letter exact value alphabet up to length 6-8, every window 1..=len+2, every min_periods, 18 entry points, 22 element-type pairs, both output paths: each output position equals the statistic recomputed from its window by an independent two-pass model. de Bruijn traces cover drift after thousands of add/remove steps."),
 "C02": dict(ref="DESIGN 4 C02", tech="explicit-state protocol model of the callback protocol + trace conformance: every (driver, back end, output, path, len, w) run is replayed against the model event by event",
   text="All 12 driver bodies on every input back-end configuration (ring offsets, strides, chunkings), every output container and path, len 0..=7, w 1..=len+3: the recorded callback trace conforms to the 3-variable protocol machine and out[i] is the result of call i."),
 "C03": dict(ref="DESIGN 4 C03", tech="exhaustive history-tree exploration over a tie-heavy alphabet, all order types (permutations with nulls), extreme values; exact comparison with a window scan",
   text="Rolling min/max/arg/rank compared exactly, normalisations within 1e-9, at every position of every explored history, window and min_periods; includes every relative order of up to 7 distinct values (worst case for extreme expiry) and long de Bruijn traces."),
 "C04": dict(ref="DESIGN 4 C04", tech="exhaustive pair-history-tree exploration against per-window OLS / covariance recomputed from the pairwise-complete observations; collinear family",
   text="All words over 16 pair symbols up to length 4-5 and single-series trees for the trend family, every window 2..=len+2 and min_periods: covariance, correlation, 6 regression-on-x and 5 trend statistics equal the from-scratch model; perfect linear windows have zero residual."),
 "C05": dict(ref="DESIGN 4 C05", tech="exhaustive history-tree exploration of the null-mask law (exact boolean oracle) over all rolling entry points and all input back ends",
   text="For every null pattern up to length 6-8, every window 1..=len+3, every min_periods (explicit and omitted) and all ~45 entry points: one output per input, no panic, and output null exactly when the valid count is below max(min_periods, intrinsic minimum) or the statistic is undefined; short words on every back end incl. empty input."),
 "C06": dict(ref="DESIGN 4 C06", tech="exhaustive exploration of the parent/child relation of the history tree (prefix law bit-for-bit on every edge) and of all (pre-history, window) pairs",
   text="Every edge of the history trees: f(child)[..len-1] == f(parent) bit for bit for all rolling entry points, windows, min_periods and positive-lag shift/diff/pct; every window word with every finite pre-history gives the same last output (exact for min/max/arg/rank)."),
}
for _k in CLAIMED: CLAIMED[_k].setdefault("note", COMMON_NOTE)

REASONS_PENDING = "check not built yet in this commit (planned, see DESIGN.md section 4)"

def main():
    props = [json.loads(l)["id"] for l in open("/verif/properties.jsonl")]
    checks = []
    for pid in props:
        if pid not in CLAIMED: continue
        c = CLAIMED[pid]
        checks.append({
            "property_id": pid,
            "quick_cmd": f"./check {pid} quick",
            "thorough_cmd": f"./check {pid} thorough",
            "evidence_file": f"/verif/evidence/{pid}.json",
            "replay_cmd_template": f"./check {pid} --replay {{path}}",
            "engine": "mc-explorer",
            "level_claimed": {"category": "model_checking", "text": c["text"], "design_ref": c["ref"]},
            "level_note": c["note"],
            "technique": c["tech"],
        })
    na = [{"property_id": p, "reason": REASONS_PENDING} for p in props if p not in CLAIMED]
    m = {
        "version": 1,
        "setup_cmd": "./setup.sh",
        "hooks": {
            "guard": "--cfg tevec_verif (reserved, unused: all instrumentation lives in the harness via tevec's public traits)",
            "enable": "none needed; checks build /repo as a path dependency with features ndarray,vecdeque,fdiff,polars in the checked profile (opt-level 2, overflow-checks, debug-assertions)",
            "baseline_off_cmd": "cd /repo && cargo test --workspace --no-fail-fast --offline",
            "source_commits": [],
            "add_only": True,
        },
        "engines": [
            {"name": "mc-explorer", "path": "/verif/mc", "serves_properties": sorted(CLAIMED),
             "kind_free_text": "purpose-built deterministic explicit-state explorer in Rust (mc-core): DFS over history trees without state merging, product enumeration, BFS with dedup over action chains; reference models in mc-ref (no tevec dependency); adapters in mc-adapt; one binary per property in mc-checks"},
        ],
        "checks": checks,
        "not_applicable": na,
        "notes": "Exit codes: 0 held (KNOWN-FINDING lines allowed), 1 VIOLATION, >=2 machinery error (no verdict). Known findings: /verif/known-findings.json.",
    }
    json.dump(m, open("/verif/MANIFEST.json", "w"), indent=1)
    try:
        import jsonschema
        jsonschema.validate(m, json.load(open("/root/.vp/MANIFEST.schema.json")))
        print("MANIFEST.json valid;", len(checks), "checks,", len(na), "not_applicable")
    except ImportError:
        print("written (jsonschema not importable here)")

main()
