//! C08 — NaN and None are the same null, and nulls are transparent to valid aggregations.
use mc_adapt::aggs::*;
use mc_adapt::maps::*;
use mc_adapt::roll::*;
use mc_checks::rollcheck::*;
use mc_checks::*;
use mc_ref::agg::AggOp;
use mc_ref::order::{PMethod, QMethod, QMETHODS};

/// the option view `.opt()` of the float-encoded vector as a third encoding of the same series
mod optview {
    use mc_adapt::roll::*;
    use mc_checks::*;
    use tevec::prelude::*;
    pub fn roll(f: R1, x: &[X], w: usize, mp: Option<usize>, path: Path) -> Outcome<Vec<Cell>> {
        let v: Vec<f64> = enc_vec(x);
        catch(|| {
            let view = v.opt();
            call_v1::<_, Option<f64>, Vec<f64>, f64>(f, &view, w, mp, path).cells()
        })
    }
    pub fn rank(x: &[X], pct: bool, rev: bool) -> Outcome<Vec<Cell>> {
        let v: Vec<f64> = enc_vec(x);
        catch(|| {
            let view = v.opt();
            view.vrank::<Vec<f64>, f64>(pct, rev).cells()
        })
    }
}

fn viol(ctx: &mut Ctx, entry: String, finding: Option<&str>, size: usize, case: Value, expected: String, got: String) {
    ctx.violation(Violation { entry, finding: finding.map(|s| s.into()), size, case, expected, got });
}

fn same_outcome(a: &Outcome<Vec<Cell>>, b: &Outcome<Vec<Cell>>) -> bool {
    match (a, b) {
        (Outcome::Ok(x), Outcome::Ok(y)) => cells_eq(x, y, exact_eq),
        (Outcome::Panic(_), Outcome::Panic(_)) => true, // the same documented / known panic under both encodings
        _ => false,
    }
}

fn roll_fns() -> Vec<R1> {
    let mut v = V1_FEATURE.to_vec();
    v.extend(V1_CMP);
    v.extend(V1_NORM);
    v.extend(V1_REG);
    v.push(R1::Fdiff(0.5));
    v
}

fn map_ops(len: usize, alpha: &[X]) -> Vec<MapOp> {
    let l = len as i32;
    let mut v = vec![];
    for n in [-l - 1, -l, -1, 0, 1, l, l + 1] {
        v.push(MapOp::VShift(n, None));
        v.push(MapOp::VShift(n, Some(Some(7.0))));
        v.push(MapOp::VPct(n));
        if (n.unsigned_abs() as usize) <= len {
            v.push(MapOp::Shift(n, None));
        }
    }
    v.extend([MapOp::Ffill(None), MapOp::Ffill(Some(Some(7.0))), MapOp::Bfill(None), MapOp::Bfill(Some(Some(7.0))), MapOp::Fill(Some(7.0)), MapOp::FillMask0(None), MapOp::FfillMask0(None), MapOp::VAbs]);
    for lo in alpha.iter().take(3) {
        for hi in alpha.iter().take(3) {
            v.push(MapOp::VClip(*lo, *hi));
        }
    }
    for pct in [false, true] {
        for rev in [false, true] {
            v.push(MapOp::VRank(pct, rev));
        }
    }
    for k in 0..=len + 1 {
        v.push(MapOp::VPartition(k, true, false));
        v.push(MapOp::VPartition(k, true, true));
        v.push(MapOp::VArgPartition(k, true, false));
    }
    v
}

fn agg_ops(len: usize, alpha: &[X]) -> Vec<AggOp> {
    use AggOp::*;
    let mut v = vec![CountValid, CountNone, VFirst, VLast, VSum, VMean, VMax, VMin, VArgmax, VArgmin];
    for t in alpha {
        v.push(VCountValue(*t));
    }
    for mp in [0, 1, 2, len] {
        v.extend([VMeanVar(mp), VVar(mp), VStd(mp), VSkew(mp), VKurt(mp)]);
    }
    v
}

/// (a) the encoding relation on one word
fn check_encodings(word: &[u8], alpha: &[X], ctx: &mut Ctx) {
    let x = decode(word, alpha);
    check_encodings_x("encodings", word, x, alpha, ctx)
}

/// the encoding relation on long structured series with null blocks / periodic nulls (DESIGN 5.14)
fn encodings_long(thorough: bool, threads: usize, alpha: &[X]) -> Ctx {
    let lens: Vec<usize> = if thorough { vec![24, 40, 70] } else { vec![24] };
    let mut items: Vec<(String, Vec<X>)> = vec![];
    for len in lens {
        items.extend(structured_shapes(len, true).into_iter().filter(|(_, x)| x.iter().any(|v| v.is_none())));
    }
    par_items(&items, threads, |(_label, x), ctx| {
        ctx.states += 1;
        ctx.transitions += 1;
        check_encodings_x("encodings-long", &[], x.clone(), alpha, ctx)
    })
}

fn check_encodings_x(fam: &str, word: &[u8], x: Vec<X>, alpha: &[X], ctx: &mut Ctx) {
    let len = x.len();
    ctx.fam(fam).states += 1;
    if x.iter().any(|v| v.is_none()) {
        ctx.nontrivial(fam, mix(hash_bytes(word), hash_u64s(&x.iter().map(|v| v.map_or(7, |a| a.to_bits())).collect::<Vec<_>>())));
    }
    // rolling: groups of instantiations that must agree after decoding
    let groups: Vec<Vec<Ty1>> = vec![
        vec![ty_v1::<f64, f64>(), ty_v1::<Option<f64>, f64>(), ty_v1::<f64, Option<f64>>(), ty_v1::<Option<f64>, Option<f64>>()],
        vec![ty_v1::<f64, f32>(), ty_v1::<Option<f64>, f32>()],
        vec![ty_v1::<f64, Option<i32>>(), ty_v1::<Option<f64>, Option<i32>>()],
    ];
    for w in 1..=len + 1 {
        for mp in [None, Some(0), Some(1), Some(w)] {
            for &f in &roll_fns() {
                if !cfg_cmp(f, len, w, mp) {
                    continue;
                }
                for g in &groups {
                    if matches!(f, R1::Min | R1::Max) && g[0].kind == OutKind::Int {
                        // Option<i32> output of min/max exists; keep
                    }
                    let base = match (g[0].run)(f, &x, w, mp, Path::Ret) {
                        Some(o) => o,
                        None => continue,
                    };
                    ctx.eval(fam, outcome_hash(&base));
                    if g[0].kind == OutKind::F64 && !matches!(f, R1::Fdiff(_)) {
                        // the option view: iterated (returned form) and indexed (caller-buffer form, look-back kernels)
                        for path in [Path::Ret, Path::Buf] {
                            let o = optview::roll(f, &x, w, mp, path);
                            ctx.evals += 1;
                            ctx.transitions += 1;
                            if !same_outcome(&base, &o) {
                                viol(ctx, format!("encoding:{}", r1_name(f, true)), None, len * 100 + w, json!({"family": fam, "word": word, "series": json_word(&x), "w": w, "mp": mp_json(mp), "a": g[0].name, "b": format!("opt() view of Vec<f64>, {path:?}")}), show_outcome(&base), show_outcome(&o));
                            }
                        }
                    }
                    for ty in &g[1..] {
                        let o = match (ty.run)(f, &x, w, mp, Path::Ret) {
                            Some(o) => o,
                            None => continue,
                        };
                        ctx.evals += 1;
                        ctx.transitions += 1;
                        if !same_outcome(&base, &o) {
                            viol(ctx, format!("encoding:{}", r1_name(f, true)), None, len * 100 + w, json!({"family": fam, "word": word, "series": json_word(&x), "w": w, "mp": mp_json(mp), "a": g[0].name, "b": ty.name}), show_outcome(&base), show_outcome(&o));
                        }
                    }
                }
            }
        }
    }
    // mapping operations
    let v64: Vec<f64> = enc_vec(&x);
    let vop: Vec<Option<f64>> = enc_vec(&x);
    for op in map_ops(len, alpha) {
        let a = run_map_any::<Vec<f64>, f64>(&op, &v64);
        let b = run_map_any::<Vec<Option<f64>>, Option<f64>>(&op, &vop);
        if let (Some(a), Some(b)) = (a, b) {
            let (a, b) = (strip(a), strip(b));
            ctx.eval(fam, outcome_hash(&a));
            ctx.transitions += 1;
            if !same_outcome(&a, &b) {
                viol(ctx, format!("encoding:{}", op.name()), None, len * 100, json!({"family": fam, "word": word, "series": json_word(&x), "op": op.show()}), show_outcome(&a), show_outcome(&b));
            }
        }
    }
    // whole-series ranks on the option view (indexed access)
    for pct in [false, true] {
        for rev in [false, true] {
            let op = MapOp::VRank(pct, rev);
            if let Some(a) = run_map_any::<Vec<f64>, f64>(&op, &v64) {
                let (a, b) = (strip(a), optview::rank(&x, pct, rev));
                ctx.transitions += 1;
                if !same_outcome(&a, &b) {
                    viol(ctx, format!("encoding:{}", op.name()), None, len * 100, json!({"family": fam, "word": word, "series": json_word(&x), "op": op.show(), "b": "opt() view of Vec<f64>"}), show_outcome(&a), show_outcome(&b));
                }
            }
        }
    }
    // aggregations, every source
    for op in agg_ops(len, alpha) {
        let mut outs = vec![];
        for src in [Source::Owned, Source::TIter, Source::OptView] {
            if let Some(o) = run_agg_valid::<f64>(op, &x, &[], src) {
                outs.push((format!("f64/{src:?}"), o));
            }
            if let Some(o) = run_agg_valid::<Option<f64>>(op, &x, &[], src) {
                outs.push((format!("Option<f64>/{src:?}"), o));
            }
        }
        ctx.eval(fam, outcome_hash(&outs[0].1));
        for (n, o) in &outs[1..] {
            ctx.transitions += 1;
            ctx.evals += 1;
            if !same_outcome(&outs[0].1, o) {
                viol(ctx, format!("encoding:{}", op.name()), None, len * 100, json!({"family": fam, "word": word, "series": json_word(&x), "op": format!("{op:?}"), "a": outs[0].0, "b": n}), show_outcome(&outs[0].1), show_outcome(o));
            }
        }
    }
    // the null-skipping fold primitives every aggregation is built from (IterBasic): what they visit
    let mut ys: Vec<Vec<X>> = vec![x.iter().rev().cloned().collect()];
    if len > 1 {
        let mut r = x.clone();
        r.rotate_left(1);
        ys.push(r);
    }
    for y in &ys {
        let valid: Vec<Cell> = x.iter().filter_map(|v| v.map(Cell::f)).collect();
        let sep = Cell::S("|".into());
        let mut exp: Vec<Cell> = valid.clone();
        exp.push(sep.clone());
        exp.push(Cell::I(valid.len() as i64));
        exp.extend(valid.clone());
        exp.push(sep.clone());
        exp.extend(valid.clone());
        exp.push(sep.clone());
        exp.push(Cell::I(valid.len() as i64));
        exp.extend(valid.clone());
        exp.push(sep);
        for (a, b) in x.iter().zip(y.iter()) {
            if let (Some(a), Some(b)) = (a, b) {
                exp.push(Cell::f(*a));
                exp.push(Cell::f(*b));
            }
        }
        let runs = [
            ("f64", run_fold_prims::<f64>(&x, y)),
            ("Option<f64>", run_fold_prims::<Option<f64>>(&x, y)),
            ("f32", run_fold_prims::<f32>(&x, y)),
            ("Option<i32>", run_fold_prims::<Option<i32>>(&x, y)),
            ("i64", run_fold_prims::<i64>(&x, y)),
        ];
        for (name, o) in runs {
            let Some(o) = o else { continue };
            ctx.eval(fam, outcome_hash(&o));
            ctx.transitions += 1;
            let ok = matches!(&o, Outcome::Ok(c) if cells_eq(c, &exp, exact_eq));
            if !ok {
                viol(ctx, "fold-primitives(vfold,vfold_n,vapply,vapply_n,vfold2)".into(), None, len * 100, json!({"family": fam, "word": word, "series": json_word(&x), "second": json_word(y), "elem": name}), show_cells(&exp), show_outcome(&o));
            }
        }
    }
    for q in [0.0, 0.25, 0.5, 0.9, 1.0] {
        for m in QMETHODS {
            let a = run_quantile::<Vec<f64>, f64>(&v64, q, m);
            let b = run_quantile::<Vec<Option<f64>>, Option<f64>>(&vop, q, m);
            ctx.evals += 2;
            let same = match (&a, &b) {
                (Outcome::Ok(x), Outcome::Ok(y)) => exact_eq(x, y),
                (Outcome::Panic(_), Outcome::Panic(_)) => true,
                _ => false,
            };
            if !same {
                viol(ctx, "encoding:vquantile".into(), None, len * 100, json!({"family": fam, "word": word, "series": json_word(&x), "q": q, "method": format!("{m:?}")}), format!("{a:?}"), format!("{b:?}"));
            }
        }
    }
}

/// null transparency of the rolling statistics that do not depend on positions: the output at position i equals the
/// statistic of the window with its nulls deleted (run with the same window parameter, so that nothing expires)
fn check_rolling_transparency(word: &[u8], alpha: &[X], ctx: &mut Ctx) {
    let fam = "rolling-transparency";
    let x = decode(word, alpha);
    let len = x.len();
    ctx.fam(fam).states += 1;
    if x.iter().any(|v| v.is_none()) {
        ctx.nontrivial(fam, hash_bytes(word));
    } else {
        return;
    }
    // the rank of the newest element is a statistic of the window's valid elements too (all four flag
    // combinations; judged where the newest element is valid; seed round 10)
    let fns = [
        R1::Sum, R1::Mean, R1::Ewm, R1::Wma, R1::Std, R1::Var, R1::Skew, R1::Kurt, R1::Min, R1::Max,
        R1::Rank { pct: false, rev: false }, R1::Rank { pct: true, rev: false }, R1::Rank { pct: false, rev: true }, R1::Rank { pct: true, rev: true },
        // the normalisations of the newest element by the window's extremes / moments (round 11)
        R1::Minmax, R1::Zscore,
    ];
    for ty in [ty_v1::<f64, f64>(), ty_v1::<Option<f64>, f64>()] {
        for w in 1..=len + 1 {
            for &f in &fns {
                let full = match (ty.run)(f, &x, w, Some(0), Path::Ret) {
                    Some(Outcome::Ok(c)) => c,
                    _ => continue, // panics and non-existent cells are judged by C01 / C05
                };
                ctx.eval(fam, hash_cells(&full));
                for i in 0..len {
                    let lo = (i + 1).saturating_sub(w);
                    let compact: Vec<X> = x[lo..=i].iter().filter(|v| v.is_some()).cloned().collect();
                    if compact.len() == i + 1 - lo {
                        continue; // no null in this window
                    }
                    ctx.transitions += 1;
                    if compact.is_empty() {
                        continue; // a window of nothing but nulls: the value of an empty window is C01's / C05's subject
                    }
                    if matches!(f, R1::Rank { .. } | R1::Minmax | R1::Zscore) && x[i].is_none() {
                        continue; // the rank of a null is a null (C03)
                    }
                    let want = match (ty.run)(f, &compact, w, Some(0), Path::Ret) {
                        Some(Outcome::Ok(c)) => c.last().cloned().unwrap_or(Cell::Null),
                        _ => continue,
                    };
                    let same = if matches!(f, R1::Min | R1::Max | R1::Sum | R1::Rank { .. }) { exact_eq(&full[i], &want) } else { tol_eq(&full[i], &want) };
                    if !same {
                        viol(ctx, format!("rolling-transparency:{}", r1_name(f, true)), None, len * 100 + w, json!({"family": fam, "word": word, "series": json_word(&x), "w": w, "pos": i, "ty": ty.name, "window_without_nulls": json_word(&compact)}), format!("as on the window with its nulls deleted: {}", want.show()), full[i].show());
                    }
                }
            }
        }
    }
}

fn strip(o: Outcome<Drained>) -> Outcome<Vec<Cell>> {
    match o {
        Outcome::Ok(d) => Outcome::Ok(d.cells),
        Outcome::Panic(m) => Outcome::Panic(m),
    }
}

/// insert nulls into `base` at the gaps given (non-decreasing gap indices)
fn insert_nulls(base: &[X], gaps: &[usize]) -> Vec<X> {
    let mut out = vec![];
    let mut g = 0;
    for i in 0..=base.len() {
        while g < gaps.len() && gaps[g] == i {
            out.push(None);
            g += 1;
        }
        if i < base.len() {
            out.push(base[i]);
        }
    }
    out
}

/// (b) null transparency on one null-free base word
fn check_transparency(word: &[u8], alpha: &[X], max_nulls: usize, ctx: &mut Ctx) {
    check_transparency_fam("transparency", word, alpha, max_nulls, ctx)
}
fn check_transparency_fam(fam: &str, word: &[u8], alpha: &[X], max_nulls: usize, ctx: &mut Ctx) {
    let base = decode(word, alpha);
    let len = base.len();
    ctx.fam(fam).states += 1;
    ctx.nontrivial(fam, hash_bytes(word));
    use AggOp::*;
    let mut ops = vec![CountValid, VSum, VMean, VMin, VMax, VFirst, VLast];
    for mp in [0, 1, 2] {
        ops.extend([VVar(mp), VStd(mp), VSkew(mp), VKurt(mp), VMeanVar(mp)]);
    }
    let base64: Vec<f64> = enc_vec(&base);
    for k in 1..=max_nulls {
        for gaps in insertion_patterns(len, k) {
            let ext = insert_nulls(&base, &gaps);
            ctx.transitions += 1;
            for &op in &ops {
                for enc in 0..2 {
                    let run = if enc == 0 { run_agg_valid::<f64> } else { run_agg_valid::<Option<f64>> };
                    let a = run(op, &base, &[], Source::TIter).unwrap();
                    let b = run(op, &ext, &[], Source::TIter).unwrap();
                    ctx.eval(fam, outcome_hash(&b));
                    if !same_outcome(&a, &b) {
                        viol(ctx, format!("transparency:{}", op.name()), None, ext.len() * 100, json!({"family": fam, "word": word, "base": json_word(&base), "with_nulls": json_word(&ext), "op": format!("{op:?}"), "encoding": enc}), show_outcome(&a), show_outcome(&b));
                    }
                }
            }
            // count_none grows by the number inserted
            let cn = run_agg_valid::<f64>(CountNone, &ext, &[], Source::TIter).unwrap();
            if !matches!(&cn, Outcome::Ok(c) if c.len() == 1 && c[0].num() == Some(k as f64)) {
                viol(ctx, "transparency:count_none".into(), None, ext.len() * 100, json!({"family": fam, "word": word, "with_nulls": json_word(&ext)}), format!("{k}"), show_outcome(&cn));
            }
            // order statistics
            let e64: Vec<f64> = enc_vec(&ext);
            let eop: Vec<Option<f64>> = enc_vec(&ext);
            // ranks (absolute and percentile, both directions): a valid element keeps the rank it has in the
            // null-free base, an inserted null is ranked null
            for pct in [false, true] {
                for rev in [false, true] {
                    let op = MapOp::VRank(pct, rev);
                    let base_r = run_map_any::<Vec<f64>, f64>(&op, &base64).map(strip);
                    for (ename, got) in [("f64", run_map_any::<Vec<f64>, f64>(&op, &e64).map(strip)), ("Option<f64>", run_map_any::<Vec<Option<f64>>, Option<f64>>(&op, &eop).map(strip))] {
                        let (Some(Outcome::Ok(b)), Some(got)) = (&base_r, got) else { continue };
                        ctx.evals += 1;
                        let mut want: Vec<Cell> = vec![];
                        let mut it = b.iter();
                        for v in &ext {
                            want.push(if v.is_some() { it.next().cloned().unwrap_or(Cell::Null) } else { Cell::Null });
                        }
                        if !matches!(&got, Outcome::Ok(g) if cells_eq(g, &want, exact_eq)) {
                            viol(ctx, format!("transparency:{}", op.name()), None, ext.len() * 100, json!({"family": fam, "word": word, "base": json_word(&base), "with_nulls": json_word(&ext), "elem": ename}), show_cells(&want), show_outcome(&got));
                        }
                    }
                }
            }
            for q in [0.0, 0.1, 0.25, 1.0 / 3.0, 0.5, 0.75, 1.0] {
                for m in QMETHODS {
                    let a = run_quantile::<Vec<f64>, f64>(&base64, q, m);
                    for (ename, b) in [("f64", run_quantile::<Vec<f64>, f64>(&e64, q, m)), ("Option<f64>", run_quantile::<Vec<Option<f64>>, Option<f64>>(&eop, q, m))] {
                        ctx.evals += 1;
                        let same = matches!((&a, &b), (Outcome::Ok(x), Outcome::Ok(y)) if exact_eq(x, y));
                        if !same {
                            // F09: the single valid element is not in first position
                            let f09 = len == 1 && ext[0].is_none();
                            viol(ctx, "transparency:vquantile".into(), if f09 { Some("F09") } else { None }, ext.len() * 100, json!({"family": fam, "word": word, "base": json_word(&base), "with_nulls": json_word(&ext), "q": q, "method": format!("{m:?}"), "elem": ename}), format!("{a:?}"), format!("{b:?}"));
                        }
                    }
                }
            }
            {
                let a = run_median::<Vec<f64>, f64>(&base64);
                let b = run_median::<Vec<f64>, f64>(&e64);
                if !matches!((&a, &b), (Outcome::Ok(x), Outcome::Ok(y)) if exact_eq(x, y)) {
                    let f09 = len == 1 && ext[0].is_none();
                    viol(ctx, "transparency:vmedian".into(), if f09 { Some("F09") } else { None }, ext.len() * 100, json!({"family": fam, "word": word, "with_nulls": json_word(&ext)}), format!("{a:?}"), format!("{b:?}"));
                }
            }
            for score in alpha.iter().chain([Some(0.5)].iter()) {
                for m in [PMethod::Rank, PMethod::Weak, PMethod::Strict] {
                    let a = run_percentile_of::<Vec<f64>, f64>(&base64, *score, m);
                    let b = run_percentile_of::<Vec<f64>, f64>(&e64, *score, m);
                    ctx.evals += 1;
                    if !matches!((&a, &b), (Outcome::Ok(x), Outcome::Ok(y)) if exact_eq(x, y)) {
                        viol(ctx, "transparency:vpercentile_of".into(), None, ext.len() * 100, json!({"family": fam, "word": word, "with_nulls": json_word(&ext), "score": score, "method": format!("{m:?}")}), format!("{a:?}"), format!("{b:?}"));
                    }
                }
            }
        }
    }
}

/// two-series transparency: extra positions carry a null in the first, the second, or both series
fn check_transparency2(word: &[u8], alpha: &[X], ctx: &mut Ctx) {
    let k = alpha.len();
    let a: Vec<X> = word.iter().map(|s| alpha[*s as usize / k]).collect();
    let b: Vec<X> = word.iter().map(|s| alpha[*s as usize % k]).collect();
    let len = a.len();
    let fam = "transparency-pairs";
    ctx.fam(fam).states += 1;
    ctx.nontrivial(fam, hash_bytes(word));
    for n_extra in 1..=2usize {
        for gaps in insertion_patterns(len, n_extra) {
            for kinds in 0..3usize.pow(n_extra as u32) {
                // build the extended pair
                let (mut ea, mut eb) = (vec![], vec![]);
                let mut g = 0;
                let mut kk = kinds;
                for i in 0..=len {
                    while g < gaps.len() && gaps[g] == i {
                        let kind = kk % 3;
                        kk /= 3;
                        ea.push(if kind != 1 { None } else { Some(3.0) });
                        eb.push(if kind != 0 { None } else { Some(-2.0) });
                        g += 1;
                    }
                    if i < len {
                        ea.push(a[i]);
                        eb.push(b[i]);
                    }
                }
                ctx.transitions += 1;
                for op in [AggOp::VCov(0), AggOp::VCov(2), AggOp::VCorr(0), AggOp::VCorr(2)] {
                    for enc in 0..2 {
                        let run = if enc == 0 { run_agg_valid::<f64> } else { run_agg_valid::<Option<f64>> };
                        let x = run(op, &a, &b, Source::TIter).unwrap();
                        let y = run(op, &ea, &eb, Source::TIter).unwrap();
                        ctx.eval(fam, outcome_hash(&y));
                        if !same_outcome(&x, &y) {
                            viol(ctx, format!("transparency:{}", op.name()), None, ea.len() * 100, json!({"family": fam, "word": word, "first": json_word(&ea), "second": json_word(&eb), "op": format!("{op:?}")}), show_outcome(&x), show_outcome(&y));
                        }
                    }
                }
            }
        }
    }
}

struct Fam {
    alpha: Vec<X>,
    max_len: usize,
    kind: u8,
    max_nulls: usize,
}
impl TreeSys for Fam {
    type Memo = ();
    fn k(&self) -> usize {
        if self.kind == 2 {
            self.alpha.len() * self.alpha.len()
        } else {
            self.alpha.len()
        }
    }
    fn max_len(&self) -> usize {
        self.max_len
    }
    fn name(&self) -> String {
        ["encodings", "transparency", "transparency-pairs", "encodings-inf", "encodings-nan-kinds", "transparency-nan-kinds", "rolling-transparency"][self.kind as usize].to_string()
    }
    fn visit(&self, w: &[u8], _p: Option<&()>, ctx: &mut Ctx) {
        match self.kind {
            0 => check_encodings(w, &self.alpha, ctx),
            1 => check_transparency(w, &self.alpha, self.max_nulls, ctx),
            3 => check_encodings_x("encodings-inf", w, decode(w, &self.alpha), &self.alpha, ctx),
            // every NaN is the same null: the float encoding written with the run-time NaN of x86-64 (sign bit
            // set), a payload NaN, and both kinds mixed in one series
            4 => {
                if w.contains(&0) {
                    for kind in 1..=3u8 {
                        with_nan_kind(kind, || check_encodings_x("encodings-nan-kinds", w, decode(w, &self.alpha), &self.alpha, ctx));
                    }
                }
            }
            6 => check_rolling_transparency(w, &self.alpha, ctx),
            5 => {
                for kind in [1u8, 3] {
                    with_nan_kind(kind, || check_transparency_fam("transparency-nan-kinds", w, &self.alpha, self.max_nulls, ctx));
                }
            }
            _ => check_transparency2(w, &self.alpha, ctx),
        }
    }
}

fn main() {
    let run = Run::from_args("C08");
    let enc = Fam { alpha: if run.quick() { alphabet5(run.seed) } else { alphabet6() }, max_len: run.pick(5, 6), kind: 0, max_nulls: 0 };
    let base_alpha: Vec<X> = vec![Some(-2.0), Some(0.0), Some(1.0), Some(3.0)];
    let tr = Fam { alpha: base_alpha.clone(), max_len: run.pick(4, 6), kind: 1, max_nulls: run.pick(2, 3) };
    let tr2 = Fam { alpha: vec![Some(0.0), Some(1.0), Some(3.0)], max_len: run.pick(3, 5), kind: 2, max_nulls: 2 };
    // infinities are valid observations under both encodings (only NaN / None are null)
    let enc_inf = Fam { alpha: vec![None, Some(f64::NEG_INFINITY), Some(0.0), Some(1.0), Some(f64::INFINITY)], max_len: run.pick(4, 5), kind: 3, max_nulls: 0 };
    let enc_nan = Fam { alpha: vec![None, Some(-1.0), Some(0.0), Some(2.0)], max_len: run.pick(4, 6), kind: 4, max_nulls: 0 };
    let roll_tr = Fam { alpha: vec![None, Some(-1.0), Some(0.0), Some(1.0), Some(3.0)], max_len: run.pick(5, 7), kind: 6, max_nulls: 0 };
    let tr_nan = Fam { alpha: vec![Some(-2.0), Some(0.0), Some(3.0)], max_len: run.pick(3, 5), kind: 5, max_nulls: 2 };
    if let Some(path) = &run.replay {
        let stored = load_replay(path).unwrap_or_else(|e| {
            eprintln!("MACHINERY-ERROR: {e}");
            std::process::exit(2)
        });
        let mut ctx = Ctx::new();
        let word = syms_from_json(&stored["case"]["word"]);
        match stored["case"]["family"].as_str().unwrap_or("") {
            "encodings" => check_encodings(&word, &enc.alpha, &mut ctx),
            "encodings-inf" => check_encodings_x("encodings-inf", &word, decode(&word, &enc_inf.alpha), &enc_inf.alpha, &mut ctx),
            "encodings-long" => check_encodings_x("encodings-long", &[], word_from_json(&stored["case"]["series"]), &enc.alpha, &mut ctx),
            "transparency" => check_transparency(&word, &tr.alpha, 3, &mut ctx),
            "encodings-nan-kinds" => enc_nan.visit(&word, None, &mut ctx),
            "transparency-nan-kinds" => tr_nan.visit(&word, None, &mut ctx),
            "rolling-transparency" => roll_tr.visit(&word, None, &mut ctx),
            _ => check_transparency2(&word, &tr2.alpha, &mut ctx),
        }
        std::process::exit(finish_replay(&run, &stored, ctx));
    }
    let mut total = explore_tree(&enc, run.threads);
    total.merge(explore_tree(&enc_inf, run.threads));
    total.merge(explore_tree(&tr, run.threads));
    total.merge(explore_tree(&tr2, run.threads));
    total.merge(explore_tree(&enc_nan, run.threads));
    total.merge(explore_tree(&tr_nan, run.threads));
    total.merge(explore_tree(&roll_tr, run.threads));
    total.merge(encodings_long(!run.quick(), run.threads, &enc.alpha));
    total.sample(json!({"relation": "encoding", "entry": "ts_vstd", "series_f64": "[NaN, 1.0, 3.0]", "series_option": "[None, Some(1.0), Some(3.0)]", "outputs_equal_after_decoding": true}));
    total.sample(json!({"relation": "transparency", "op": "vskew(0)", "base": [-2, 0, 3], "with_nulls": [null, -2, 0, null, 3], "equal": true}));
    let meta = Meta {
        rule: "(a) encoding relation: every word over the value alphabet; every null-aware rolling entry point (reduced (w, mp) band), mapping operation and aggregation is run on Vec<f64> (NaN) and Vec<Option<f64>> (None) with outputs f64 / Option<f64> / f32 / Option<i32>; outputs must be identical after decoding (None ~ NaN); the same on long structured series (24..70 elements) with null blocks and periodic null patterns. (b) null transparency: every null-free base word and every placement of 1..k nulls into its gaps (all multisets of gaps): count_valid, sums, moments, extrema, first / last, quantiles (grid x 4 methods), median, percentile-of-score are unchanged and count_none grows by k; two-series: extra positions with a null in the first, second or both series leave vcov / vcorr_pearson unchanged. Exact comparison. Non-trivial (a) = words containing a null; (b) = every base word. Also (DESIGN 5.4, 5.15, 5.16): both relations with the float nulls written as the run-time NaN (sign bit), a payload NaN and both mixed (encodings-nan-kinds, transparency-nan-kinds); null transparency of the position-independent rolling statistics (rolling-transparency: output i == statistic of window i with its nulls deleted). Round 8 (DESIGN 5.17): transparency of vrank (absolute / percentile, both directions): a valid element keeps the rank it has in the null-free base. Round 9 (DESIGN 5.18): optview - the option view .opt() of the NaN-encoded series is a third encoding: its rolling results (returned and buffer forms) and vrank agree with the Option encoding. Round 10 (DESIGN 5.19): the rolling rank (all four flag combinations) in rolling-transparency, judged where the newest element is valid. Round 11 (DESIGN 5.20): the normalisations ts_vminmaxnorm / ts_vzscore in rolling-transparency.".into(),
        bounds: json!({"encodings": {"alphabet": json_word(&enc.alpha), "L": enc.max_len}, "transparency": {"alphabet": json_word(&tr.alpha), "L": tr.max_len, "nulls_inserted": format!("1..={}", tr.max_nulls)}, "transparency_pairs": {"alphabet": json_word(&tr2.alpha), "L": tr2.max_len, "extra_positions": "1..=2 x {null in first, second, both}"}}),
        assumptions: vec!["canonical nulls only; Some(NaN) is never generated (DESIGN 5.4)".into(), "a call that panics under both encodings (documented or known panic) counts as equal".into()],
        exhaustive: true,
        min_states: 500,
    };
    std::process::exit(finish(&run, meta, total));
}
