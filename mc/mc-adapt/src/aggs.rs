//! Entry-point table of the aggregations.
use crate::elem::*;
use mc_core::{catch, Cell, Outcome};
use mc_ref::agg::AggOp;
use tevec::prelude::*;

#[derive(Clone, Copy, Debug, PartialEq)]
pub enum Source {
    /// owned Vec, consumed
    Owned,
    /// borrowed trusted iterator
    TIter,
    /// the option view (`opt()`); only for null-aware element types
    OptView,
    /// an owned iterator of unknown length: `into_iter().filter(..)` (size hint (0, Some(n)))
    Filtered,
    /// a borrowed iterator of unknown length: `titer().flat_map(once)` (size hint (0, None))
    FlatMapped,
}

fn c_usize(n: usize) -> Cell {
    Cell::I(n as i64)
}
fn c_f(x: f64) -> Cell {
    Cell::f(x)
}
fn c_ou(x: Option<usize>) -> Cell {
    x.map_or(Cell::Null, |v| Cell::I(v as i64))
}

/// null-aware aggregations on element type T; `y` = second series / mask (encoded as T2 = f64)
pub fn run_agg_valid<T>(op: AggOp, x: &[X], y: &[X], src: Source) -> Option<Outcome<Vec<Cell>>>
where
    T: Elem + IsNone + PartialEq,
    T::Inner: Number + Elem,
    Option<T::Inner>: Elem,
    T::Cast<f64>: Elem,
    f64: Cast<T::Cast<f64>>,
{
    if !encodable::<T>(x) {
        return None;
    }
    if let AggOp::VCountValue(t) = op {
        if !encodable::<T>(&[t]) {
            return None;
        }
    }
    let v: Vec<T> = enc_vec(x);
    let w: Vec<f64> = enc_vec(y);
    macro_rules! on {
        (|$it:ident| $body:expr) => {
            match src {
                Source::Owned => {
                    let $it = v.clone();
                    $body
                }
                Source::TIter => {
                    let $it = v.titer();
                    $body
                }
                Source::OptView => {
                    let view = v.opt();
                    let $it = view.titer();
                    $body
                }
                Source::Filtered => {
                    let $it = v.clone().into_iter().filter(|_| true);
                    $body
                }
                Source::FlatMapped => {
                    let $it = v.titer().flat_map(std::iter::once);
                    $body
                }
            }
        };
    }
    // decoding of an Option<Inner>-like item regardless of the source's item type
    fn d<I: IsNone>(v: Option<I>) -> Cell
    where
        Option<I::Inner>: Elem,
    {
        v.and_then(|x| x.to_opt()).dec_opt()
    }
    trait DecOpt {
        fn dec_opt(self) -> Cell;
    }
    impl<U> DecOpt for Option<U>
    where
        Option<U>: Elem,
    {
        fn dec_opt(self) -> Cell {
            self.dec()
        }
    }
    use AggOp::*;
    Some(catch(move || match op {
        CountValid => vec![c_usize(on!(|it| it.count_valid()))],
        CountNone => vec![c_usize(on!(|it| it.count_none()))],
        VCountValue(t) => match src {
            Source::Owned => vec![c_usize(v.clone().vcount_value(T::enc(t)))],
            Source::TIter => vec![c_usize(v.titer().vcount_value(T::enc(t)))],
            Source::OptView => vec![c_usize(v.opt().titer().vcount_value(T::enc(t).to_opt()))],
            Source::Filtered => vec![c_usize(v.clone().into_iter().filter(|_| true).vcount_value(T::enc(t)))],
            Source::FlatMapped => vec![c_usize(v.titer().flat_map(std::iter::once).vcount_value(T::enc(t)))],
        },
        VFirst => vec![on!(|it| d(it.vfirst()))],
        VLast => vec![on!(|it| d(it.vlast()))],
        VSum => vec![on!(|it| it.vsum().dec())],
        VMean => vec![c_f(on!(|it| it.vmean()))],
        VMeanVar(mp) => {
            let (m, s) = on!(|it| it.vmean_var(mp));
            vec![c_f(m), c_f(s)]
        }
        VVar(mp) => vec![c_f(on!(|it| it.vvar(mp)))],
        VStd(mp) => vec![c_f(on!(|it| it.vstd(mp)))],
        VSkew(mp) => vec![c_f(on!(|it| it.vskew(mp)))],
        VKurt(mp) => vec![c_f(on!(|it| it.vkurt(mp)))],
        VMax => vec![on!(|it| it.vmax().dec())],
        VMin => vec![on!(|it| it.vmin().dec())],
        VArgmax => vec![c_ou(on!(|it| it.vargmax()))],
        VArgmin => vec![c_ou(on!(|it| it.vargmin()))],
        VCov(mp) => vec![match src {
            Source::Owned => v.clone().vcov(w.clone(), mp).dec(),
            Source::TIter => v.titer().vcov(w.titer(), mp).dec(),
            Source::OptView => v.opt().titer().vcov(w.opt().titer(), mp).dec(),
            Source::Filtered => v.clone().into_iter().filter(|_| true).vcov(w.clone().into_iter().filter(|_| true), mp).dec(),
            Source::FlatMapped => v.titer().flat_map(std::iter::once).vcov(w.titer().flat_map(std::iter::once), mp).dec(),
        }],
        VCorr(mp) => vec![c_f(on!(|it| it.vcorr_pearson::<f64, _, _>(w.titer(), mp)))],
        NVSumFilter => {
            let (n, s) = on!(|it| it.n_vsum_filter(w.titer()));
            vec![c_usize(n), Some(s).dec()]
        }
        NSumFilter => vec![on!(|it| it.n_sum_filter(w.titer()).dec())],
        VMeanFilter(mp) => vec![c_f(on!(|it| it.vmean_filter(w.titer(), mp)))],
        _ => panic!("plain aggregation passed to run_agg_valid"),
    }))
}

/// plain aggregations (AggBasic) on a null-free word
pub fn run_agg_plain<T>(op: AggOp, x: &[X], src: Source) -> Option<Outcome<Vec<Cell>>>
where
    T: Elem + Number,
    Option<T>: Elem,
{
    if !encodable::<T>(x) || has_null(x) {
        return None;
    }
    if let AggOp::CountValue(t) = op {
        if !encodable::<T>(&[Some(t)]) {
            return None;
        }
    }
    let v: Vec<T> = enc_vec(x);
    macro_rules! on {
        (|$it:ident| $body:expr) => {
            match src {
                Source::Owned => {
                    let $it = v.clone();
                    $body
                }
                _ => {
                    let $it = v.titer();
                    $body
                }
            }
        };
    }
    use AggOp::*;
    Some(catch(move || match op {
        CountValue(t) => vec![c_usize(on!(|it| it.count_value(T::enc(Some(t)))))],
        First => vec![on!(|it| AggBasic::first(it).dec())],
        Last => vec![on!(|it| AggBasic::last(it).dec())],
        Sum => vec![on!(|it| AggBasic::sum(it).dec())],
        Mean => vec![on!(|it| AggBasic::mean(it).map_or(Cell::Null, c_f))],
        NSum => {
            let (n, s) = on!(|it| it.n_sum());
            vec![c_usize(n), s.dec()]
        }
        Max => vec![on!(|it| AggBasic::max(it).dec())],
        Min => vec![on!(|it| AggBasic::min(it).dec())],
        Argmax => vec![c_ou(on!(|it| it.argmax()))],
        Argmin => vec![c_ou(on!(|it| it.argmin()))],
        _ => panic!("null-aware aggregation passed to run_agg_plain"),
    }))
}

/// boolean aggregations: word symbols None / Some(0)=false / Some(1)=true
pub fn run_agg_bool(name: &str, x: &[X], opt_elem: bool) -> Option<Outcome<Vec<Cell>>> {
    let has_null = has_null(x);
    let name = name.to_string();
    if opt_elem {
        let v: Vec<Option<bool>> = enc_vec(x);
        Some(catch(move || match name.as_str() {
            "vany" => vec![Cell::B(v.titer().vany())],
            "vall" => vec![Cell::B(v.titer().vall())],
            "vany(owned)" => vec![Cell::B(v.clone().vany())],
            "vall(owned)" => vec![Cell::B(v.clone().vall())],
            _ => panic!("unknown"),
        }))
    } else {
        if has_null {
            return None;
        }
        let v: Vec<bool> = enc_vec(x);
        Some(catch(move || match name.as_str() {
            "any" => vec![Cell::B(AggBasic::any(v.titer()))],
            "all" => vec![Cell::B(AggBasic::all(v.titer()))],
            "vany" => vec![Cell::B(v.titer().vany())],
            "vall" => vec![Cell::B(v.titer().vall())],
            _ => panic!("unknown"),
        }))
    }
}

use mc_ref::order::{PMethod, QMethod};
use tevec::agg::{PercentileOfMethod, QuantileMethod};

/// vquantile on any back end; an `Err` is reported as the string cell "Err"
pub fn run_quantile<V, T>(v: &V, q: f64, m: QMethod) -> Outcome<Cell>
where
    V: Vec1View<T>,
    T: IsNone + Cast<f64>,
    T::Inner: Number,
{
    let m = match m {
        QMethod::Linear => QuantileMethod::Linear,
        QMethod::Lower => QuantileMethod::Lower,
        QMethod::Higher => QuantileMethod::Higher,
        QMethod::MidPoint => QuantileMethod::MidPoint,
    };
    catch(|| match v.vquantile(q, m) {
        Ok(x) => c_f(x),
        Err(_) => Cell::S("Err".into()),
    })
}
pub fn run_median<V, T>(v: &V) -> Outcome<Cell>
where
    V: Vec1View<T>,
    T: IsNone + Cast<f64>,
    T::Inner: Number,
{
    catch(|| c_f(v.vmedian()))
}
pub fn run_percentile_of<V, T>(v: &V, score: X, m: PMethod) -> Outcome<Cell>
where
    V: Vec1View<T>,
    T: Elem + IsNone,
    T::Inner: Number,
{
    let m = match m {
        PMethod::Rank => PercentileOfMethod::Rank,
        PMethod::Weak => PercentileOfMethod::Weak,
        PMethod::Strict => PercentileOfMethod::Strict,
    };
    catch(|| c_f(v.titer().vpercentile_of(T::enc(score), m)))
}

/// The null-skipping fold primitives of `IterBasic` (`vfold`, `vfold2`, `vfold_n`, `vapply`, `vapply_n`):
/// what each of them visits, in order. Layout of the observation:
/// `[vfold visits.., |, vfold_n count, visits.., |, vapply visits.., |, vapply_n count, visits.., |, vfold2 pairs (a, b)..]`
/// with `Cell::S("|")` as separator. `x` and `y` (equal length) are encoded as T.
pub fn run_fold_prims<T>(x: &[X], y: &[X]) -> Option<Outcome<Vec<Cell>>>
where
    T: Elem + IsNone,
    T::Inner: Elem,
{
    if !encodable::<T>(x) || !encodable::<T>(y) {
        return None;
    }
    let v: Vec<T> = enc_vec(x);
    let w: Vec<T> = enc_vec(y);
    Some(catch(move || {
        let sep = || Cell::S("|".into());
        let mut out: Vec<Cell> = vec![];
        out.extend(v.clone().vfold(Vec::<Cell>::new(), |mut acc, item| {
            acc.push(item.dec());
            acc
        }));
        out.push(sep());
        let (n, vis) = v.clone().vfold_n(Vec::<Cell>::new(), |mut acc, item| {
            acc.push(item.dec());
            acc
        });
        out.push(c_usize(n));
        out.extend(vis);
        out.push(sep());
        let mut vis = vec![];
        v.clone().vapply(|item| vis.push(item.dec()));
        out.extend(vis);
        out.push(sep());
        let mut vis = vec![];
        let n = v.clone().vapply_n(|item| vis.push(item.dec()));
        out.push(c_usize(n));
        out.extend(vis);
        out.push(sep());
        out.extend(v.clone().vfold2(w.clone(), Vec::<Cell>::new(), |mut acc, a, b| {
            acc.push(a.dec());
            acc.push(b.dec());
            acc
        }));
        out
    }))
}


/// vpercentile_of on 64-bit integers given as base + offset (integers an f64 cannot tell apart; round 11)
pub fn percentile_of_wide(offsets: &[Option<i64>], score_off: i64, base: i64, m: PMethod, kind: u8) -> Outcome<Cell> {
    let m = match m {
        PMethod::Rank => PercentileOfMethod::Rank,
        PMethod::Weak => PercentileOfMethod::Weak,
        PMethod::Strict => PercentileOfMethod::Strict,
    };
    let offsets = offsets.to_vec();
    catch(move || match kind {
        0 => {
            let v: Vec<Option<i64>> = offsets.iter().map(|o| o.map(|x| base + x)).collect();
            c_f(v.titer().vpercentile_of(Some(base + score_off), m))
        }
        1 => {
            let v: Vec<i64> = offsets.iter().map(|o| base + o.expect("no null in a plain i64 series")).collect();
            c_f(v.titer().vpercentile_of(base + score_off, m))
        }
        _ => {
            // u64 above i64::MAX
            let b = (1u64 << 63) + base.unsigned_abs();
            let v: Vec<u64> = offsets.iter().map(|o| b + o.expect("no null in a u64 series") as u64).collect();
            c_f(v.titer().vpercentile_of(b + score_off as u64, m))
        }
    })
}
