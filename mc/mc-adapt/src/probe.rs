//! instrumented containers (DESIGN 3.5)
