//! C15 — null and cast algebra is coherent across all element types.
//! Finite lattice (type, value); actions = every Cast instance; chains through Option (depth 2).
use mc_checks::*;
use std::cmp::Ordering;
use tevec::prelude::unit::{Microsecond, Millisecond, Nanosecond, Second};
use tevec::prelude::{Cast, DateTime, IsNone, Time, TimeDelta};

/// bit-level sameness (all NaNs equal) and a printable form
trait Same: Clone {
    fn same(&self, o: &Self) -> bool;
    fn show(&self) -> String;
}
macro_rules! same_int {
    ($($t:ty),*) => {$(
        impl Same for $t {
            fn same(&self, o: &Self) -> bool { self == o }
            fn show(&self) -> String { format!("{self:?}{}", stringify!($t)) }
        }
    )*};
}
same_int!(u8, u64, i64, i32, usize, isize, bool, String);
macro_rules! same_float {
    ($($t:ty),*) => {$(
        impl Same for $t {
            fn same(&self, o: &Self) -> bool { self.to_bits() == o.to_bits() || (self.is_nan() && o.is_nan()) }
            fn show(&self) -> String { format!("{self:?}{}", stringify!($t)) }
        }
    )*};
}
same_float!(f32, f64);
impl<T: Same> Same for Option<T> {
    fn same(&self, o: &Self) -> bool {
        match (self, o) {
            (Some(a), Some(b)) => a.same(b),
            (None, None) => true,
            _ => false,
        }
    }
    fn show(&self) -> String {
        match self {
            Some(a) => format!("Some({})", a.show()),
            None => "None".into(),
        }
    }
}
impl<U: tevec::prelude::TimeUnitTrait> Same for DateTime<U> {
    fn same(&self, o: &Self) -> bool {
        self.0 == o.0
    }
    fn show(&self) -> String {
        if self.is_nat() {
            "NaT".into()
        } else {
            format!("DateTime({})", self.0)
        }
    }
}
impl Same for TimeDelta {
    fn same(&self, o: &Self) -> bool {
        // by the fields, not by the library's own PartialEq (which is itself under test, law L11)
        self.months == o.months && self.inner == o.inner
    }
    fn show(&self) -> String {
        format!("{self:?}")
    }
}
impl Same for Time {
    fn same(&self, o: &Self) -> bool {
        self.0 == o.0
    }
    fn show(&self) -> String {
        format!("Time({})", self.0)
    }
}

/// per-type value sets
trait Vals: Sized {
    fn vals() -> Vec<Self>;
    const NAME: &'static str;
}
const INT_CANDS: [i128; 16] = [0, 1, -1, 2, 255, 256, 2147483647, 2147483648, -2147483648, -2147483649, 9223372036854775807, -9223372036854775808, 18446744073709551615, 1_000_000_001, -1_000_000_001, 127];
macro_rules! vals_int {
    ($($t:ty),*) => {$(
        impl Vals for $t {
            const NAME: &'static str = stringify!($t);
            fn vals() -> Vec<$t> {
                let mut v: Vec<$t> = INT_CANDS.iter().filter(|c| **c >= <$t>::MIN as i128 && **c <= <$t>::MAX as i128).map(|c| *c as $t).collect();
                v.push(<$t>::MIN);
                v.push(<$t>::MAX);
                v.dedup();
                v
            }
        }
    )*};
}
vals_int!(u8, u64, i64, i32, usize, isize);
macro_rules! vals_float {
    ($($t:ty),*) => {$(
        impl Vals for $t {
            const NAME: &'static str = stringify!($t);
            fn vals() -> Vec<$t> {
                let mut v: Vec<$t> = INT_CANDS.iter().map(|c| *c as $t).collect();
                // nulls of every kind: the constant NAN, the run-time NaN of x86-64 (sign bit set), a second copy of each
                v.extend([0.5, -0.5, 1e10, <$t>::INFINITY, <$t>::NEG_INFINITY, <$t>::MIN_POSITIVE / 2.0, <$t>::NAN, <$t>::MAX, <$t>::MIN, -0.0, 1.5, 254.99, -<$t>::NAN, <$t>::NAN, -<$t>::NAN]);
                v
            }
        }
    )*};
}
vals_float!(f32, f64);

struct Tally<'a> {
    ctx: &'a mut Ctx,
}
impl<'a> Tally<'a> {
    fn check<T: Same>(&mut self, law: &str, finding: Option<&str>, from: &str, to: &str, value: String, got: Outcome<T>, want: &T) {
        let fam = "casts";
        self.ctx.transitions += 1;
        self.ctx.nontrivial(fam, hash_bytes(format!("{law}|{from}|{to}|{value}").as_bytes()));
        let ok = matches!(&got, Outcome::Ok(g) if g.same(want));
        self.ctx.eval(fam, match &got { Outcome::Ok(g) => hash_bytes(g.show().as_bytes()), Outcome::Panic(_) => 3 });
        if !ok {
            self.ctx.violation(Violation {
                entry: if finding.is_some() { law.to_string() } else { format!("{law}: {from} -> {to}") },
                finding: finding.map(|s| s.to_string()),
                size: value.len(),
                case: json!({"family": fam, "law": law, "from": from, "to": to, "value": value}),
                expected: want.show(),
                got: match got { Outcome::Ok(g) => g.show(), Outcome::Panic(m) => format!("PANIC({})", truncate(&m, 80)) },
            });
        } else {
            self.ctx.traces += 1;
        }
    }
    fn truth(&mut self, law: &str, finding: Option<&str>, ty: &str, value: String, ok: Outcome<bool>, expected: &str) {
        let fam = "laws";
        self.ctx.transitions += 1;
        self.ctx.nontrivial(fam, hash_bytes(format!("{law}|{ty}|{value}").as_bytes()));
        self.ctx.eval(fam, match &ok { Outcome::Ok(b) => *b as u64 + hash_bytes(law.as_bytes()) % 1000, _ => 5 });
        if !matches!(ok, Outcome::Ok(true)) {
            self.ctx.violation(Violation {
                entry: if finding.is_some() { law.to_string() } else { format!("{law}: {ty}") },
                finding: finding.map(|s| s.to_string()),
                size: value.len(),
                case: json!({"family": fam, "law": law, "type": ty, "value": value}),
                expected: expected.into(),
                got: format!("{ok:?}"),
            });
        } else {
            self.ctx.traces += 1;
        }
    }
}

/// (L6)/(L7)/(L5) for one ordered pair of numeric types
macro_rules! numeric_pair {
    ($t:ident, $T:ty, $U:ty) => {{
        let from = <$T as Vals>::NAME;
        let to = <$U as Vals>::NAME;
        let u_float = to.starts_with('f');
        for x in <$T as Vals>::vals() {
            $t.ctx.states += 1;
            let null = x.is_none();
            let xs = x.show();
            // L6: agrees with the language's numeric conversion
            $t.check("L6 cast == as", None, from, to, xs.clone(), catch(|| Cast::<$U>::cast(x)), &(x as $U));
            // L5/L7: into an Option
            let want_opt: Option<$U> = if null { None } else { Some(x as $U) };
            $t.check("L7 x -> Option<U>", None, from, &format!("Option<{to}>"), xs.clone(), catch(|| Cast::<Option<$U>>::cast(x)), &want_opt);
            if !null {
                $t.check("L7 Some(x) -> U", None, &format!("Option<{from}>"), to, xs.clone(), catch(|| Cast::<$U>::cast(Some(x))), &(x as $U));
                $t.check("L7 Some(x) -> Option<U>", None, &format!("Option<{from}>"), &format!("Option<{to}>"), xs.clone(), catch(|| Cast::<Option<$U>>::cast(Some(x))), &Some(x as $U));
                // depth-2 chains through an Option equal the direct cast
                $t.check("L7 chain T->Option<T>->U", None, from, to, xs.clone(), catch(|| Cast::<$U>::cast(Cast::<Option<$T>>::cast(x))), &(x as $U));
                $t.check("L7 chain T->Option<U>->U", None, from, to, xs.clone(), catch(|| Cast::<$U>::cast(Cast::<Option<$U>>::cast(x))), &(x as $U));
            } else if u_float {
                $t.check("L5 null -> float", None, from, to, xs.clone(), catch(|| Cast::<$U>::cast(Cast::<Option<$T>>::cast(x))), &(f64::NAN as $U));
            }
        }
        // None of the source type
        $t.check("L5 None -> Option<U>", None, &format!("Option<{from}>"), &format!("Option<{to}>"), "None".into(), catch(|| Cast::<Option<$U>>::cast(None::<$T>)), &None::<$U>);
        if u_float {
            $t.check("L5 None -> float", None, &format!("Option<{from}>"), to, "None".into(), catch(|| Cast::<$U>::cast(None::<$T>)), &(f64::NAN as $U));
        }
    }};
}
macro_rules! numeric_row {
    ($t:ident, $T:ty) => {{
        numeric_pair!($t, $T, u8);
        numeric_pair!($t, $T, u64);
        numeric_pair!($t, $T, i64);
        numeric_pair!($t, $T, i32);
        numeric_pair!($t, $T, f32);
        numeric_pair!($t, $T, f64);
        numeric_pair!($t, $T, usize);
        numeric_pair!($t, $T, isize);
    }};
}

/// bool, String and the time types as targets / sources of a numeric type
macro_rules! other_targets {
    ($t:ident, $T:ty) => {{
        let from = <$T as Vals>::NAME;
        for x in <$T as Vals>::vals() {
            let null = x.is_none();
            let xs = x.show();
            // bool: only 0 and 1 are castable (anything else is the documented panic)
            let as_i = Cast::<i32>::cast(x);
            if !null && (as_i == 0 || as_i == 1) {
                $t.check("L6 -> bool", None, from, "bool", xs.clone(), catch(|| Cast::<bool>::cast(x)), &(as_i == 1));
                $t.check("L7 -> Option<bool>", None, from, "Option<bool>", xs.clone(), catch(|| Cast::<Option<bool>>::cast(x)), &Some(as_i == 1));
                $t.check("L7 Some(x) -> bool", None, &format!("Option<{from}>"), "bool", xs.clone(), catch(|| Cast::<bool>::cast(Some(x))), &(as_i == 1));
            }
            if null {
                $t.check("L5 null -> Option<bool>", None, from, "Option<bool>", xs.clone(), catch(|| Cast::<Option<bool>>::cast(x)), &None);
            }
            // String
            if !null {
                $t.check("L6 -> String", None, from, "String", xs.clone(), catch(|| Cast::<String>::cast(x)), &x.to_string());
                $t.check("L7 Some(x) -> String", None, &format!("Option<{from}>"), "String", xs.clone(), catch(|| Cast::<String>::cast(Some(x))), &x.to_string());
                // and back (finite values)
                let s = x.to_string();
                if s.parse::<$T>().is_ok() {
                    $t.check("L3 String -> T round trip", None, "String", from, xs.clone(), catch(|| Cast::<$T>::cast(s.clone())), &x);
                    $t.check("L3 &str -> Option<T>", None, "&str", &format!("Option<{from}>"), xs.clone(), catch(|| Cast::<Option<$T>>::cast(s.as_str())), &Some(x));
                }
            } else {
                // F32: a null float becomes the non-null string "NaN"
                $t.truth("L5 null -> String is the null string", Some("F32"), from, xs.clone(), catch(|| Cast::<String>::cast(x).is_none()), "\"None\"");
            }
            // time types: null -> NaT, representable non-null -> non-null with the same count
            let as_i64 = Cast::<i64>::cast(x);
            if null {
                // F21: NaN -> DateTime / TimeDelta / Time gives the epoch / zero
                $t.truth("L5 null -> DateTime is NaT", Some("F21"), from, xs.clone(), catch(|| Cast::<DateTime<Nanosecond>>::cast(x).is_nat()), "NaT");
                $t.truth("L5 null -> DateTime<ms> is NaT", Some("F21"), from, xs.clone(), catch(|| Cast::<DateTime<Millisecond>>::cast(x).is_nat()), "NaT");
                $t.truth("L5 null -> TimeDelta is NaT", Some("F21"), from, xs.clone(), catch(|| Cast::<TimeDelta>::cast(x).is_nat()), "NaT");
                $t.truth("L5 null -> Time is NaT", Some("F21"), from, xs.clone(), catch(|| Cast::<Time>::cast(x).is_nat()), "NaT");
            } else if as_i64 != i64::MIN && (as_i64 as f64) == Cast::<f64>::cast(x) {
                $t.check("L6 -> DateTime", None, from, "DateTime<us>", xs.clone(), catch(|| Cast::<DateTime<Microsecond>>::cast(x)), &DateTime::<Microsecond>::new(as_i64));
                $t.check("L6 -> Time", None, from, "Time", xs.clone(), catch(|| Cast::<Time>::cast(x)), &Time(as_i64));
                $t.check("L7 Some(x) -> DateTime", None, &format!("Option<{from}>"), "DateTime<s>", xs.clone(), catch(|| Cast::<DateTime<Second>>::cast(Some(x))), &DateTime::<Second>::new(as_i64));
            }
        }
        $t.check("L5 None -> String", None, &format!("Option<{from}>"), "String", "None".into(), catch(|| Cast::<String>::cast(None::<$T>)), &"None".to_string());
        $t.truth("L5 None -> DateTime is NaT", None, &format!("Option<{from}>"), "None".into(), catch(|| Cast::<DateTime<Nanosecond>>::cast(None::<$T>).is_nat()), "NaT");
        $t.truth("L5 None -> TimeDelta is NaT", None, &format!("Option<{from}>"), "None".into(), catch(|| Cast::<TimeDelta>::cast(None::<$T>).is_nat()), "NaT");
        $t.truth("L5 None -> Time is NaT", None, &format!("Option<{from}>"), "None".into(), catch(|| Cast::<Time>::cast(None::<$T>).is_nat()), "NaT");
        $t.check("L5 \"None\" -> Option<T>", None, "String", &format!("Option<{from}>"), "\"None\"".into(), catch(|| Cast::<Option<$T>>::cast("None".to_string())), &None::<$T>);
        // from bool
        for b in [false, true] {
            $t.check("L6 bool -> T", None, "bool", from, format!("{b}"), catch(|| Cast::<$T>::cast(b)), &((b as u8) as $T));
            $t.check("L7 bool -> Option<T>", None, "bool", &format!("Option<{from}>"), format!("{b}"), catch(|| Cast::<Option<$T>>::cast(b)), &Some((b as u8) as $T));
            $t.check("L7 Some(bool) -> T", None, "Option<bool>", from, format!("{b}"), catch(|| Cast::<$T>::cast(Some(b))), &((b as u8) as $T));
        }
        $t.check("L5 None::<bool> -> Option<T>", None, "Option<bool>", &format!("Option<{from}>"), "None".into(), catch(|| Cast::<Option<$T>>::cast(None::<bool>)), &None::<$T>);
        if from.starts_with('f') {
            // a null flag is a null number (for integer targets this is the documented panic of none())
            $t.check("L5 None::<bool> -> float", None, "Option<bool>", from, "None".into(), catch(|| Cast::<$T>::cast(None::<bool>)), &(f64::NAN as $T));
        }
        for b in [false, true] {
            $t.check("L7 Some(bool) -> Option<T>", None, "Option<bool>", &format!("Option<{from}>"), format!("Some({b})"), catch(|| Cast::<Option<$T>>::cast(Some(b))), &Some((b as u8) as $T));
            $t.check("L7 Some(x) -> Option<bool>", None, &format!("Option<{from}>"), "Option<bool>", format!("Some({})", b as u8), catch(|| Cast::<Option<bool>>::cast(Some((b as u8) as $T))), &Some(b));
        }
        $t.check("L5 None -> Option<bool>", None, &format!("Option<{from}>"), "Option<bool>", "None".into(), catch(|| Cast::<Option<bool>>::cast(None::<$T>)), &None::<bool>);
    }};
}

/// time types as sources: NaT -> null in every nullable target, valid -> the count
macro_rules! time_sources {
    ($t:ident, $U:ty) => {{
        let to = <$U as Vals>::NAME;
        let u_float = to.starts_with('f');
        for v in [0i64, 1, -1, 1_000_000_001, -1_000_000_001] {
            $t.check("L6 DateTime -> U", None, "DateTime<ns>", to, format!("{v}"), catch(|| Cast::<$U>::cast(DateTime::<Nanosecond>::new(v))), &(v as $U));
            $t.check("L7 DateTime -> Option<U>", None, "DateTime<ms>", &format!("Option<{to}>"), format!("{v}"), catch(|| Cast::<Option<$U>>::cast(DateTime::<Millisecond>::new(v))), &Some(v as $U));
            $t.check("L6 Time -> U", None, "Time", to, format!("{v}"), catch(|| Cast::<$U>::cast(Time(v))), &(v as $U));
            $t.check("L7 Time -> Option<U>", None, "Time", &format!("Option<{to}>"), format!("{v}"), catch(|| Cast::<Option<$U>>::cast(Time(v))), &Some(v as $U));
            // a month-free duration counts microseconds
            let d = TimeDelta::from(v * 1000);
            $t.check("L6 TimeDelta -> U", None, "TimeDelta", to, format!("{v}us"), catch(|| Cast::<$U>::cast(d)), &(v as $U));
            $t.check("L7 TimeDelta -> Option<U>", None, "TimeDelta", &format!("Option<{to}>"), format!("{v}us"), catch(|| Cast::<Option<$U>>::cast(d)), &Some(v as $U));
        }
        // F21: NaT -> float is not NaN; TimeDelta::nat() -> numbers panics
        $t.check("L5 NaT -> Option<U>", Some("F21"), "DateTime<us>", &format!("Option<{to}>"), "NaT".into(), catch(|| Cast::<Option<$U>>::cast(DateTime::<Microsecond>::nat())), &None::<$U>);
        $t.check("L5 NaT -> Option<U>", Some("F21"), "Time", &format!("Option<{to}>"), "NaT".into(), catch(|| Cast::<Option<$U>>::cast(Time::nat())), &None::<$U>);
        $t.check("L5 NaT -> Option<U>", Some("F21"), "TimeDelta", &format!("Option<{to}>"), "NaT".into(), catch(|| Cast::<Option<$U>>::cast(TimeDelta::nat())), &None::<$U>);
        if u_float {
            $t.check("L5 NaT -> float", Some("F21"), "DateTime<s>", to, "NaT".into(), catch(|| Cast::<$U>::cast(DateTime::<Second>::nat())), &(f64::NAN as $U));
            $t.check("L5 NaT -> float", Some("F21"), "Time", to, "NaT".into(), catch(|| Cast::<$U>::cast(Time::nat())), &(f64::NAN as $U));
            $t.check("L5 NaT -> float", Some("F21"), "TimeDelta", to, "NaT".into(), catch(|| Cast::<$U>::cast(TimeDelta::nat())), &(f64::NAN as $U));
        }
    }};
}

/// (L1)-(L4): predicates, constructor, wrap/unwrap, vabs — on one type
fn null_laws<T>(t: &mut Tally, name: &str, vals: Vec<T>, nullable: bool, show: fn(&T) -> String, eq: fn(&T, &T) -> bool)
where
    T: IsNone + Clone,
{
    t.ctx.fam("laws").states += vals.len() as u64;
    t.ctx.states += vals.len() as u64;
    for x in vals {
        let xs = show(&x);
        let x1 = x.clone();
        t.truth("L1 is_none == !not_none == to_opt().is_none() == as_opt().is_none()", None, name, xs.clone(), catch(move || {
            let a = x1.is_none();
            a == !x1.not_none() && a == x1.as_opt().is_none() && a == x1.clone().to_opt().is_none()
        }), "all four agree");
        if !x.is_none() {
            let x2 = x.clone();
            t.truth("L3 from_inner(unwrap(x)) == x and from_opt(to_opt(x)) == x", None, name, xs.clone(), catch(move || {
                let y = T::from_inner(x2.clone().unwrap());
                let z = T::from_opt(x2.clone().to_opt());
                eq(&y, &x2) && eq(&z, &x2)
            }), "identity");
        } else {
            let x2 = x.clone();
            t.truth("L3 from_opt(to_opt(null)) is null", None, name, xs.clone(), catch(move || T::from_opt(x2.to_opt()).is_none()), "null");
        }
    }
    if nullable {
        t.truth("L2 none().is_none()", None, name, "none()".into(), catch(|| T::none().is_none() && T::from_opt(None).is_none()), "true");
    }
}

/// (L8) sort comparators: total preorder, value order on non-nulls, nulls last in both directions
/// (L9) the cast of a value *into the null convention of another type* (`S::inner_cast(u)`, `u.into_cast::<S>()`:
/// U for a plain S, Option<U> for an optional S) keeps the value and keeps a null a null
fn inner_cast_laws<S, U>(t: &mut Tally, sname: &str, uname: &str, uvals: Vec<U>, show: fn(&U) -> String, eq: fn(&U, &U) -> bool)
where
    S: IsNone,
    U: IsNone<Inner = U> + Clone + 'static,
    S::Inner: Cast<U>,
    S::Cast<U>: Clone,
{
    use tevec::prelude::IntoCast;
    t.ctx.fam("laws").states += uvals.len() as u64;
    t.ctx.states += uvals.len() as u64;
    for u in uvals {
        let us = show(&u);
        let u1 = u.clone();
        t.truth(
            "L9 inner_cast / into_cast keep the value and keep a null a null",
            None,
            &format!("{uname} into the convention of {sname}"),
            us,
            catch(move || {
                let r = S::inner_cast::<U>(u1.clone());
                let r2 = u1.clone().into_cast::<S>();
                let null = u1.is_none();
                let val_ok = |r: &S::Cast<U>| if null { r.clone().to_opt().is_none() } else { r.clone().to_opt().map_or(false, |v| eq(&v, &u1)) };
                r.is_none() == null && r2.is_none() == null && val_ok(&r) && val_ok(&r2)
            }),
            "is_none preserved, to_opt() == Some(value) for a non-null value",
        );
    }
}

fn order_laws<T>(t: &mut Tally, name: &str, vals: &[T], lt: fn(&T, &T) -> Option<Ordering>, show: fn(&T) -> String)
where
    T: IsNone + Clone,
    T::Inner: PartialOrd,
{
    let n = vals.len();
    for rev in [false, true] {
        let cmp = |a: &T, b: &T| if rev { a.sort_cmp_rev(b) } else { a.sort_cmp(b) };
        let law = if rev { "L8 sort_cmp_rev" } else { "L8 sort_cmp" };
        for i in 0..n {
            for j in 0..n {
                let (a, b) = (&vals[i], &vals[j]);
                t.ctx.states += 1;
                let ab = catch(|| cmp(a, b));
                let ba = catch(|| cmp(b, a));
                let want = match (a.is_none(), b.is_none()) {
                    (true, true) => Some(Ordering::Equal),
                    (true, false) => Some(Ordering::Greater), // nulls last, in both directions
                    (false, true) => Some(Ordering::Less),
                    (false, false) => lt(a, b).map(|o| if rev { o.reverse() } else { o }),
                };
                let ok = match (&ab, &ba, want) {
                    (Outcome::Ok(x), Outcome::Ok(y), Some(w)) => *x == w && *y == w.reverse(),
                    _ => false,
                };
                t.truth(law, None, name, format!("({}, {})", show(a), show(b)), Outcome::Ok(ok), &format!("{want:?} and antisymmetric"));
                if i == j {
                    continue;
                }
                // transitivity on every triple
                for c in vals.iter() {
                    if let (Outcome::Ok(x), Outcome::Ok(y), Outcome::Ok(z)) = (&ab, catch(|| cmp(b, c)), catch(|| cmp(a, c))) {
                        if *x != Ordering::Greater && y != Ordering::Greater && z == Ordering::Greater {
                            t.truth(&format!("{law} transitive"), None, name, format!("({}, {}, {})", show(a), show(b), show(c)), Outcome::Ok(false), "a<=b and b<=c imply a<=c");
                        }
                    }
                }
            }
        }
    }
}

fn vabs_laws(t: &mut Tally) {
    for x in <f64 as Vals>::vals() {
        t.truth("L4 vabs preserves nullness and equals abs", None, "f64", x.show(), catch(|| {
            let y = x.vabs();
            y.is_none() == x.is_none() && (x.is_none() || y == x.abs())
        }), "abs / null");
        let o = if x.is_nan() { None } else { Some(x) };
        t.truth("L4 vabs preserves nullness and equals abs", None, "Option<f64>", o.show(), catch(|| {
            let y = o.vabs();
            y.is_none() == o.is_none() && y == o.map(|v| v.abs())
        }), "abs / null");
    }
    for x in <i32 as Vals>::vals() {
        if x == i32::MIN {
            continue; // |i32::MIN| is not representable
        }
        t.truth("L4 vabs preserves nullness and equals abs", None, "i32", x.show(), catch(|| x.vabs() == x.abs()), "abs");
        t.truth("L4 vabs preserves nullness and equals abs", None, "Option<i32>", format!("Some({x})"), catch(|| Some(x).vabs() == Some(x.abs())), "abs");
    }
    t.truth("L4 vabs preserves nullness and equals abs", None, "Option<i32>", "None".into(), catch(|| None::<i32>.vabs().is_none()), "null");
}

fn run_all(ctx: &mut Ctx) {
    let mut t = Tally { ctx };
    t.ctx.nontrivial("casts", 1);
    numeric_row!(t, u8);
    numeric_row!(t, u64);
    numeric_row!(t, i64);
    numeric_row!(t, i32);
    numeric_row!(t, f32);
    numeric_row!(t, f64);
    numeric_row!(t, usize);
    numeric_row!(t, isize);
    other_targets!(t, u8);
    other_targets!(t, u64);
    other_targets!(t, i64);
    other_targets!(t, i32);
    other_targets!(t, f32);
    other_targets!(t, f64);
    other_targets!(t, usize);
    other_targets!(t, isize);
    time_sources!(t, u8);
    time_sources!(t, u64);
    time_sources!(t, i32);
    time_sources!(t, f32);
    time_sources!(t, f64);
    time_sources!(t, usize);
    time_sources!(t, isize);
    // i64 is the native count of the time types
    for v in [0i64, 1, -1, 1_000_000_001] {
        t.check("L6 DateTime -> i64", None, "DateTime<ns>", "i64", format!("{v}"), catch(|| Cast::<i64>::cast(DateTime::<Nanosecond>::new(v))), &v);
        t.check("L7 DateTime -> Option<i64>", None, "DateTime<ns>", "Option<i64>", format!("{v}"), catch(|| Cast::<Option<i64>>::cast(DateTime::<Nanosecond>::new(v))), &Some(v));
        t.check("L7 Time -> Option<i64>", None, "Time", "Option<i64>", format!("{v}"), catch(|| Cast::<Option<i64>>::cast(Time(v))), &Some(v));
        t.check("L6 Time -> i64", None, "Time", "i64", format!("{v}"), catch(|| Cast::<i64>::cast(Time(v))), &v);
        // a duration of ~300 years does not fit in i64 nanoseconds but its microsecond count does
        for days in [110_000i64, -110_000] {
            let d = TimeDelta::parse(&format!("{days}d")).unwrap();
            let us = days * 86_400_000_000;
            t.check("L6 TimeDelta -> i64 (long)", None, "TimeDelta", "i64", format!("{days}d"), catch(|| Cast::<i64>::cast(d)), &us);
            t.check("L7 TimeDelta -> Option<i64> (long)", None, "TimeDelta", "Option<i64>", format!("{days}d"), catch(|| Cast::<Option<i64>>::cast(d)), &Some(us));
            t.check("L6 TimeDelta -> f64 (long)", None, "TimeDelta", "f64", format!("{days}d"), catch(|| Cast::<f64>::cast(d)), &(us as f64));
            t.check("L7 TimeDelta -> Option<f64> (long)", None, "TimeDelta", "Option<f64>", format!("{days}d"), catch(|| Cast::<Option<f64>>::cast(d)), &Some(us as f64));
        }
        // a month-free duration counts microseconds (a duration with months -> i64 is a documented panic, not driven)
        let d = TimeDelta::from(v * 1000);
        t.check("L6 TimeDelta -> i64", None, "TimeDelta", "i64", format!("{v}us"), catch(|| Cast::<i64>::cast(d)), &v);
        t.check("L7 TimeDelta -> Option<i64>", None, "TimeDelta", "Option<i64>", format!("{v}us"), catch(|| Cast::<Option<i64>>::cast(d)), &Some(v));
    }
    t.check("L5 NaT -> Option<i64>", None, "DateTime<ns>", "Option<i64>", "NaT".into(), catch(|| Cast::<Option<i64>>::cast(DateTime::<Nanosecond>::nat())), &None);
    t.check("L5 NaT -> Option<i64>", None, "Time", "Option<i64>", "NaT".into(), catch(|| Cast::<Option<i64>>::cast(Time::nat())), &None);
    t.check("L5 NaT -> Option<i64>", Some("F21"), "TimeDelta", "Option<i64>", "NaT".into(), catch(|| Cast::<Option<i64>>::cast(TimeDelta::nat())), &None);
    // (L12, seed round 12) DateTime<U> -> DateTime<T>, all twelve ordered unit pairs (enumerated by macro: a removed impl
    // is a build error): NaT stays NaT in both directions (a null is never turned into a value), a value that fits is the
    // floor of the rescaled count, a value that does not fit the finer unit is NaT
    macro_rules! unit_pairs {
        ($t:ident; $($U:ident($un:expr, $up:expr) => [$($T:ident($tn:expr, $tp:expr)),*]);*) => {$($(
            {
                let (from, to) = (format!("DateTime<{}>", $un), format!("DateTime<{}>", $tn));
                $t.truth("L5 NaT -> DateTime<other unit> is NaT", None, &from, format!("NaT -> {to}"),
                    catch(|| Cast::<DateTime<$T>>::cast(DateTime::<$U>::nat()).is_nat()), "NaT");
                $t.truth("L5 NaT -> DateTime<other unit> is none", None, &from, format!("NaT -> {to} (is_none)"),
                    catch(|| Cast::<DateTime<$T>>::cast(DateTime::<$U>::nat()).is_none()), "NaT");
                for v in [0i64, 1, -1, 999, 1000, -1000, -1001, 1_000_000_001, -1_000_000_001, 86_400_000_000_123, i64::MAX, i64::MIN + 1, i64::MAX / 1000, i64::MAX / 1000 + 1] {
                    let (up, tp): (i128, i128) = ($up, $tp); // units per second
                    let want = if tp <= up { DateTime::<$T>::new((v as i128).div_euclid(up / tp) as i64) }
                        else { (v as i128 * (tp / up)).try_into().ok().filter(|x: &i64| *x != i64::MIN).map_or(DateTime::<$T>::nat(), DateTime::<$T>::new) };
                    $t.check("L6 DateTime -> DateTime<other unit>", None, &from, &to, format!("{v}"), catch(|| Cast::<DateTime<$T>>::cast(DateTime::<$U>::new(v))), &want);
                }
            }
        )*)*};
    }
    unit_pairs!(t;
        Second("s", 1) => [Millisecond("ms", 1_000), Microsecond("us", 1_000_000), Nanosecond("ns", 1_000_000_000)];
        Millisecond("ms", 1_000) => [Second("s", 1), Microsecond("us", 1_000_000), Nanosecond("ns", 1_000_000_000)];
        Microsecond("us", 1_000_000) => [Second("s", 1), Millisecond("ms", 1_000), Nanosecond("ns", 1_000_000_000)];
        Nanosecond("ns", 1_000_000_000) => [Second("s", 1), Millisecond("ms", 1_000), Microsecond("us", 1_000_000)]
    );
    // (Cast<String> for DateTime is bounded by CrDateTime: From<DateTime>, which has no impl: not callable)
    // bool <-> String
    for b in [false, true] {
        t.check("L6 bool -> String", None, "bool", "String", format!("{b}"), catch(|| Cast::<String>::cast(b)), &b.to_string());
        t.check("L3 String -> bool round trip", None, "String", "bool", format!("{b}"), catch(|| Cast::<bool>::cast(b.to_string())), &b);
        // F35: Some(b) -> String is the Debug form "Some(true)" instead of the cast of b
        t.check("L7 Some(bool) -> String", Some("F35"), "Option<bool>", "String", format!("Some({b})"), catch(|| Cast::<String>::cast(Some(b))), &b.to_string());
    }
    t.check("L5 None::<bool> -> String", None, "Option<bool>", "String", "None".into(), catch(|| Cast::<String>::cast(None::<bool>)), &"None".to_string());
    t.check("L5 \"None\" -> Option<bool>", None, "String", "Option<bool>", "\"None\"".into(), catch(|| Cast::<Option<bool>>::cast("None".to_string())), &None::<bool>);
    t.check("L7 Some(bool) -> bool", None, "Option<bool>", "bool", "Some(true)".into(), catch(|| Cast::<bool>::cast(Some(true))), &true);
    // (L1)-(L3) on every type
    macro_rules! nl {
        ($T:ty, $nullable:expr) => {
            null_laws::<$T>(&mut t, <$T as Vals>::NAME, <$T as Vals>::vals(), $nullable, |x| x.show(), |a, b| a.same(b));
            null_laws::<Option<$T>>(&mut t, &format!("Option<{}>", <$T as Vals>::NAME), <$T as Vals>::vals().into_iter().filter(|x| !x.is_none()).map(Some).chain([None]).collect(), true, |x| x.show(), |a, b| a.same(b));
        };
    }
    nl!(u8, false);
    nl!(u64, false);
    nl!(i64, false);
    nl!(i32, false);
    nl!(usize, false);
    nl!(isize, false);
    nl!(f32, true);
    nl!(f64, true);
    null_laws::<bool>(&mut t, "bool", vec![false, true], false, |x| x.show(), |a, b| a == b);
    null_laws::<Option<bool>>(&mut t, "Option<bool>", vec![Some(false), Some(true), None], true, |x| x.show(), |a, b| a == b);
    null_laws::<String>(&mut t, "String", ["0", "1", "-1", "1.5", "None", "x", ""].iter().map(|s| s.to_string()).collect(), true, |x| x.show(), |a, b| a == b);
    null_laws::<&str>(&mut t, "&str", vec!["0", "1", "None", "x", ""], true, |x| format!("{x:?}"), |a, b| a == b);
    let tv = [0i64, 1, -1, 1_000_000_001, i64::MIN, i64::MIN + 1, i64::MAX];
    null_laws::<DateTime<Second>>(&mut t, "DateTime<s>", tv.iter().map(|v| DateTime::new(*v)).collect(), true, |x| x.show(), |a, b| a.same(b));
    null_laws::<DateTime<Millisecond>>(&mut t, "DateTime<ms>", tv.iter().map(|v| DateTime::new(*v)).collect(), true, |x| x.show(), |a, b| a.same(b));
    null_laws::<DateTime<Microsecond>>(&mut t, "DateTime<us>", tv.iter().map(|v| DateTime::new(*v)).collect(), true, |x| x.show(), |a, b| a.same(b));
    null_laws::<DateTime<Nanosecond>>(&mut t, "DateTime<ns>", tv.iter().map(|v| DateTime::new(*v)).collect(), true, |x| x.show(), |a, b| a.same(b));
    null_laws::<Time>(&mut t, "Time", tv.iter().map(|v| Time(*v)).collect(), true, |x| x.show(), |a, b| a.same(b));
    let mut tds: Vec<TimeDelta> = ["0s", "1s", "-1s", "1mo", "-2y1d"].iter().map(|s| TimeDelta::parse(s).unwrap()).collect();
    tds.push(TimeDelta::nat());
    null_laws::<TimeDelta>(&mut t, "TimeDelta", tds, true, |x| x.show(), |a, b| a == b);
    // the remaining IsNone impl: a Vec as an element (empty = null)
    null_laws::<Vec<i32>>(&mut t, "Vec<i32>", vec![vec![], vec![0], vec![1, 2]], true, |x| format!("{x:?}"), |a, b| a == b);
    vabs_laws(&mut t);
    // (L10) the accessor family of the Number trait is the language's `as` conversion, every accessor the same one
    macro_rules! l10 {
        ($T:ty) => {{
            use tevec::prelude::Number;
            let from = <$T as Vals>::NAME;
            for x in <$T as Vals>::vals() {
                let xs = x.show();
                t.check("L10 Number::f64 == as f64", None, from, "f64", xs.clone(), catch(|| Number::f64(x)), &(x as f64));
                t.check("L10 Number::f32 == as f32", None, from, "f32", xs.clone(), catch(|| Number::f32(x)), &(x as f32));
                t.check("L10 Number::i32 == as i32", None, from, "i32", xs.clone(), catch(|| Number::i32(x)), &(x as i32));
                t.check("L10 Number::i64 == as i64", None, from, "i64", xs.clone(), catch(|| Number::i64(x)), &(x as i64));
                t.check("L10 Number::usize == as usize", None, from, "usize", xs.clone(), catch(|| Number::usize(x)), &(x as usize));
                t.check("L10 Number::to::<f64>", None, from, "f64", xs.clone(), catch(|| x.to::<f64>()), &(x as f64));
                t.check("L10 Number::to::<i64>", None, from, "i64", xs.clone(), catch(|| x.to::<i64>()), &(x as i64));
                t.check("L10 Number::to::<usize>", None, from, "usize", xs.clone(), catch(|| x.to::<usize>()), &(x as usize));
                t.check("L10 Number::to::<i32>", None, from, "i32", xs.clone(), catch(|| x.to::<i32>()), &(x as i32));
                t.check("L10 Number::to::<f32>", None, from, "f32", xs.clone(), catch(|| x.to::<f32>()), &(x as f32));
                t.check("L10 fromas", None, from, "f64", xs.clone(), catch(|| <f64 as Number>::fromas(x)), &(x as f64));
                t.check("L10 fromas", None, from, "usize", xs.clone(), catch(|| <usize as Number>::fromas(x)), &(x as usize));
                t.check("L10 fromas", None, from, "i32", xs.clone(), catch(|| <i32 as Number>::fromas(x)), &(x as i32));
            }
            t.check("L10 min_() == MIN", None, from, from, "MIN".into(), catch(|| <$T as Number>::min_()), &<$T>::MIN);
            t.check("L10 max_() == MAX", None, from, from, "MAX".into(), catch(|| <$T as Number>::max_()), &<$T>::MAX);
        }};
    }
    l10!(f64);
    l10!(f32);
    l10!(i32);
    l10!(i64);
    l10!(u64);
    l10!(usize);
    // (L9) casts into the null convention of another type
    macro_rules! l9 {
        ($S:ty, $sn:expr) => {
            inner_cast_laws::<$S, f64>(&mut t, $sn, "f64", <f64 as Vals>::vals(), |x| x.show(), |a, b| a.same(b));
            inner_cast_laws::<$S, f32>(&mut t, $sn, "f32", <f32 as Vals>::vals(), |x| x.show(), |a, b| a.same(b));
            inner_cast_laws::<$S, i32>(&mut t, $sn, "i32", <i32 as Vals>::vals(), |x| x.show(), |a, b| a.same(b));
            inner_cast_laws::<$S, i64>(&mut t, $sn, "i64", <i64 as Vals>::vals(), |x| x.show(), |a, b| a.same(b));
            inner_cast_laws::<$S, usize>(&mut t, $sn, "usize", <usize as Vals>::vals(), |x| x.show(), |a, b| a.same(b));
            inner_cast_laws::<$S, String>(&mut t, $sn, "String", ["0", "1", "None", "x"].iter().map(|s| s.to_string()).collect(), |x| x.show(), |a, b| a == b);
        };
    }
    l9!(f64, "f64");
    l9!(f32, "f32");
    l9!(i32, "i32");
    l9!(i64, "i64");
    l9!(usize, "usize");
    l9!(Option<f64>, "Option<f64>");
    l9!(Option<f32>, "Option<f32>");
    l9!(Option<i32>, "Option<i32>");
    l9!(Option<i64>, "Option<i64>");
    l9!(Option<usize>, "Option<usize>");
    {
        let dts: Vec<DateTime<Nanosecond>> = tv.iter().map(|v| DateTime::new(*v)).collect();
        inner_cast_laws::<i64, DateTime<Nanosecond>>(&mut t, "i64", "DateTime<ns>", dts.clone(), |x| x.show(), |a, b| a.same(b));
        inner_cast_laws::<Option<i64>, DateTime<Nanosecond>>(&mut t, "Option<i64>", "DateTime<ns>", dts.clone(), |x| x.show(), |a, b| a.same(b));
        inner_cast_laws::<DateTime<Nanosecond>, DateTime<Nanosecond>>(&mut t, "DateTime<ns>", "DateTime<ns>", dts, |x| x.show(), |a, b| a.same(b));
        let mut tds: Vec<TimeDelta> = ["0s", "1s", "-1s", "1mo"].iter().map(|s| TimeDelta::parse(s).unwrap()).collect();
        tds.push(TimeDelta::nat());
        inner_cast_laws::<Option<i64>, TimeDelta>(&mut t, "Option<i64>", "TimeDelta", tds.clone(), |x| x.show(), |a, b| a == b);
        inner_cast_laws::<TimeDelta, TimeDelta>(&mut t, "TimeDelta", "TimeDelta", tds, |x| x.show(), |a, b| a == b);
    }
    // (L8) comparators
    macro_rules! ol {
        ($T:ty) => {
            order_laws::<$T>(&mut t, <$T as Vals>::NAME, &<$T as Vals>::vals(), |a, b| a.partial_cmp(b), |x| x.show());
            let ov: Vec<Option<$T>> = <$T as Vals>::vals().into_iter().filter(|x| !x.is_none()).map(Some).chain([None, None]).collect();
            order_laws::<Option<$T>>(&mut t, &format!("Option<{}>", <$T as Vals>::NAME), &ov, |a, b| a.unwrap().partial_cmp(&b.unwrap()), |x| x.show());
        };
    }
    ol!(f64);
    ol!(f32);
    ol!(i32);
    ol!(i64);
    ol!(u8);
    ol!(u64);
    ol!(usize);
    ol!(isize);
    order_laws::<DateTime<Nanosecond>>(&mut t, "DateTime<ns>", &tv.iter().map(|v| DateTime::new(*v)).collect::<Vec<_>>(), |a, b| a.0.partial_cmp(&b.0), |x| x.show());
    order_laws::<Time>(&mut t, "Time", &tv.iter().map(|v| Time(*v)).collect::<Vec<_>>(), |a, b| a.0.partial_cmp(&b.0), |x| x.show());
    order_laws::<DateTime<Second>>(&mut t, "DateTime<s>", &tv.iter().map(|v| DateTime::new(*v)).collect::<Vec<_>>(), |a, b| a.0.partial_cmp(&b.0), |x| x.show());
    order_laws::<DateTime<Millisecond>>(&mut t, "DateTime<ms>", &tv.iter().map(|v| DateTime::new(*v)).collect::<Vec<_>>(), |a, b| a.0.partial_cmp(&b.0), |x| x.show());
    order_laws::<DateTime<Microsecond>>(&mut t, "DateTime<us>", &tv.iter().map(|v| DateTime::new(*v)).collect::<Vec<_>>(), |a, b| a.0.partial_cmp(&b.0), |x| x.show());
    // durations: ordered by (months, month-free part), NaT last
    // sub-microsecond differences and durations beyond 292 years (their nanosecond / microsecond counts do not fit i64)
    let mut tds: Vec<TimeDelta> = ["0s", "1s", "-1s", "1d", "1mo", "1mo1s", "-1mo", "-2y1d", "2y", "1ns", "1000ns", "1200ns", "1500ns", "110000d", "150000d", "150000d1ns", "-150000d", "1mo150000d", "1mo110000d"]
        .iter()
        .map(|s| TimeDelta::parse(s).unwrap())
        .collect();
    tds.push(TimeDelta::nat());
    tds.push(TimeDelta::nat());
    order_laws::<TimeDelta>(&mut t, "TimeDelta", &tds, |a, b| (a.months, a.inner).partial_cmp(&(b.months, b.inner)), |x| x.show());
    // (L11) the equality the run / tie logic relies on: two durations are equal iff months and month-free part are
    t.ctx.fam("laws").states += (tds.len() * tds.len()) as u64;
    for a in &tds {
        for b in &tds {
            let (a1, b1) = (*a, *b);
            let want = a.months == b.months && a.inner == b.inner;
            t.truth("L11 a == b iff the fields are equal", None, "TimeDelta", format!("({}, {})", a.show(), b.show()), catch(move || (a1 == b1) == want && (a1 != b1) == !want), "library equality == field equality");
        }
    }
}

fn main() {
    let run = Run::from_args("C15");
    let mut ctx = Ctx::new();
    run_all(&mut ctx);
    if let Some(path) = &run.replay {
        let stored = load_replay(path).unwrap_or_else(|e| {
            eprintln!("MACHINERY-ERROR: {e}");
            std::process::exit(2)
        });
        std::process::exit(finish_replay(&run, &stored, ctx));
    }
    ctx.sample(json!({"law": "L6 cast == as", "from": "f64", "to": "u8", "value": "254.99", "model": "254u8"}));
    ctx.sample(json!({"law": "L7 chain T->Option<T>->U", "from": "i64", "to": "f32", "value": "9223372036854775807", "model": "9.223372e18f32"}));
    ctx.sample(json!({"law": "L8 sort_cmp_rev", "type": "Option<f64>", "value": "(None, Some(1.0))", "model": "Greater (nulls last in both directions)"}));
    let meta = Meta {
        rule: "finite lattice (type, value): types u8,u64,i64,i32,f32,f64,usize,isize,bool, their Option forms, String/&str, DateTime<s|ms|us|ns>, TimeDelta, Time; 12-30 values per type (0, +-1, 2, 255, 256, 2^31-1, 2^31, 2^63-1, MIN, MAX, +-0.5, 1e10, +-inf, subnormal, NaN, -0.0 ...); actions: every Cast instance of the numeric lattice (8x8 pairs, enumerated by macro so a removed impl is a build error) with the Option forms on either side and depth-2 chains through Option, casts to / from bool, String and the time types; laws L1-L8 of DESIGN C15 incl. the order axioms on all pairs and triples. Exhaustive over this lattice. Non-trivial = distinct (law, source type, target type, value) obligations. Also (DESIGN 5.15, 5.16) L9: inner_cast / into_cast keep the value and keep a null a null (ten Self types x eight value types); L10: the accessor family of the Number trait (f64, f32, i32, i64, usize, to, fromas, min_, max_) against `as`. Round 8 (DESIGN 5.17): the float value lists hold NAN and -NAN (the run-time NaN of x86-64), twice each, for the predicate, cast and comparator laws. Round 9 (DESIGN 5.18): L11 - equality is the identity of the value (for TimeDelta: of its month count and its duration), on a value list with sub-microsecond, month-bearing and longer-than-292-year durations, which also feed the comparator laws L8.".into(),
        bounds: json!({"numeric_types": ["u8","u64","i64","i32","f32","f64","usize","isize"], "chain_depth": 2}),
        assumptions: vec!["documented panics are not driven: none() on integer / bool types, None -> bool, x -> bool for x not in {0,1}, string parse failures, bool <-> time".into(), "canonical nulls only (DESIGN 5.4)".into()],
        exhaustive: true,
        min_states: 1000,
    };
    std::process::exit(finish(&run, meta, ctx));
}
