//! reference model: time
