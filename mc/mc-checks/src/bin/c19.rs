//! C19 — generators and collectors build exactly the requested sequence.
use mc_checks::*;

mod imp {
    use mc_adapt::probe::*;
    use mc_checks::*;
    use ndarray::Array1;
    use polars::prelude::{Float64Chunked, Int32Chunked};
    use std::collections::VecDeque;
    use tevec::prelude::*;

    #[derive(Clone, Copy, Debug, PartialEq)]
    pub enum Cont {
        Probe,
        Vec,
        Deque,
        Array,
        Polars,
    }
    pub const CONTS: [Cont; 5] = [Cont::Probe, Cont::Vec, Cont::Deque, Cont::Array, Cont::Polars];

    macro_rules! gen_int {
        ($name:ident, $lname:ident, $T:ty, $PT:ty) => {
            pub fn $name(c: Cont, a: i64, b: i64, st: i64) -> Outcome<Vec<Cell>> {
                let (a, b, st) = (a as $T, b as $T, st as $T);
                catch(|| match c {
                    Cont::Probe => <ProbeOut<$T> as Vec1Create<$T>>::range(Some(a), b, Some(st)).cells(),
                    Cont::Vec => <Vec<$T> as Vec1Create<$T>>::range(Some(a), b, Some(st)).cells(),
                    Cont::Deque => <VecDeque<$T> as Vec1Create<$T>>::range(Some(a), b, Some(st)).cells(),
                    Cont::Array => <Array1<$T> as Vec1Create<$T>>::range(Some(a), b, Some(st)).cells(),
                    Cont::Polars => panic!("no polars container for this type"),
                })
            }
            pub fn $lname(c: Cont, a: i64, b: i64, n: usize) -> Outcome<Vec<Cell>> {
                let (a, b) = (a as $T, b as $T);
                catch(|| match c {
                    Cont::Probe => <ProbeOut<$T> as Vec1Create<$T>>::linspace(Some(a), b, n).cells(),
                    Cont::Vec => <Vec<$T> as Vec1Create<$T>>::linspace(Some(a), b, n).cells(),
                    Cont::Deque => <VecDeque<$T> as Vec1Create<$T>>::linspace(Some(a), b, n).cells(),
                    Cont::Array => <Array1<$T> as Vec1Create<$T>>::linspace(Some(a), b, n).cells(),
                    Cont::Polars => panic!("no polars container for this type"),
                })
            }
        };
    }
    macro_rules! gen_opt {
        ($name:ident, $lname:ident, $T:ty, $E:ty, $conv:expr) => {
            /// range / linspace with start and / or step omitted (None)
            pub fn $name(c: Cont, a: Option<f64>, b: f64, st: Option<f64>) -> Outcome<Vec<Cell>> {
                let cv: fn(f64) -> $T = $conv;
                let (a, b, st) = (a.map(cv), cv(b), st.map(cv));
                catch(|| match c {
                    Cont::Vec => <Vec<$E> as Vec1Create<$E>>::range(a, b, st).cells(),
                    Cont::Deque => <VecDeque<$E> as Vec1Create<$E>>::range(a, b, st).cells(),
                    Cont::Array => <Array1<$E> as Vec1Create<$E>>::range(a, b, st).cells(),
                    _ => <ProbeOut<$E> as Vec1Create<$E>>::range(a, b, st).cells(),
                })
            }
            pub fn $lname(c: Cont, a: Option<f64>, b: f64, n: usize) -> Outcome<Vec<Cell>> {
                let cv: fn(f64) -> $T = $conv;
                let (a, b) = (a.map(cv), cv(b));
                catch(|| match c {
                    Cont::Vec => <Vec<$E> as Vec1Create<$E>>::linspace(a, b, n).cells(),
                    Cont::Deque => <VecDeque<$E> as Vec1Create<$E>>::linspace(a, b, n).cells(),
                    Cont::Array => <Array1<$E> as Vec1Create<$E>>::linspace(a, b, n).cells(),
                    _ => <ProbeOut<$E> as Vec1Create<$E>>::linspace(a, b, n).cells(),
                })
            }
        };
    }
    gen_opt!(range_opt_i32, linspace_opt_i32, i32, i32, |v| v as i32);
    gen_opt!(range_opt_usize, linspace_opt_usize, usize, usize, |v| v as usize);
    gen_opt!(range_opt_f64, linspace_opt_f64, f64, f64, |v| v);
    gen_opt!(range_opt_f32, linspace_opt_f32, f32, f32, |v| v as f32);
    gen_int!(range_i32, linspace_i32, i32, Int32Type);
    gen_int!(range_i64, linspace_i64, i64, Int64Type);
    gen_int!(range_usize, linspace_usize, usize, UInt64Type);
    gen_int!(range_u64, linspace_u64, u64, UInt64Type);

    pub fn range_f64(c: Cont, a: f64, b: f64, st: f64) -> Outcome<Vec<Cell>> {
        catch(|| match c {
            Cont::Probe => <ProbeOut<f64> as Vec1Create<f64>>::range(Some(a), b, Some(st)).cells(),
            Cont::Vec => <Vec<f64> as Vec1Create<f64>>::range(Some(a), b, Some(st)).cells(),
            Cont::Deque => <VecDeque<Option<f64>> as Vec1Create<Option<f64>>>::range(Some(a), b, Some(st)).cells(),
            Cont::Array => <Array1<f64> as Vec1Create<f64>>::range(Some(a), b, Some(st)).cells(),
            Cont::Polars => <Float64Chunked as Vec1Create<Option<f64>>>::range(Some(a), b, Some(st)).cells(),
        })
    }
    pub fn linspace_f64(c: Cont, a: f64, b: f64, n: usize) -> Outcome<Vec<Cell>> {
        catch(|| match c {
            Cont::Probe => <ProbeOut<f64> as Vec1Create<f64>>::linspace(Some(a), b, n).cells(),
            Cont::Vec => <Vec<f64> as Vec1Create<f64>>::linspace(Some(a), b, n).cells(),
            Cont::Deque => <VecDeque<Option<f64>> as Vec1Create<Option<f64>>>::linspace(Some(a), b, n).cells(),
            Cont::Array => <Array1<f64> as Vec1Create<f64>>::linspace(Some(a), b, n).cells(),
            Cont::Polars => <Float64Chunked as Vec1Create<Option<f64>>>::linspace(Some(a), b, n).cells(),
        })
    }
    pub fn full_and_empty(c: Cont, len: usize, v: X) -> Outcome<(Vec<Cell>, Vec<Cell>)> {
        catch(|| match c {
            Cont::Probe => (<ProbeOut<f64> as Vec1<f64>>::full(len, f64::enc(v)).cells(), <ProbeOut<f64> as Vec1<f64>>::empty().cells()),
            Cont::Vec => (<Vec<f64> as Vec1<f64>>::full(len, f64::enc(v)).cells(), <Vec<f64> as Vec1<f64>>::empty().cells()),
            Cont::Deque => (<VecDeque<Option<f64>> as Vec1<Option<f64>>>::full(len, v).cells(), <VecDeque<Option<f64>> as Vec1<Option<f64>>>::empty().cells()),
            Cont::Array => (<Array1<f64> as Vec1<f64>>::full(len, f64::enc(v)).cells(), <Array1<f64> as Vec1<f64>>::empty().cells()),
            Cont::Polars => (<Float64Chunked as Vec1<Option<f64>>>::full(len, v).cells(), <Float64Chunked as Vec1<Option<f64>>>::empty().cells()),
        })
    }

    /// the collectors on a list (items Option<f64>; Option<i32> for the integer Polars container)
    pub fn collect(c: Cont, how: &str, list: &[X]) -> Outcome<Vec<Cell>> {
        let items: Vec<Option<f64>> = list.to_vec();
        let n = items.len();
        let how = how.to_string();
        macro_rules! go {
            ($O:ty) => {
                match how.as_str() {
                    "collect_vec1" => items.clone().into_iter().collect_vec1::<$O>().cells(),
                    "collect_trusted_vec1" => items.clone().into_iter().collect_trusted_vec1::<$O>().cells(),
                    "collect_vec1_with_len" => items.clone().into_iter().filter(|_| true).collect_vec1_with_len::<$O>(n).cells(),
                    "collect_vec1_opt" => items.clone().into_iter().map(|v| Some(v)).collect_vec1_opt::<$O>().cells(),
                    "collect_vec1_opt(nulls)" => items.clone().into_iter().map(|v| v.map(Some)).collect_vec1_opt::<$O>().cells(),
                    _ => panic!("unknown collector"),
                }
            };
        }
        catch(|| match c {
            Cont::Probe => go!(ProbeOut<Option<f64>>),
            Cont::Vec => go!(Vec<Option<f64>>),
            Cont::Deque => go!(VecDeque<Option<f64>>),
            Cont::Array => go!(Array1<Option<f64>>),
            Cont::Polars => go!(Float64Chunked),
        })
    }
    /// fallible collectors: errors at the given positions; Ok(cells) / Err(message)
    pub fn try_collect(c: Cont, trusted: bool, list: &[X], err_at: &[usize]) -> Outcome<Result<Vec<Cell>, String>> {
        let items: Vec<TResult<Option<f64>>> = list.iter().enumerate().map(|(i, v)| if err_at.contains(&i) { Err(TError::Str(format!("e{i}").into())) } else { Ok(*v) }).collect();
        macro_rules! go {
            ($O:ty) => {
                if trusted {
                    items.into_iter().try_collect_trusted_vec1::<$O>().map(|o| o.cells()).map_err(|e| e.to_string())
                } else {
                    items.into_iter().try_collect_vec1::<$O>().map(|o| o.cells()).map_err(|e| e.to_string())
                }
            };
        }
        catch(|| match c {
            Cont::Probe => panic!("the default try_collect_from_iter unwraps (documented default body)"),
            Cont::Vec => go!(Vec<Option<f64>>),
            Cont::Deque => go!(VecDeque<Option<f64>>),
            Cont::Array => go!(Array1<Option<f64>>),
            Cont::Polars => go!(Float64Chunked),
        })
    }
    pub fn try_collect_i32_polars(list: &[X], err_at: &[usize], trusted: bool) -> Outcome<Result<Vec<Cell>, String>> {
        let items: Vec<TResult<Option<i32>>> = list.iter().enumerate().map(|(i, v)| if err_at.contains(&i) { Err(TError::Str(format!("e{i}").into())) } else { Ok(v.map(|x| x as i32)) }).collect();
        catch(|| {
            if trusted {
                items.into_iter().try_collect_trusted_vec1::<Int32Chunked>().map(|o| o.cells()).map_err(|e| e.to_string())
            } else {
                items.into_iter().try_collect_vec1::<Int32Chunked>().map(|o| o.cells()).map_err(|e| e.to_string())
            }
        })
    }

    /// write_trust_iter into an instrumented buffer: (result ok?, cells, faults, writes)
    pub fn write_iter(buf_len: usize, iter_len: usize) -> Outcome<(bool, Vec<Cell>, Vec<String>, u64)> {
        probe_reset();
        let r = catch(|| {
            let mut buf = <ProbeOut<f64> as Vec1<f64>>::uninit(buf_len);
            let ok = {
                let mut out = <ProbeOut<f64> as Vec1<f64>>::uninit_ref_mut(&mut buf);
                (0..iter_len).map(|i| 10.0 + i as f64).collect_trusted_to_vec().into_iter().write(&mut out).is_ok()
            };
            let writes = probe_take_counts();
            let cells = if ok { buf.finish().cells() } else { vec![] };
            (ok, cells, writes)
        });
        let log = probe_take();
        match r {
            Outcome::Ok((ok, cells, writes)) => Outcome::Ok((ok, cells, log.faults, writes)),
            Outcome::Panic(m) => Outcome::Panic(m),
        }
    }
    /// the checked `UninitVec::set` on an instrumented buffer: (Ok?, writes, faults)
    pub fn checked_set(buf_len: usize, idx: usize) -> Outcome<(bool, u64, Vec<String>)> {
        probe_reset();
        let r = catch(|| {
            let mut buf = <ProbeOut<f64> as Vec1<f64>>::uninit(buf_len);
            buf.set(idx, 1.5).is_ok()
        });
        let log = probe_take();
        match r {
            Outcome::Ok(ok) => Outcome::Ok((ok, log.usets, log.faults)),
            Outcome::Panic(m) => Outcome::Panic(m),
        }
    }
    fn probe_take_counts() -> u64 {
        let l = probe_take();
        l.usets
    }
    // ---- the same sequence through every iterator shape the library declares trusted ----
    pub const SHAPES: [&str; 19] = [
        "Vec::into_iter", "slice.iter().cloned()", "slice.iter().copied()", "(0..n).map", "scan (running state)", "zip.map", "chain", "take", "rev",
        "enumerate.map", "step_by(2)", "(0..=n-1).map", "VecDeque::into_iter (wrapped)", "VecDeque.iter().cloned()", "Array1.iter().cloned()",
        "filter.to_trust(n)", "windows(1).map", "chunks_exact(1).map", "titer()",
    ];
    /// evaluate `$body` with `$it` bound to the sequence 10, 11, .. (n items) built as shape `$k`
    macro_rules! shape {
        ($k:expr, $n:expr, |$it:ident| $body:expr) => {{
            let n: usize = $n;
            let v: Vec<f64> = (0..n).map(|i| 10.0 + i as f64).collect();
            match $k {
                0 => { let $it = v.clone().into_iter(); $body }
                1 => { let $it = v.iter().cloned(); $body }
                2 => { let $it = v.iter().copied(); $body }
                3 => { let $it = (0..n).map(|i| 10.0 + i as f64); $body }
                4 => { let $it = v.iter().cloned().scan(9.0f64, |s, _x| { *s += 1.0; Some(*s) }); $body }
                5 => { let ones = vec![1.0f64; n]; let $it = v.iter().zip(ones.iter()).map(|(a, b)| *a + *b - 1.0); $body }
                6 => { let (a, b) = v.split_at(n / 2); let $it = a.iter().cloned().chain(b.iter().cloned()); $body }
                7 => { let mut long = v.clone(); long.extend([-1.0, -2.0, -3.0]); let $it = long.into_iter().take(n); $body }
                8 => { let mut r = v.clone(); r.reverse(); let $it = r.into_iter().rev(); $body }
                9 => { let $it = v.clone().into_iter().enumerate().map(|(i, _)| 10.0 + i as f64); $body }
                10 => { let d: Vec<f64> = v.iter().flat_map(|x| [*x, -9.0]).collect(); let $it = d.into_iter().step_by(2); $body }
                11 => { if n == 0 { let $it = std::iter::empty::<f64>(); $body } else { let $it = (0..=n - 1).map(|i| 10.0 + i as f64); $body } }
                12 => { let d = mc_adapt::backends::deque_with_head(&v, n.max(4), 3, 0.0); let $it = d.into_iter(); $body }
                13 => { let d = mc_adapt::backends::deque_with_head(&v, n.max(4), n.max(4) - 1, 0.0); let $it = d.iter().cloned(); $body }
                14 => { let a = Array1::from_vec(v.clone()); let $it = a.iter().cloned(); $body }
                15 => { let $it = v.clone().into_iter().filter(|x| *x > 0.0).to_trust(n); $body }
                16 => { let $it = v.windows(1).map(|w| w[0]); $body }
                17 => { let $it = v.chunks_exact(1).map(|c| c[0]); $body }
                _ => { let $it = v.titer(); $body }
            }
        }};
    }
    /// (TrustedLen::len, is_empty) of the fresh iterator
    pub fn shape_len(k: usize, n: usize) -> Outcome<(usize, bool)> {
        catch(|| shape!(k, n, |it| (TrustedLen::len(&it), TrustedLen::is_empty(&it))))
    }
    /// the shape advanced by `nth(j)` first (an adaptor may override `nth` differently from `next`; round 11):
    /// (nth returned an item, TrustedLen::len afterwards, items still yielded by next()), and the same iterator
    /// written into a Vec buffer of exactly the remaining length: (Ok?, slots)
    pub fn shape_after_nth(k: usize, n: usize, j: usize) -> Outcome<(bool, usize, Vec<Cell>, bool, Vec<Cell>)> {
        catch(|| {
            let (some, len_after, rest) = shape!(k, n, |it| {
                let mut it = it;
                let item = it.nth(j);
                let l = TrustedLen::len(&it);
                let mut rest = vec![];
                while let Some(x) = it.next() {
                    rest.push(Cell::F(x));
                }
                (item.is_some(), l, rest)
            });
            let remaining = n.saturating_sub(j + 1);
            let mut buf = <Vec<f64> as Vec1<f64>>::uninit(remaining);
            let ok = {
                let mut out = <Vec<f64> as Vec1<f64>>::uninit_ref_mut(&mut buf);
                shape!(k, n, |it| {
                    let mut it = it;
                    let _ = it.nth(j);
                    it.write(&mut out).is_ok()
                })
            };
            (some, len_after, rest, ok, if ok { unsafe { buf.assume_init() }.cells() } else { vec![] })
        })
    }
    /// the collectors on that shape
    pub fn shape_collect(k: usize, n: usize) -> Vec<(&'static str, Outcome<Vec<Cell>>)> {
        vec![
            ("collect_trusted_to_vec", catch(|| shape!(k, n, |it| it.collect_trusted_to_vec().cells()))),
            ("collect_trusted_vec1<VecDeque>", catch(|| shape!(k, n, |it| it.collect_trusted_vec1::<VecDeque<f64>>().cells()))),
            ("collect_trusted_vec1<Array1>", catch(|| shape!(k, n, |it| it.collect_trusted_vec1::<Array1<f64>>().cells()))),
            ("collect_vec1<Vec>", catch(|| shape!(k, n, |it| it.collect_vec1::<Vec<f64>>().cells()))),
        ]
    }
    /// write into a buffer of `bl` slots of container / layout `sink`: (Ok?, slots afterwards; the pre-fill -777 marks an unwritten slot)
    pub const SINKS: [&str; 8] = ["Vec", "VecDeque", "Array1", "VecDeque (wrapped ring, head 3)", "VecDeque (wrapped ring, head len-1)", "Array1 (view, step 2)", "Array1 (reversed view)", "Array1 (view, step 3, offset 1)"];
    pub fn shape_write(k: usize, n: usize, bl: usize, sink: usize) -> Outcome<(bool, Vec<Cell>)> {
        use mc_adapt::outbuf::OutBuf;
        macro_rules! canon {
            ($O:ty) => {{
                // a canonical buffer is only read back when the write succeeded
                let mut buf = <$O as Vec1<f64>>::uninit(bl);
                let ok = {
                    let mut out = <$O as Vec1<f64>>::uninit_ref_mut(&mut buf);
                    shape!(k, n, |it| it.write(&mut out).is_ok())
                };
                (ok, if ok { unsafe { buf.assume_init() }.cells() } else { vec![] })
            }};
        }
        macro_rules! alt {
            ($O:ty, $kind:expr) => {{
                let mut ok = false;
                let vals = <$O as OutBuf<f64>>::alt_run(bl, $kind, &|| -777.0, |mut out| {
                    ok = shape!(k, n, |it| it.write(&mut out).is_ok());
                });
                (ok, vals.into_iter().map(Cell::f).collect())
            }};
        }
        catch(|| match sink {
            0 => canon!(Vec<f64>),
            1 => canon!(VecDeque<f64>),
            2 => canon!(Array1<f64>),
            3 => alt!(VecDeque<f64>, 1),
            4 => alt!(VecDeque<f64>, 2),
            5 => alt!(Array1<f64>, 1),
            6 => alt!(Array1<f64>, 2),
            _ => alt!(Array1<f64>, 3),
        })
    }

    /// the same on the real containers (only driven when the model says every slot is written)
    pub fn write_iter_real(c: Cont, buf_len: usize, iter_len: usize) -> Outcome<(bool, Vec<Cell>)> {
        macro_rules! go {
            ($O:ty) => {{
                let mut buf = <$O as Vec1<f64>>::uninit(buf_len);
                let ok = {
                    let mut out = <$O as Vec1<f64>>::uninit_ref_mut(&mut buf);
                    (0..iter_len).map(|i| 10.0 + i as f64).collect_trusted_to_vec().into_iter().write(&mut out).is_ok()
                };
                (ok, unsafe { buf.assume_init() }.cells())
            }};
        }
        catch(|| match c {
            Cont::Vec => go!(Vec<f64>),
            Cont::Deque => go!(VecDeque<f64>),
            Cont::Array => go!(Array1<f64>),
            _ => panic!("no uset"),
        })
    }

    /// the collectors on element types other than Option<f64> (seed round 10): items are the small integers
    /// `vals` (None = a missing item, only for the optional collector); every result is rendered as text
    pub const TYPED: [&str; 10] = ["i32", "i64", "usize", "u64", "u8", "bool", "f32", "f64", "String", "Option<i64>"];
    pub fn collect_typed(ty: usize, cont: usize, how: &str, vals: &[Option<i64>]) -> Outcome<Vec<String>> {
        let how = how.to_string();
        macro_rules! cont {
            ($T:ty, $conv:expr, $show:expr) => {{
                let conv = $conv;
                let show = $show;
                let present: Vec<$T> = vals.iter().map(|v| conv(v.unwrap_or(0))).collect();
                let opt: Vec<Option<$T>> = vals.iter().map(|v| v.map(|x| conv(x))).collect();
                let n = vals.len();
                macro_rules! go {
                    ($O:ty) => {{
                        let o: $O = match how.as_str() {
                            "collect_vec1" => present.clone().into_iter().collect_vec1::<$O>(),
                            "collect_trusted_vec1" => present.clone().into_iter().collect_trusted_vec1::<$O>(),
                            "collect_vec1_with_len" => present.clone().into_iter().filter(|_| true).collect_vec1_with_len::<$O>(n),
                            "collect_vec1_opt" => opt.clone().into_iter().collect_vec1_opt::<$O>(),
                            _ => panic!("unknown collector"),
                        };
                        o.titer().map(|v| show(v)).collect::<Vec<String>>()
                    }};
                }
                match cont {
                    0 => go!(Vec<$T>),
                    1 => go!(VecDeque<$T>),
                    _ => go!(Array1<$T>),
                }
            }};
        }
        catch(|| match ty {
            0 => cont!(i32, |x: i64| x as i32, |v: i32| v.to_string()),
            1 => cont!(i64, |x: i64| x - 4_000_000_000_000, |v: i64| (v + 4_000_000_000_000).to_string()),
            2 => cont!(usize, |x: i64| x as usize, |v: usize| v.to_string()),
            3 => cont!(u64, |x: i64| x as u64, |v: u64| v.to_string()),
            4 => cont!(u8, |x: i64| x as u8, |v: u8| v.to_string()),
            5 => cont!(bool, |x: i64| x % 2 == 1, |v: bool| ((v as i64)).to_string()),
            6 => cont!(f32, |x: i64| x as f32 + 0.5, |v: f32| if v.is_nan() { "null".to_string() } else { ((v - 0.5) as i64).to_string() }),
            7 => cont!(f64, |x: i64| x as f64 + 0.25, |v: f64| if v.is_nan() { "null".to_string() } else { ((v - 0.25) as i64).to_string() }),
            8 => cont!(String, |x: i64| format!("s{x}"), |v: String| if v == "None" { "null".to_string() } else { v[1..].to_string() }),
            _ => cont!(Option<i64>, |x: i64| Some(x), |v: Option<i64>| v.map_or("null".to_string(), |x| x.to_string())),
        })
    }
}
use imp::*;

fn viol(ctx: &mut Ctx, entry: &str, finding: Option<&str>, case: Value, expected: String, got: String) {
    ctx.violation(Violation { entry: entry.into(), finding: finding.map(|s| s.into()), size: case.to_string().len(), case, expected, got });
}

/// the arithmetic progression start, start+step, ... strictly before end in the direction of step
fn range_model(a: f64, b: f64, st: f64) -> Vec<f64> {
    let mut v = vec![];
    let mut j = 0.0;
    loop {
        let x = a + j * st;
        if (st > 0.0 && x < b) || (st < 0.0 && x > b) {
            v.push(x);
            j += 1.0;
            if v.len() > 10_000 {
                break;
            }
        } else {
            break;
        }
    }
    v
}

fn check_ranges(ctx: &mut Ctx, bound: i64) {
    let fam = "range";
    type RunI = fn(Cont, i64, i64, i64) -> Outcome<Vec<Cell>>;
    for (tname, signed, run) in [("i32", true, range_i32 as RunI), ("i64", true, range_i64 as RunI), ("usize", false, range_usize as RunI), ("u64", false, range_u64 as RunI)] {
        let lo = if signed { -bound } else { 0 };
        for a in lo..=bound {
            for b in lo..=bound {
                for st in (-4i64..=4).filter(|s| *s != 0 && (signed || *s > 0)) {
                    ctx.states += 1;
                    ctx.fam(fam).states += 1;
                    ctx.nontrivial(fam, hash_bytes(format!("{tname}{a},{b},{st}").as_bytes()));
                    let want: Vec<Cell> = range_model(a as f64, b as f64, st as f64).into_iter().map(|x| Cell::I(x as i64)).collect();
                    for c in [Cont::Probe, Cont::Vec, Cont::Deque, Cont::Array] {
                        ctx.transitions += 1;
                        mc_adapt::probe::probe_reset();
                        let got = run(c, a, b, st);
                        let log = mc_adapt::probe::probe_take();
                        ctx.eval(fam, outcome_hash(&got));
                        let ok = matches!(&got, Outcome::Ok(g) if cells_eq(g, &want, exact_eq)) && log.faults.is_empty();
                        if !ok {
                            // F27: integer range truncates the element count; a backward / empty span becomes a huge usize
                            viol(ctx, "range(integers)", Some("F27"), json!({"family": fam, "type": tname, "container": format!("{c:?}"), "start": a, "end": b, "step": st}), show_cells(&want), format!("{} {:?}", show_outcome(&got), log.faults));
                        } else {
                            ctx.traces += 1;
                        }
                    }
                }
            }
        }
    }
    // floats on the dyadic grid (DESIGN 5.7)
    for a4 in (-4 * bound..=4 * bound).step_by(3) {
        for b4 in (-4 * bound..=4 * bound).step_by(2) {
            for st in [0.25, 0.5, 0.75, 1.0, 1.5, 2.0, -0.25, -0.5, -0.75, -1.0, -1.5, -2.0] {
                let (a, b) = (a4 as f64 / 4.0, b4 as f64 / 4.0);
                ctx.states += 1;
                ctx.fam(fam).states += 1;
                ctx.nontrivial(fam, hash_bytes(format!("f64{a},{b},{st}").as_bytes()));
                let want: Vec<Cell> = range_model(a, b, st).into_iter().map(Cell::f).collect();
                for c in CONTS {
                    ctx.transitions += 1;
                    let got = range_f64(c, a, b, st);
                    ctx.eval(fam, outcome_hash(&got));
                    if !matches!(&got, Outcome::Ok(g) if cells_eq(g, &want, exact_eq)) {
                        viol(ctx, "range(floats)", None, json!({"family": fam, "type": "f64", "container": format!("{c:?}"), "start": a, "end": b, "step": st}), show_cells(&want), show_outcome(&got));
                    } else {
                        ctx.traces += 1;
                    }
                }
            }
        }
    }
}

/// an omitted start means 0, an omitted step means 1: every combination of omitted / explicit arguments gives
/// the progression of the model
fn check_range_defaults(ctx: &mut Ctx, bound: i64) {
    let fam = "range-defaults";
    type RunO = fn(Cont, Option<f64>, f64, Option<f64>) -> Outcome<Vec<Cell>>;
    type RunLO = fn(Cont, Option<f64>, f64, usize) -> Outcome<Vec<Cell>>;
    for (tname, float, signed, run, lrun) in [
        ("i32", false, true, range_opt_i32 as RunO, linspace_opt_i32 as RunLO),
        ("usize", false, false, range_opt_usize as RunO, linspace_opt_usize as RunLO),
        ("f64", true, true, range_opt_f64 as RunO, linspace_opt_f64 as RunLO),
        ("f32", true, true, range_opt_f32 as RunO, linspace_opt_f32 as RunLO),
    ] {
        let grid: Vec<f64> = if float { (-4 * bound..=4 * bound).map(|v| v as f64 / 4.0).collect() } else { (if signed { -bound } else { 0 }..=bound).map(|v| v as f64).collect() };
        let cell = |x: f64| if float { Cell::f(x) } else { Cell::I(x as i64) };
        for &b in &grid {
            for (a, st) in [(None, None), (None, Some(1.0)), (Some(0.0), None), (None, Some(2.0)), (Some(1.0), None), (None, Some(-1.0)), (None, Some(0.5))] {
                if (!float && st == Some(0.5)) || (!signed && st.map_or(false, |s: f64| s < 0.0)) {
                    continue;
                }
                ctx.states += 1;
                ctx.fam(fam).states += 1;
                ctx.nontrivial(fam, hash_bytes(format!("{tname}{a:?},{b},{st:?}").as_bytes()));
                let want: Vec<Cell> = range_model(a.unwrap_or(0.0), b, st.unwrap_or(1.0)).into_iter().map(cell).collect();
                for c in [Cont::Probe, Cont::Vec, Cont::Deque, Cont::Array] {
                    ctx.transitions += 1;
                    mc_adapt::probe::probe_reset();
                    let got = run(c, a, b, st);
                    let log = mc_adapt::probe::probe_take();
                    ctx.eval(fam, outcome_hash(&got));
                    if matches!(&got, Outcome::Ok(g) if cells_eq(g, &want, exact_eq)) && log.faults.is_empty() {
                        ctx.traces += 1;
                    } else {
                        viol(ctx, "range(omitted start / step)", None, json!({"family": fam, "type": tname, "container": format!("{c:?}"), "start": a, "end": b, "step": st}), show_cells(&want), format!("{} {:?}", show_outcome(&got), log.faults));
                    }
                }
            }
            // linspace with the start omitted == linspace from 0
            for n in 0..=4usize {
                for c in [Cont::Probe, Cont::Vec, Cont::Deque, Cont::Array] {
                    ctx.transitions += 1;
                    let (x, y) = (lrun(c, None, b, n), lrun(c, Some(0.0), b, n));
                    ctx.eval(fam, outcome_hash(&x));
                    let same = match (&x, &y) {
                        (Outcome::Ok(p), Outcome::Ok(q)) => cells_eq(p, q, exact_eq),
                        (Outcome::Panic(_), Outcome::Panic(_)) => true,
                        _ => false,
                    };
                    if same {
                        ctx.traces += 1;
                    } else {
                        viol(ctx, "linspace(omitted start)", None, json!({"family": fam, "type": tname, "container": format!("{c:?}"), "end": b, "n": n}), show_outcome(&y), show_outcome(&x));
                    }
                }
            }
        }
    }
}

fn check_linspace(ctx: &mut Ctx, bound: i64) {
    let fam = "linspace";
    type RunL = fn(Cont, i64, i64, usize) -> Outcome<Vec<Cell>>;
    for (tname, signed, run) in [("i32", true, linspace_i32 as RunL), ("i64", true, linspace_i64 as RunL), ("usize", false, linspace_usize as RunL), ("u64", false, linspace_u64 as RunL)] {
        let lo = if signed { -bound } else { 0 };
        for a in lo..=bound {
            for b in lo..=bound {
                if !signed && b < a {
                    continue; // a descending integer linspace needs a negative step: not representable for unsigned types
                }
                for n in 0..=9usize {
                    ctx.states += 1;
                    ctx.fam(fam).states += 1;
                    ctx.nontrivial(fam, hash_bytes(format!("{tname}{a},{b},{n}").as_bytes()));
                    let step = if n > 1 { (b - a) / (n as i64 - 1) } else { 0 };
                    let want: Vec<Cell> = (0..n as i64).map(|j| Cell::I(a + j * step)).collect();
                    for c in [Cont::Probe, Cont::Vec, Cont::Deque, Cont::Array] {
                        ctx.transitions += 1;
                        let got = run(c, a, b, n);
                        ctx.eval(fam, outcome_hash(&got));
                        if !matches!(&got, Outcome::Ok(g) if cells_eq(g, &want, exact_eq)) {
                            viol(ctx, "linspace(integers)", None, json!({"family": fam, "type": tname, "container": format!("{c:?}"), "start": a, "end": b, "n": n}), show_cells(&want), show_outcome(&got));
                        } else {
                            ctx.traces += 1;
                        }
                    }
                }
            }
        }
    }
    for a4 in (-4 * bound..=4 * bound).step_by(5) {
        for b4 in (-4 * bound..=4 * bound).step_by(3) {
            for n in 0..=9usize {
                let (a, b) = (a4 as f64 / 4.0, b4 as f64 / 4.0);
                ctx.states += 1;
                ctx.fam(fam).states += 1;
                ctx.nontrivial(fam, hash_bytes(format!("f64{a},{b},{n}").as_bytes()));
                for c in CONTS {
                    ctx.transitions += 1;
                    let got = linspace_f64(c, a, b, n);
                    ctx.eval(fam, outcome_hash(&got));
                    let ok = match &got {
                        Outcome::Ok(g) => {
                            let v: Vec<f64> = g.iter().filter_map(|c| c.num()).collect();
                            let step = if n > 1 { (b - a) / (n as f64 - 1.0) } else { 0.0 };
                            v.len() == n && g.len() == n && (n == 0 || v[0] == a) && (n < 2 || close(v[n - 1], b)) && v.iter().enumerate().all(|(j, x)| close(*x, a + j as f64 * step))
                        }
                        _ => false,
                    };
                    if !ok {
                        viol(ctx, "linspace(floats)", None, json!({"family": fam, "container": format!("{c:?}"), "start": a, "end": b, "n": n}), format!("{n} points from {a} to {b}, constant step"), show_outcome(&got));
                    } else {
                        ctx.traces += 1;
                    }
                }
            }
        }
    }
}

/// beyond the small scope (DESIGN 5.14): long progressions (255, 256, 257, 1000 elements), starts of
/// magnitude 2^40 (still exact in f64, which the element count is formed in), long linspaces, long
/// collections and buffer writes
fn check_large(ctx: &mut Ctx) {
    let fam = "generators-large";
    let counts = [0i64, 1, 2, 255, 256, 257, 1000];
    for a in [0i64, -3, 1 << 40, -(1i64 << 40)] {
        for st in [1i64, 2, 3, 7, -1, -2, -7] {
            for n in counts {
                for slack in [0i64, 1] {
                    // end = a + st*n exactly, or one step-fraction short of it (same element count when |st| > 1)
                    let b = a + st * n - if slack == 1 && st.abs() > 1 && n > 0 { st.signum() } else { 0 };
                    let want: Vec<Cell> = (0..n).map(|j| Cell::I(a + j * st)).collect();
                    for c in [Cont::Probe, Cont::Vec, Cont::Array] {
                        ctx.states += 1;
                        ctx.fam(fam).states += 1;
                        ctx.transitions += 1;
                        ctx.nontrivial(fam, hash_bytes(format!("i64{a},{b},{st}").as_bytes()));
                        let got = range_i64(c, a, b, st);
                        ctx.eval(fam, outcome_hash(&got));
                        if matches!(&got, Outcome::Ok(g) if cells_eq(g, &want, exact_eq)) {
                            ctx.traces += 1;
                        } else {
                            let glen = match &got { Outcome::Ok(g) => g.len() as i64, _ => -1 };
                            viol(ctx, "range(integers, long)", None, json!({"family": fam, "type": "i64", "container": format!("{c:?}"), "start": a, "end": b, "step": st}), format!("{n} elements {}..", a), format!("{glen} elements: {}", truncate(&show_outcome(&got), 120)));
                        }
                    }
                }
            }
        }
    }
    // big steps (a day in nanoseconds, 10^10) with an end a hair past / short of a grid point: the count is a
    // ceiling, not a rounding
    for a in [0i64, 5, -(1i64 << 40)] {
        for st in [10_000_000_000i64, 86_400_000_000_000, -10_000_000_000] {
            for n in 0..=4i64 {
                for r in [0i64, 1, 1000, st.abs() - 1] {
                    let b = a + st * n + r * st.signum();
                    let cnt = if r == 0 { n } else { n + 1 };
                    let want: Vec<Cell> = (0..cnt).map(|j| Cell::I(a + j * st)).collect();
                    for c in [Cont::Probe, Cont::Vec] {
                        ctx.states += 1;
                        ctx.transitions += 1;
                        ctx.nontrivial(fam, hash_bytes(format!("big{a},{b},{st}").as_bytes()));
                        let got = range_i64(c, a, b, st);
                        ctx.eval(fam, outcome_hash(&got));
                        if matches!(&got, Outcome::Ok(g) if cells_eq(g, &want, exact_eq)) {
                            ctx.traces += 1;
                        } else {
                            viol(ctx, "range(integers, big step)", None, json!({"family": fam, "type": "i64", "container": format!("{c:?}"), "start": a, "end": b, "step": st}), show_cells(&want), truncate(&show_outcome(&got), 160));
                        }
                    }
                }
            }
        }
    }
    for (a, st, n) in [(0.0f64, 1.0f64, 3i64), (2.5, -0.5, 0), (0.0, 1.0, 0), (-1.0, 0.25, 8)] {
        for eps in [2f64.powi(-32), 1e-10, 1e-12] {
            // end just past the n-th grid point: n + 1 elements; just short of it: n elements
            for (b, cnt) in [(a + st * n as f64 + eps * st.signum(), n + 1), (a + st * n as f64 - eps * st.signum(), n)] {
                let want: Vec<Cell> = (0..cnt).map(|j| Cell::f(a + j as f64 * st)).collect();
                ctx.states += 1;
                ctx.transitions += 1;
                let got = range_f64(Cont::Vec, a, b, st);
                ctx.eval(fam, outcome_hash(&got));
                if matches!(&got, Outcome::Ok(g) if cells_eq(g, &want, exact_eq)) {
                    ctx.traces += 1;
                } else {
                    viol(ctx, "range(floats, end near a grid point)", None, json!({"family": fam, "start": a, "end": b, "step": st}), show_cells(&want), truncate(&show_outcome(&got), 160));
                }
            }
        }
    }
    for (a, st) in [(0.0f64, 0.5f64), (-2.25, 0.25), (10.0, -0.75)] {
        for n in counts {
            let b = a + st * n as f64;
            let want: Vec<Cell> = (0..n).map(|j| Cell::f(a + j as f64 * st)).collect();
            for c in [Cont::Probe, Cont::Vec, Cont::Polars] {
                ctx.states += 1;
                ctx.transitions += 1;
                let got = range_f64(c, a, b, st);
                ctx.eval(fam, outcome_hash(&got));
                if matches!(&got, Outcome::Ok(g) if cells_eq(g, &want, exact_eq)) {
                    ctx.traces += 1;
                } else {
                    viol(ctx, "range(floats, long)", None, json!({"family": fam, "container": format!("{c:?}"), "start": a, "end": b, "step": st}), format!("{n} elements"), truncate(&show_outcome(&got), 160));
                }
            }
        }
    }
    for (a, b) in [(0.0f64, 1.0f64), (-3.0, 5.0), (2.0, -2.0)] {
        for n in [255usize, 256, 257, 1000] {
            for c in [Cont::Probe, Cont::Vec, Cont::Polars] {
                ctx.states += 1;
                ctx.transitions += 1;
                let got = linspace_f64(c, a, b, n);
                ctx.eval(fam, outcome_hash(&got));
                let ok = match &got {
                    Outcome::Ok(g) => {
                        let v: Vec<f64> = g.iter().filter_map(|c| c.num()).collect();
                        let step = (b - a) / (n as f64 - 1.0);
                        v.len() == n && v[0] == a && close(v[n - 1], b) && v.iter().enumerate().all(|(j, x)| close(*x, a + j as f64 * step))
                    }
                    _ => false,
                };
                if ok {
                    ctx.traces += 1;
                } else {
                    viol(ctx, "linspace(floats, long)", None, json!({"family": fam, "container": format!("{c:?}"), "start": a, "end": b, "n": n}), format!("{n} points from {a} to {b}, constant step"), truncate(&show_outcome(&got), 160));
                }
            }
        }
    }
    // long collections: every collector into every container; an error near the end
    for len in [255usize, 256, 257, 300] {
        let list: Vec<X> = (0..len).map(|i| if i % 7 == 3 { None } else { Some(i as f64) }).collect();
        let want: Vec<Cell> = list.iter().map(|x| Cell::of(*x)).collect();
        for c in CONTS {
            for how in ["collect_vec1", "collect_trusted_vec1", "collect_vec1_with_len", "collect_vec1_opt(nulls)"] {
                ctx.states += 1;
                ctx.transitions += 1;
                let got = collect(c, how, &list);
                ctx.eval(fam, outcome_hash(&got));
                if matches!(&got, Outcome::Ok(g) if cells_eq(g, &want, exact_eq)) {
                    ctx.traces += 1;
                } else {
                    viol(ctx, how, None, json!({"family": fam, "container": format!("{c:?}"), "list_len": len}), format!("the list of {len} items"), truncate(&show_outcome(&got), 160));
                }
            }
            if c != Cont::Probe {
                for trusted in [false, true] {
                    for errs in [vec![len - 1], vec![255.min(len - 1), len - 1]] {
                        ctx.states += 1;
                        ctx.transitions += 1;
                        let got = try_collect(c, trusted, &list, &errs);
                        let ok = matches!(&got, Outcome::Ok(Err(m)) if m.contains(&format!("e{}", errs[0])));
                        if ok {
                            ctx.traces += 1;
                        } else {
                            viol(ctx, if trusted { "try_collect_trusted_vec1" } else { "try_collect_vec1" }, None, json!({"family": fam, "container": format!("{c:?}"), "list_len": len, "errors_at": errs}), format!("Err(e{}) - the first error", errs[0]), truncate(&format!("{got:?}"), 160));
                        }
                    }
                }
            }
        }
    }
    for (bl, il) in [(256usize, 256usize), (257, 257), (256, 1), (257, 1), (256, 255), (256, 257), (300, 2)] {
        ctx.states += 1;
        ctx.transitions += 1;
        let want: Result<Vec<Cell>, ()> = if il == bl { Ok((0..il).map(|i| Cell::F(10.0 + i as f64)).collect()) } else if il == 1 { Ok(vec![Cell::F(10.0); bl]) } else { Err(()) };
        let got = write_iter(bl, il);
        ctx.eval(fam, hash_bytes(format!("{got:?}").as_bytes()));
        let ok = match (&got, &want) {
            (Outcome::Ok((true, cells, faults, _)), Ok(w)) => faults.is_empty() && cells_eq(cells, w, exact_eq),
            (Outcome::Ok((false, _, faults, writes)), Err(())) => faults.is_empty() && *writes == 0,
            _ => false,
        };
        if ok {
            ctx.traces += 1;
        } else {
            viol(ctx, "write_trust_iter", None, json!({"family": fam, "buffer_len": bl, "iter_len": il}), truncate(&format!("{want:?}"), 80), truncate(&format!("{got:?}"), 160));
        }
    }
}

/// every collector on every element type: the optional collector needs the element type's null only for a
/// missing item (integer / bool targets have none, and must still take a list of present items)
fn check_collectors_typed(ctx: &mut Ctx, max_len: usize) {
    let fam = "collectors-typed";
    for (ty, tname) in TYPED.iter().enumerate() {
        let nullable = ty >= 6;
        for len in 0..=max_len {
            let mut lists: Vec<Vec<Option<i64>>> = vec![(0..len as i64).map(|i| Some(3 + 2 * i)).collect()];
            if nullable && len > 0 {
                lists.push((0..len as i64).map(|i| if i % 2 == 0 { None } else { Some(3 + 2 * i) }).collect());
                lists.push((0..len as i64).map(|i| if i + 1 == len as i64 { None } else { Some(3 + 2 * i) }).collect());
            }
            for list in lists {
                ctx.states += 1;
                ctx.fam(fam).states += 1;
                ctx.nontrivial(fam, hash_bytes(format!("{tname}{list:?}").as_bytes()));
                let has_null = list.iter().any(|v| v.is_none());
                // bool keeps the parity only
                let want: Vec<String> = list.iter().map(|v| v.map_or("null".to_string(), |x| if ty == 5 { (x % 2).to_string() } else { x.to_string() })).collect();
                for cont in 0..3usize {
                    for how in ["collect_vec1", "collect_trusted_vec1", "collect_vec1_with_len", "collect_vec1_opt"] {
                        if has_null && how != "collect_vec1_opt" {
                            continue;
                        }
                        ctx.transitions += 1;
                        let cname = ["Vec", "VecDeque", "Array1"][cont];
                        let got = collect_typed(ty, cont, how, &list);
                        ctx.eval(fam, hash_bytes(format!("{got:?}").as_bytes()));
                        if !matches!(&got, Outcome::Ok(g) if *g == want) {
                            viol(ctx, &format!("{how} (typed)"), None, json!({"family": fam, "elem": tname, "container": cname, "list": list}), format!("{want:?}"), truncate(&format!("{got:?}"), 200));
                        } else {
                            ctx.traces += 1;
                        }
                    }
                }
            }
        }
    }
}

fn check_collectors(ctx: &mut Ctx, max_len: usize) {
    let fam = "collectors";
    for len in 0..=max_len {
        // lists: distinct values, and one with nulls at every other place
        for (kind, list) in [("distinct", (0..len).map(|i| Some(10.0 + i as f64)).collect::<Vec<X>>()), ("with-nulls", (0..len).map(|i| if i % 2 == 1 { None } else { Some(i as f64) }).collect())] {
            ctx.states += 1;
            ctx.fam(fam).states += 1;
            ctx.nontrivial(fam, hash_bytes(format!("{kind}{len}").as_bytes()));
            let want: Vec<Cell> = list.iter().map(|x| Cell::of(*x)).collect();
            for c in CONTS {
                for how in ["collect_vec1", "collect_trusted_vec1", "collect_vec1_with_len", "collect_vec1_opt", "collect_vec1_opt(nulls)"] {
                    ctx.transitions += 1;
                    mc_adapt::probe::probe_reset();
                    let got = collect(c, how, &list);
                    let log = mc_adapt::probe::probe_take();
                    ctx.eval(fam, outcome_hash(&got));
                    if !matches!(&got, Outcome::Ok(g) if cells_eq(g, &want, exact_eq)) || !log.faults.is_empty() {
                        viol(ctx, how, None, json!({"family": fam, "container": format!("{c:?}"), "list": json_word(&list)}), show_cells(&want), format!("{} {:?}", show_outcome(&got), log.faults));
                    } else {
                        ctx.traces += 1;
                    }
                }
                if c == Cont::Probe {
                    continue;
                }
                // fallible collection: error at every position, and at two positions
                let mut err_sets: Vec<Vec<usize>> = vec![vec![]];
                err_sets.extend((0..len).map(|i| vec![i]));
                err_sets.extend((0..len).flat_map(|i| (i + 1..len).map(move |j| vec![i, j])));
                for errs in err_sets {
                    for trusted in [false, true] {
                        ctx.transitions += 1;
                        let got = try_collect(c, trusted, &list, &errs);
                        ctx.eval(fam, hash_bytes(format!("{got:?}").as_bytes()));
                        let ok = match (&got, errs.first()) {
                            (Outcome::Ok(Ok(g)), None) => cells_eq(g, &want, exact_eq),
                            (Outcome::Ok(Err(m)), Some(first)) => m.contains(&format!("e{first}")),
                            _ => false,
                        };
                        if !ok {
                            viol(ctx, if trusted { "try_collect_trusted_vec1" } else { "try_collect_vec1" }, None, json!({"family": fam, "container": format!("{c:?}"), "list": json_word(&list), "errors_at": errs}), match errs.first() { None => show_cells(&want), Some(f) => format!("Err(e{f}) - the first error") }, format!("{got:?}"));
                        } else {
                            ctx.traces += 1;
                        }
                        if c == Cont::Polars && kind == "distinct" {
                            let got = try_collect_i32_polars(&list, &errs, trusted);
                            ctx.evals += 1;
                            let want_i: Vec<Cell> = list.iter().map(|x| Cell::I(x.unwrap() as i64)).collect();
                            let ok = match (&got, errs.first()) {
                                (Outcome::Ok(Ok(g)), None) => cells_eq(g, &want_i, exact_eq),
                                (Outcome::Ok(Err(m)), Some(first)) => m.contains(&format!("e{first}")),
                                _ => false,
                            };
                            if !ok {
                                viol(ctx, "try_collect (Int32Chunked)", None, json!({"family": fam, "list": json_word(&list), "errors_at": errs, "trusted": trusted}), "list or first error".into(), format!("{got:?}"));
                            }
                        }
                    }
                }
            }
        }
        // full / empty
        for v in [Some(7.0), None] {
            for c in CONTS {
                ctx.transitions += 1;
                let got = full_and_empty(c, len, v);
                ctx.eval(fam, hash_bytes(format!("{got:?}").as_bytes()));
                let want: Vec<Cell> = vec![Cell::of(v); len];
                if !matches!(&got, Outcome::Ok((f, e)) if cells_eq(f, &want, exact_eq) && e.is_empty()) {
                    viol(ctx, "full / empty", None, json!({"family": fam, "container": format!("{c:?}"), "len": len, "value": v}), show_cells(&want), format!("{got:?}"));
                } else {
                    ctx.traces += 1;
                }
            }
        }
    }
}

fn check_write(ctx: &mut Ctx, max_len: usize) {
    let fam = "write_trust_iter";
    for bl in 0..=max_len {
        for il in 0..=max_len + 1 {
            ctx.states += 1;
            ctx.fam(fam).states += 1;
            ctx.transitions += 1;
            ctx.nontrivial(fam, (bl * 100 + il) as u64);
            // model: every slot = iterator (or the single item broadcast); a mismatch is an error and nothing is written
            let want: Result<Vec<Cell>, ()> = if bl == 0 {
                Ok(vec![])
            } else if il == bl {
                Ok((0..il).map(|i| Cell::F(10.0 + i as f64)).collect())
            } else if il == 1 {
                Ok(vec![Cell::F(10.0); bl])
            } else {
                Err(())
            };
            let got = write_iter(bl, il);
            ctx.eval(fam, hash_bytes(format!("{got:?}").as_bytes()));
            let ok = match (&got, &want) {
                (Outcome::Ok((true, cells, faults, _)), Ok(w)) => faults.is_empty() && cells_eq(cells, w, exact_eq),
                (Outcome::Ok((false, _, faults, writes)), Err(())) => faults.is_empty() && *writes == 0,
                _ => false,
            };
            if !ok {
                viol(ctx, "write_trust_iter", None, json!({"family": fam, "buffer_len": bl, "iter_len": il}), format!("{want:?}"), format!("{got:?}"));
            } else {
                ctx.traces += 1;
            }
            if let Ok(w) = &want {
                for c in [Cont::Vec, Cont::Deque, Cont::Array] {
                    let got = write_iter_real(c, bl, il);
                    ctx.evals += 1;
                    if !matches!(&got, Outcome::Ok((true, cells)) if cells_eq(cells, w, exact_eq)) {
                        viol(ctx, "write_trust_iter(real buffer)", None, json!({"family": fam, "container": format!("{c:?}"), "buffer_len": bl, "iter_len": il}), show_cells(w), format!("{got:?}"));
                    }
                }
            }
        }
    }
}

/// every iterator shape the library declares trusted, yielding the same sequence: its announced length, the
/// collectors, and writes into buffers of every container and layout (equal length, single item broadcast, mismatch)
fn check_shapes(ctx: &mut Ctx, max_len: usize) {
    let fam = "iterator-shapes";
    for k in 0..SHAPES.len() {
        for n in 0..=max_len {
            ctx.states += 1;
            ctx.fam(fam).states += 1;
            ctx.nontrivial(fam, (k * 1000 + n) as u64);
            let seq: Vec<Cell> = (0..n).map(|i| Cell::F(10.0 + i as f64)).collect();
            let case = |extra: Value| json!({"family": fam, "shape": SHAPES[k], "shape_no": k, "iter_len": n, "detail": extra});
            let l = shape_len(k, n);
            ctx.evals += 1;
            if !matches!(&l, Outcome::Ok((len, empty)) if *len == n && *empty == (n == 0)) {
                viol(ctx, "TrustedLen::len / is_empty", None, case(json!({})), format!("({n}, {})", n == 0), format!("{l:?}"));
            }
            for j in 0..=n.min(3) {
                let got = shape_after_nth(k, n, j);
                ctx.evals += 1;
                ctx.transitions += 1;
                let remaining = n.saturating_sub(j + 1);
                let rest: Vec<Cell> = seq.iter().skip(j + 1).cloned().collect();
                // a one-item remainder is broadcast, an empty one into an empty buffer is fine
                let ok = matches!(&got, Outcome::Ok((some, l, r, wrote, cells)) if *some == (j < n) && *l == remaining && cells_eq(r, &rest, exact_eq) && *wrote && cells_eq(cells, &rest, exact_eq));
                if !ok {
                    viol(ctx, "after nth(j): len / items / write", None, case(json!({"nth": j})), format!("(item: {}, len {remaining}, items {}, written Ok {})", j < n, show_cells(&rest), show_cells(&rest)), truncate(&format!("{got:?}"), 240));
                }
            }
            for (cname, got) in shape_collect(k, n) {
                ctx.eval(fam, outcome_hash(&got));
                ctx.transitions += 1;
                if !matches!(&got, Outcome::Ok(c) if cells_eq(c, &seq, exact_eq)) {
                    viol(ctx, &format!("collector:{cname}"), None, case(json!({"collector": cname})), show_cells(&seq), show_outcome(&got));
                }
            }
            let mut bls = vec![n, n + 1, 3];
            if n > 0 {
                bls.push(n - 1);
            }
            bls.sort();
            bls.dedup();
            for bl in bls {
                let want: Result<Vec<Cell>, ()> = if bl == 0 {
                    Ok(vec![])
                } else if n == bl {
                    Ok(seq.clone())
                } else if n == 1 {
                    Ok(vec![Cell::F(10.0); bl])
                } else {
                    Err(())
                };
                for (si, sname) in SINKS.iter().enumerate() {
                    let got = shape_write(k, n, bl, si);
                    ctx.eval(fam, hash_bytes(format!("{got:?}").as_bytes()));
                    ctx.transitions += 1;
                    let ok = match (&got, &want) {
                        (Outcome::Ok((true, cells)), Ok(w)) => cells_eq(cells, w, exact_eq),
                        // a mismatch is reported and nothing is written (alternative layouts show the pre-fill)
                        (Outcome::Ok((false, cells)), Err(())) => cells.iter().all(|c| matches!(c, Cell::F(v) if *v == -777.0)),
                        _ => false,
                    };
                    if ok {
                        ctx.traces += 1;
                    } else {
                        viol(ctx, "write (iterator shape)", None, case(json!({"buffer_len": bl, "sink": sname})), format!("{want:?}"), truncate(&format!("{got:?}"), 200));
                    }
                }
            }
        }
    }
}

/// the checked slot write: Ok and exactly one write for idx < len, an error and no write otherwise
fn check_set(ctx: &mut Ctx, max_len: usize) {
    let fam = "checked-set";
    for bl in 0..=max_len {
        for idx in (0..=bl + 2).chain([usize::MAX]) {
            ctx.states += 1;
            ctx.fam(fam).states += 1;
            ctx.transitions += 1;
            ctx.nontrivial(fam, (bl * 1000 + idx.min(999)) as u64);
            let got = checked_set(bl, idx);
            ctx.eval(fam, hash_bytes(format!("{got:?}").as_bytes()));
            let want = if idx < bl { (true, 1u64) } else { (false, 0) };
            if !matches!(&got, Outcome::Ok((ok, writes, faults)) if (*ok, *writes) == want && faults.is_empty()) {
                viol(ctx, "UninitVec::set", None, json!({"family": fam, "buffer_len": bl, "index": idx}), format!("(ok, writes) = {want:?}, no out-of-bounds write"), format!("{got:?}"));
            } else {
                ctx.traces += 1;
            }
        }
    }
}

fn main() {
    let run = Run::from_args("C19");
    let bound = run.pick(5, 20);
    let max_len = run.pick(6, 14);
    let mut ctx = Ctx::new();
    let replay = run.replay.as_ref().map(|p| {
        load_replay(p).unwrap_or_else(|e| {
            eprintln!("MACHINERY-ERROR: {e}");
            std::process::exit(2)
        })
    });
    let only = replay.as_ref().and_then(|r| r["case"]["family"].as_str().map(|s| s.to_string()));
    if only.as_deref().map_or(true, |f| f == "range") {
        check_ranges(&mut ctx, bound);
    }
    if only.as_deref().map_or(true, |f| f == "range-defaults") {
        check_range_defaults(&mut ctx, bound);
    }
    if only.as_deref().map_or(true, |f| f == "linspace") {
        check_linspace(&mut ctx, bound);
    }
    if only.as_deref().map_or(true, |f| f == "collectors") {
        check_collectors(&mut ctx, max_len);
    }
    if only.as_deref().map_or(true, |f| f == "collectors-typed") {
        check_collectors_typed(&mut ctx, max_len);
    }
    if only.as_deref().map_or(true, |f| f == "write_trust_iter") {
        check_write(&mut ctx, max_len);
    }
    if only.as_deref().map_or(true, |f| f == "iterator-shapes") {
        check_shapes(&mut ctx, run.pick(6, 12));
    }
    if only.as_deref().map_or(true, |f| f == "checked-set") {
        check_set(&mut ctx, max_len);
    }
    if only.as_deref().map_or(true, |f| f == "generators-large") {
        check_large(&mut ctx);
    }
    if let Some(stored) = replay {
        std::process::exit(finish_replay(&run, &stored, ctx));
    }
    ctx.sample(json!({"generator": "range", "type": "f64", "start": 5.0, "end": 2.0, "step": -1.5, "model": [5.0, 3.5]}));
    ctx.sample(json!({"collector": "try_collect_trusted_vec1", "container": "Array", "list_len": 4, "errors_at": [1, 3], "model": "Err(e1)"}));
    ctx.sample(json!({"buffer": "write_trust_iter", "buffer_len": 3, "iter_len": 1, "model": "[10,10,10] (broadcast)"}));
    let meta = Meta {
        rule: "finite products: range(start,end,step) over integer grids (i32, i64, usize, u64; start,end in -B..=B, steps +-1..4) and the dyadic float grid (multiples of 1/4), linspace(start,end,n) n in 0..=9, full / empty, every collector (plain, trusted, with length, optional -> null-encoded, fallible plain / trusted with an error at every position and every pair of positions) on lists of length 0..=L into every container (instrumented, Vec, VecDeque, Array1, Polars chunked), write_trust_iter for every (buffer length, iterator length) pair on an instrumented buffer (exactly-once monitor) and on the real buffers. Oracles: the arithmetic progression strictly before end; n equally spaced points; the list itself; first error; all slots = iterator / broadcast or error and no write. Non-trivial = distinct parameter points. Also the same sequence through all 19 iterator shapes the library declares trusted (iterator-shapes): TrustedLen::len / is_empty, the collectors, writes into every container and caller-buffer layout (equal length, broadcast, mismatch; DESIGN 5.15). Round 8 (DESIGN 5.17): range-defaults - every combination of omitted / explicit start and step (i32, usize, f64, f32, every container) against the progression from 0 with step 1; linspace with the start omitted. Round 10 (DESIGN 5.19): collectors-typed - the four collectors into Vec / VecDeque / Array1 of i32, i64, usize, u64, u8, bool, f32, f64, String, Option<i64>; the optional collector with missing items only for types that have a null. Round 11 (DESIGN 5.20): every iterator shape advanced by nth(j) first: nth's result, TrustedLen::len afterwards, the items still delivered, and a write into a buffer of exactly the remaining length.".into(),
        bounds: json!({"B": bound, "L": max_len}),
        assumptions: vec!["float ranges on dyadic grids only (DESIGN 5.7)".into(), "the default Vec1::try_collect_from_iter (unwrap) of the instrumented container is not driven".into()],
        exhaustive: true,
        min_states: 1000,
    };
    std::process::exit(finish(&run, meta, ctx));
}
