#!/bin/bash
# Offline build of the whole framework against /repo's working tree.
set -e
export CARGO_NET_OFFLINE=true
mkdir -p /verif/target /verif/evidence /verif/replays
cd /verif/mc
cargo build --release --offline --bins 2>&1 | tail -5
