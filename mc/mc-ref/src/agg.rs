//! reference model: agg
