#!/usr/bin/env python3
"""Generates /verif/MANIFEST.json from the table below (kept in one place so it stays valid)."""
import json, sys

CLAIMED = {
 "C01": dict(ref="DESIGN 4 C01", tech="exhaustive history-tree exploration (DFS, no state merging) of the real rolling kernels vs from-scratch reference model; de Bruijn long traces",
   text="Every word over a 5/6-letter exact value alphabet up to length 6-8, every window 1..=len+2, every min_periods, 18 entry points, 22 element-type pairs, both output paths: each output position equals the statistic recomputed from its window by an independent two-pass model. Long de Bruijn traces cover drift after thousands of add/remove steps.",
   note="Bounded scope (length, alphabet); model in mc-ref is trusted; finite exact inputs only (DESIGN 5.2); chrono/polars not involved."),
}

REASONS_PENDING = "check not built yet in this commit (planned, see DESIGN.md section 4)"

def main():
    props = [json.loads(l)["id"] for l in open("/verif/properties.jsonl")]
    checks = []
    for pid in props:
        if pid not in CLAIMED: continue
        c = CLAIMED[pid]
        checks.append({
            "property_id": pid,
            "quick_cmd": f"./check {pid} quick",
            "thorough_cmd": f"./check {pid} thorough",
            "evidence_file": f"/verif/evidence/{pid}.json",
            "replay_cmd_template": f"./check {pid} --replay {{path}}",
            "engine": "mc-explorer",
            "level_claimed": {"category": "model_checking", "text": c["text"], "design_ref": c["ref"]},
            "level_note": c["note"],
            "technique": c["tech"],
        })
    na = [{"property_id": p, "reason": REASONS_PENDING} for p in props if p not in CLAIMED]
    m = {
        "version": 1,
        "setup_cmd": "./setup.sh",
        "hooks": {
            "guard": "--cfg tevec_verif (reserved, unused: all instrumentation lives in the harness via tevec's public traits)",
            "enable": "none needed; checks build /repo as a path dependency with features ndarray,vecdeque,fdiff,polars in the checked profile (opt-level 2, overflow-checks, debug-assertions)",
            "baseline_off_cmd": "cd /repo && cargo test --workspace --no-fail-fast --offline",
            "source_commits": [],
            "add_only": True,
        },
        "engines": [
            {"name": "mc-explorer", "path": "/verif/mc", "serves_properties": sorted(CLAIMED),
             "kind_free_text": "purpose-built deterministic explicit-state explorer in Rust (mc-core): DFS over history trees without state merging, product enumeration, BFS with dedup over action chains; reference models in mc-ref (no tevec dependency); adapters in mc-adapt; one binary per property in mc-checks"},
        ],
        "checks": checks,
        "not_applicable": na,
        "notes": "Exit codes: 0 held (KNOWN-FINDING lines allowed), 1 VIOLATION, >=2 machinery error (no verdict). Known findings: /verif/known-findings.json.",
    }
    json.dump(m, open("/verif/MANIFEST.json", "w"), indent=1)
    try:
        import jsonschema
        jsonschema.validate(m, json.load(open("/root/.vp/MANIFEST.schema.json")))
        print("MANIFEST.json valid;", len(checks), "checks,", len(na), "not_applicable")
    except ImportError:
        print("written (jsonschema not importable here)")

main()
