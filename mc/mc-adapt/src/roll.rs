//! Entry-point tables of the rolling families: model id -> real call.
use mc_ref::roll::{R1, R2};
use tevec::prelude::*;

#[derive(Clone, Copy, Debug, PartialEq, Eq, Hash)]
pub enum Path {
    /// result returned by the function
    Ret,
    /// result written into a caller-supplied uninitialised buffer
    Buf,
    /// result written into a caller-supplied buffer in a non-canonical physical layout (wrapped ring,
    /// strided / reversed view), kind 1..=OutBuf::ALT_KINDS of the output container
    BufAlt(u8),
}

pub const V1_FEATURE: [R1; 8] = [R1::Sum, R1::Mean, R1::Ewm, R1::Wma, R1::Std, R1::Var, R1::Skew, R1::Kurt];
pub const V1_CMP: [R1; 8] = [
    R1::Min,
    R1::Max,
    R1::Argmin,
    R1::Argmax,
    R1::Rank { pct: false, rev: false },
    R1::Rank { pct: true, rev: false },
    R1::Rank { pct: false, rev: true },
    R1::Rank { pct: true, rev: true },
];
pub const V1_NORM: [R1; 2] = [R1::Zscore, R1::Minmax];
pub const V1_REG: [R1; 5] = [R1::Reg, R1::Tsf, R1::Slope, R1::Intercept, R1::ResidMean];
pub const V2_ALL: [R2; 7] = [R2::Cov, R2::Corr, R2::Alpha, R2::Beta, R2::ResidMean, R2::ResidStd, R2::ResidSkew];

pub fn r1_name(f: R1, valid: bool) -> String {
    let v = if valid { "v" } else { "" };
    match f {
        R1::Sum => format!("ts_{v}sum"),
        R1::Mean => format!("ts_{v}mean"),
        R1::Ewm => format!("ts_{v}ewm"),
        R1::Wma => format!("ts_{v}wma"),
        R1::Std => format!("ts_{v}std"),
        R1::Var => format!("ts_{v}var"),
        R1::Skew => format!("ts_{v}skew"),
        R1::Kurt => format!("ts_{v}kurt"),
        R1::Min => "ts_vmin".into(),
        R1::Max => "ts_vmax".into(),
        R1::Argmin => "ts_vargmin".into(),
        R1::Argmax => "ts_vargmax".into(),
        R1::Rank { pct, rev } => format!("ts_vrank(pct={pct},rev={rev})"),
        R1::Zscore => "ts_vzscore".into(),
        R1::Minmax => "ts_vminmaxnorm".into(),
        R1::Reg => "ts_vreg".into(),
        R1::Tsf => "ts_vtsf".into(),
        R1::Slope => "ts_vreg_slope".into(),
        R1::Intercept => "ts_vreg_intercept".into(),
        R1::ResidMean => "ts_vreg_resid_mean".into(),
        R1::Fdiff(d) => format!("ts_{v}fdiff(d={d})"),
    }
}
pub fn r2_name(f: R2) -> String {
    match f {
        R2::Cov => "ts_vcov".into(),
        R2::Corr => "ts_vcorr".into(),
        R2::Alpha => "ts_vregx_alpha".into(),
        R2::Beta => "ts_vregx_beta".into(),
        R2::ResidMean => "ts_vregx_resid_mean".into(),
        R2::ResidStd => "ts_vregx_resid_std".into(),
        R2::ResidSkew => "ts_vregx_resid_skew".into(),
        R2::All(k) => format!("ts_vregx_all.{k}"),
    }
}

macro_rules! go {
    ($v:expr, $O:ty, $U:ty, $path:expr, $f:ident, $fto:ident, ($($a:expr),*)) => {
        match $path {
            Path::Ret => $v.$f::<$O, $U>($($a),*),
            Path::Buf => {
                let mut buf = <$O as Vec1<$U>>::uninit($v.len());
                let r = $v.$fto::<$O, $U>($($a,)* Some(<$O as Vec1<$U>>::uninit_ref_mut(&mut buf)));
                assert!(r.is_none(), "out-buffer form returned a container");
                unsafe { buf.assume_init() }
            }
            Path::BufAlt(k) => {
                // pre-fill value: the first element of the returned form (any value of the output type will do)
                let proto = $v.$f::<$O, $U>($($a),*);
                let fill = move || unsafe { proto.uget(0) };
                let vals = <$O as crate::outbuf::OutBuf<$U>>::alt_run($v.len(), k, &fill, |out: <$O as Vec1<$U>>::UninitRefMut<'_>| {
                    let r = $v.$fto::<$O, $U>($($a,)* Some(out));
                    assert!(r.is_none(), "out-buffer form returned a container");
                });
                <$O as Vec1<$U>>::collect_from_iter(vals.into_iter())
            }
        }
    };
}

/// null-aware moments and weighted averages
pub fn call_v1_feature<V, T, O, U: 'static>(f: R1, v: &V, w: usize, mp: Option<usize>, path: Path) -> O
where
    V: Vec1View<T>,
    T: IsNone,
    T::Inner: Number,
    O: Vec1<U> + crate::outbuf::OutBuf<U>,
    f64: Cast<U>,
{
    match f {
        R1::Sum => go!(v, O, U, path, ts_vsum, ts_vsum_to, (w, mp)),
        R1::Mean => go!(v, O, U, path, ts_vmean, ts_vmean_to, (w, mp)),
        R1::Ewm => go!(v, O, U, path, ts_vewm, ts_vewm_to, (w, mp)),
        R1::Wma => go!(v, O, U, path, ts_vwma, ts_vwma_to, (w, mp)),
        R1::Std => go!(v, O, U, path, ts_vstd, ts_vstd_to, (w, mp)),
        R1::Var => go!(v, O, U, path, ts_vvar, ts_vvar_to, (w, mp)),
        R1::Skew => go!(v, O, U, path, ts_vskew, ts_vskew_to, (w, mp)),
        R1::Kurt => go!(v, O, U, path, ts_vkurt, ts_vkurt_to, (w, mp)),
        _ => panic!("not a feature entry point"),
    }
}

/// rolling extrema with value output (min / max): output element is cast from Option<Inner>
pub fn call_v1_minmax<V, T, O, U: 'static>(f: R1, v: &V, w: usize, mp: Option<usize>, path: Path) -> O
where
    V: Vec1View<T>,
    T: IsNone,
    T::Inner: Number,
    O: Vec1<U> + crate::outbuf::OutBuf<U>,
    Option<T::Inner>: Cast<U>,
{
    match f {
        R1::Min => go!(v, O, U, path, ts_vmin, ts_vmin_to, (w, mp)),
        R1::Max => go!(v, O, U, path, ts_vmax, ts_vmax_to, (w, mp)),
        _ => panic!("not min/max"),
    }
}

/// arg-extrema, rank, normalisations
pub fn call_v1_cmp<V, T, O, U: 'static>(f: R1, v: &V, w: usize, mp: Option<usize>, path: Path) -> O
where
    V: Vec1View<T>,
    T: IsNone,
    T::Inner: Number,
    O: Vec1<U> + crate::outbuf::OutBuf<U>,
    f64: Cast<U>,
{
    match f {
        R1::Argmin => go!(v, O, U, path, ts_vargmin, ts_vargmin_to, (w, mp)),
        R1::Argmax => go!(v, O, U, path, ts_vargmax, ts_vargmax_to, (w, mp)),
        R1::Rank { pct, rev } => go!(v, O, U, path, ts_vrank, ts_vrank_to, (w, mp, pct, rev)),
        R1::Zscore => go!(v, O, U, path, ts_vzscore, ts_vzscore_to, (w, mp)),
        R1::Minmax => go!(v, O, U, path, ts_vminmaxnorm, ts_vminmaxnorm_to, (w, mp)),
        _ => panic!("not a cmp/norm entry point"),
    }
}

/// time-trend regressions
pub fn call_v1_reg<V, T, O, U: 'static>(f: R1, v: &V, w: usize, mp: Option<usize>, path: Path) -> O
where
    V: Vec1View<T>,
    T: IsNone,
    T::Inner: Number,
    O: Vec1<U> + crate::outbuf::OutBuf<U>,
    f64: Cast<U>,
{
    match f {
        R1::Reg => go!(v, O, U, path, ts_vreg, ts_vreg_to, (w, mp)),
        R1::Tsf => go!(v, O, U, path, ts_vtsf, ts_vtsf_to, (w, mp)),
        R1::Slope => go!(v, O, U, path, ts_vreg_slope, ts_vreg_slope_to, (w, mp)),
        R1::Intercept => go!(v, O, U, path, ts_vreg_intercept, ts_vreg_intercept_to, (w, mp)),
        R1::ResidMean => go!(v, O, U, path, ts_vreg_resid_mean, ts_vreg_resid_mean_to, (w, mp)),
        _ => panic!("not a trend entry point"),
    }
}

/// any null-aware single-series entry point except fdiff
pub fn call_v1<V, T, O, U: 'static>(f: R1, v: &V, w: usize, mp: Option<usize>, path: Path) -> O
where
    V: Vec1View<T>,
    T: IsNone,
    T::Inner: Number,
    O: Vec1<U> + crate::outbuf::OutBuf<U>,
    f64: Cast<U>,
    Option<T::Inner>: Cast<U>,
{
    match f {
        R1::Sum | R1::Mean | R1::Ewm | R1::Wma | R1::Std | R1::Var | R1::Skew | R1::Kurt => {
            call_v1_feature::<V, T, O, U>(f, v, w, mp, path)
        }
        R1::Min | R1::Max => call_v1_minmax::<V, T, O, U>(f, v, w, mp, path),
        R1::Argmin | R1::Argmax | R1::Rank { .. } | R1::Zscore | R1::Minmax => call_v1_cmp::<V, T, O, U>(f, v, w, mp, path),
        R1::Reg | R1::Tsf | R1::Slope | R1::Intercept | R1::ResidMean => call_v1_reg::<V, T, O, U>(f, v, w, mp, path),
        R1::Fdiff(_) => panic!("use call_vfdiff"),
    }
}

/// null-aware fractional difference (needs slices that can be iterated)
pub fn call_vfdiff<V, T, O, U: 'static>(d: f64, v: &V, w: usize, mp: Option<usize>, path: Path) -> O
where
    V: Vec1View<T>,
    for<'a> V::SliceOutput<'a>: TIter<T>,
    T: IsNone,
    T::Inner: Number,
    O: Vec1<U> + crate::outbuf::OutBuf<U>,
    U: Clone,
    f64: Cast<U>,
{
    go!(v, O, U, path, ts_vfdiff, ts_vfdiff_to, (d, w, mp))
}

/// plain fractional difference (no min_periods)
pub fn call_fdiff<V, T, O, U: 'static>(d: f64, v: &V, w: usize, path: Path) -> O
where
    V: Vec1View<T>,
    for<'a> V::SliceOutput<'a>: TIter<T>,
    T: Cast<f64> + Clone,
    O: Vec1<U> + crate::outbuf::OutBuf<U>,
    U: Clone,
    f64: Cast<U>,
{
    go!(v, O, U, path, ts_fdiff, ts_fdiff_to, (d, w))
}

/// plain (null-unaware) single-series family
pub fn call_p1<V, T, O, U: 'static>(f: R1, v: &V, w: usize, mp: Option<usize>, path: Path) -> O
where
    V: Vec1View<T>,
    T: Number,
    O: Vec1<U> + crate::outbuf::OutBuf<U>,
    f64: Cast<U>,
{
    match f {
        R1::Sum => go!(v, O, U, path, ts_sum, ts_sum_to, (w, mp)),
        R1::Mean => go!(v, O, U, path, ts_mean, ts_mean_to, (w, mp)),
        R1::Ewm => go!(v, O, U, path, ts_ewm, ts_ewm_to, (w, mp)),
        R1::Wma => go!(v, O, U, path, ts_wma, ts_wma_to, (w, mp)),
        R1::Std => go!(v, O, U, path, ts_std, ts_std_to, (w, mp)),
        R1::Var => go!(v, O, U, path, ts_var, ts_var_to, (w, mp)),
        R1::Skew => go!(v, O, U, path, ts_skew, ts_skew_to, (w, mp)),
        R1::Kurt => go!(v, O, U, path, ts_kurt, ts_kurt_to, (w, mp)),
        _ => panic!("not a plain entry point"),
    }
}

/// two-series family; `All` is handled by call_v2_all
pub fn call_v2<V, T, V2, T2, O, U: 'static>(f: R2, a: &V, b: &V2, w: usize, mp: Option<usize>, path: Path) -> O
where
    V: Vec1View<T>,
    T: IsNone,
    T::Inner: Number,
    V2: Vec1View<T2>,
    T2: IsNone,
    T2::Inner: Number,
    O: Vec1<U> + crate::outbuf::OutBuf<U>,
    f64: Cast<U>,
{
    macro_rules! go2 {
        ($f:ident, $fto:ident) => {
            match path {
                Path::Ret => a.$f::<O, U, V2, T2>(b, w, mp),
                Path::Buf => {
                    let mut buf = <O as Vec1<U>>::uninit(a.len());
                    let r = a.$fto::<O, U, V2, T2>(b, w, mp, Some(<O as Vec1<U>>::uninit_ref_mut(&mut buf)));
                    assert!(r.is_none());
                    unsafe { buf.assume_init() }
                }
                Path::BufAlt(k) => {
                    let proto = a.$f::<O, U, V2, T2>(b, w, mp);
                    let fill = move || unsafe { proto.uget(0) };
                    let vals = <O as crate::outbuf::OutBuf<U>>::alt_run(a.len(), k, &fill, |out: <O as Vec1<U>>::UninitRefMut<'_>| {
                        let r = a.$fto::<O, U, V2, T2>(b, w, mp, Some(out));
                        assert!(r.is_none());
                    });
                    <O as Vec1<U>>::collect_from_iter(vals.into_iter())
                }
            }
        };
    }
    match f {
        R2::Cov => go2!(ts_vcov, ts_vcov_to),
        R2::Corr => go2!(ts_vcorr, ts_vcorr_to),
        R2::Alpha => go2!(ts_vregx_alpha, ts_vregx_alpha_to),
        R2::Beta => go2!(ts_vregx_beta, ts_vregx_beta_to),
        R2::ResidMean => go2!(ts_vregx_resid_mean, ts_vregx_resid_mean_to),
        R2::ResidStd => go2!(ts_vregx_resid_std, ts_vregx_resid_std_to),
        R2::ResidSkew => go2!(ts_vregx_resid_skew, ts_vregx_resid_skew_to),
        R2::All(_) => panic!("use call_v2_all"),
    }
}

pub fn call_v2_all<V, T, V2, T2, O, U: 'static>(a: &V, b: &V2, w: usize, mp: Option<usize>) -> O
where
    V: Vec1View<T>,
    T: IsNone,
    T::Inner: Number,
    V2: Vec1View<T2>,
    T2: IsNone,
    T2::Inner: Number,
    O: Vec1<(U, U, U)>,
    f64: Cast<U>,
{
    a.ts_vregx_all::<O, U, V2, T2>(b, w, mp)
}
