//! C01 — rolling moments and weighted averages equal from-scratch window evaluation.
use mc_adapt::roll::*;
use mc_checks::rollcheck::*;
use mc_checks::*;

fn classify(c: &CaseInfo) -> Option<String> {
    // F01: ts_fdiff zips the warm-up slice with the coefficients of the oldest lags
    if c.plain && matches!(c.f, R1::Fdiff(_)) && c.pos.map_or(false, |p| p + 1 < c.w) {
        return Some("F01".into());
    }
    None
}

fn fdiffs() -> Vec<R1> {
    [0.3, 0.5, 1.0, 1.5].iter().map(|d| R1::Fdiff(*d)).collect()
}

fn families(run: &Run) -> Vec<SeriesFam> {
    let a5 = alphabet5(run.seed);
    let deep_alpha = if run.quick() { a5.clone() } else { alphabet6() };
    let deep_len = run.pick(6, 7);
    let mut valid_fns: Vec<R1> = V1_FEATURE.to_vec();
    valid_fns.extend(fdiffs());
    let nonnull: Vec<X> = deep_alpha.iter().cloned().filter(|x| x.is_some()).collect();
    let mut fams = vec![
        SeriesFam {
            name: "valid-deep".into(),
            alpha: deep_alpha.clone(),
            max_len: deep_len,
            plain: false,
            fns: valid_fns.clone(),
            tys: vec![ty_v1::<f64, f64>(), ty_v1::<Option<f64>, Option<f64>>()],
            paths: vec![Path::Ret],
            law: Law::Value,
            w_lo: 1,
            w_extra: 2,
        min_len: 0,
        scales: vec![1.0 / 8192.0, 1024.0],
            cfg_ok: cfg_all,
            classify,
        },
        SeriesFam {
            name: "plain-deep".into(),
            alpha: nonnull.clone(),
            max_len: deep_len + 1,
            plain: true,
            fns: valid_fns.clone(),
            tys: vec![ty_p1::<f64, f64>()],
            paths: vec![Path::Ret],
            law: Law::Value,
            w_lo: 1,
            w_extra: 2,
        min_len: 0,
        scales: vec![1.0 / 8192.0, 1024.0],
            cfg_ok: cfg_all,
            classify,
        },
        // full type matrix (input element x output element), both output paths, shallower
        SeriesFam {
            name: "valid-matrix".into(),
            alpha: a5.clone(),
            max_len: run.pick(4, 6),
            plain: false,
            fns: valid_fns.clone(),
            tys: vec![
                ty_v1::<f64, f32>(),
                ty_v1::<f64, Option<f64>>(),
                ty_v1::<f64, i32>(),
                ty_v1::<f32, f64>(),
                ty_v1::<f32, f32>(),
                ty_v1::<Option<f64>, f64>(),
                ty_v1::<Option<f64>, i32>(),
                ty_v1::<Option<i32>, f64>(),
                ty_v1::<Option<i32>, Option<f64>>(),
                ty_v1::<i32, f64>(),
                ty_v1::<i32, i32>(),
                ty_v1::<i64, f64>(),
                ty_v1::<i64, Option<f64>>(),
            ],
            paths: vec![Path::Ret, Path::Buf],
            law: Law::Value,
            w_lo: 1,
            w_extra: 2,
        min_len: 0,
        scales: vec![],
            cfg_ok: cfg_all,
            classify,
        },
        SeriesFam {
            name: "plain-matrix".into(),
            alpha: a5.iter().cloned().filter(|x| x.is_some()).collect(),
            max_len: run.pick(5, 7),
            plain: true,
            fns: valid_fns.clone(),
            tys: vec![
                ty_p1::<f64, f32>(),
                ty_p1::<f64, Option<f64>>(),
                ty_p1::<f64, i32>(),
                ty_p1::<f32, f64>(),
                ty_p1::<i32, f64>(),
                ty_p1::<i32, i32>(),
                ty_p1::<i64, f64>(),
                ty_p1::<i64, f32>(),
            ],
            paths: vec![Path::Ret, Path::Buf],
            law: Law::Value,
            w_lo: 1,
            w_extra: 2,
        min_len: 0,
        scales: vec![],
            cfg_ok: cfg_all,
            classify,
        },
    ];
    // narrow element types with values whose squares / window sums leave the element type's exact range
    // (50001^2 > i32::MAX and is not an f32; 2 * 2^30 > i32::MAX; 2^30 + 1 is not an f32): the moments must
    // be accumulated in f64. Kurtosis is left out (50001^4 is not exact in f64 either, conditioning 5.2).
    let wide_fns = vec![R1::Sum, R1::Mean, R1::Ewm, R1::Wma, R1::Std, R1::Var, R1::Skew];
    let wide_alpha: Vec<X> = vec![None, Some(1.0), Some(3.0), Some(50001.0), Some(-50001.0)];
    let level_alpha: Vec<X> = vec![None, Some(1.0), Some(1073741824.0), Some(-1073741824.0)];
    for (name, alpha, fns, plain) in [
        ("narrow-inputs", wide_alpha.clone(), wide_fns.clone(), false),
        ("plain-narrow-inputs", wide_alpha.iter().cloned().filter(|x| x.is_some()).collect::<Vec<X>>(), wide_fns.clone(), true),
        ("narrow-level", level_alpha.clone(), vec![R1::Mean, R1::Ewm, R1::Wma], false),
        ("plain-narrow-level", level_alpha.iter().cloned().filter(|x| x.is_some()).collect::<Vec<X>>(), vec![R1::Mean, R1::Ewm, R1::Wma], true),
    ] {
        fams.push(SeriesFam {
            name: name.into(),
            alpha,
            max_len: run.pick(4, 5),
            plain,
            fns,
            tys: if plain { vec![ty_p1::<i32, f64>(), ty_p1::<f32, f64>(), ty_p1::<i64, f64>()] } else { vec![ty_v1::<i32, f64>(), ty_v1::<f32, f64>(), ty_v1::<i64, f64>(), ty_v1::<Option<i32>, f64>()] },
            paths: vec![Path::Ret],
            law: Law::Value,
            w_lo: 1,
            w_extra: 2,
            min_len: 0,
            scales: vec![],
            cfg_ok: cfg_all,
            classify,
        });
    }
    if !run.quick() || run.replay.is_some() {
        // thorough: one more symbol of depth on the five-letter alphabet, f64 -> f64 only
        let mut deeper = clone_shallow(&fams[0]);
        deeper.name = "valid-deeper".into();
        deeper.alpha = a5.clone();
        deeper.max_len = 8;
        deeper.tys = vec![ty_v1::<f64, f64>()];
        deeper.scales = vec![];
        fams.push(deeper);
    }
    // every NaN is the same null: the two deep families with the float-encoded nulls written as other NaNs
    let nk0 = fams[0].nan_kinds(run.pick(5, 6));
    let nk2 = fams[2].nan_kinds(run.pick(3, 4));
    fams.push(nk0);
    fams.push(nk2);
    fams.shrink_to_fit();
    fams
}

fn main() {
    let run = Run::from_args("C01");
    let fams = families(&run);
    if let Some(path) = &run.replay {
        let stored = load_replay(path).unwrap_or_else(|e| {
            eprintln!("MACHINERY-ERROR: {e}");
            std::process::exit(2)
        });
        let mut ctx = Ctx::new();
        ctx.replay_mode = true;
        let case = &stored["case"];
        let fam_name = case["family"].as_str().unwrap_or("");
        for f in &fams {
            if fam_name.starts_with(&f.name) {
                if case["shape"].is_string() {
                    check_structured(f, !run.quick(), 2, &mut ctx);
                } else if case["trace"].is_string() {
                    run_traces(&run, f, &mut ctx);
                } else {
                    f.check_word(&syms_from_json(&case["word"]), &mut ctx);
                }
            }
        }
        std::process::exit(finish_replay(&run, &stored, ctx));
    }
    let mut total = Ctx::new();
    for f in &fams {
        let c = explore_tree(f, run.threads);
        total.merge(c);
    }
    // long traces on the two deep families
    let mut tctx = Ctx::new();
    run_traces(&run, &fams[0], &mut tctx);
    run_traces(&run, &fams[1], &mut tctx);
    total.merge(tctx);
    // large-scope structured families (windows up to 300): sharded by family x tier grid entry
    {
        // the value law on every input back end (short words)
        let balpha: Vec<X> = vec![None, Some(0.0), Some(1.0), Some(3.0)];
        let bw = all_words_upto(balpha.len(), run.pick(4, 5));
        let bfns: Vec<R1> = V1_FEATURE.to_vec();
        total.merge(par_items(&bw, run.threads, |w, ctx| {
            ctx.states += 1;
            check_backends_value("backends", &bfns, &[], Law::Value, w, &balpha, cfg_all, ctx)
        }));
    }
    total.merge(check_structured_par(&fams[0], !run.quick(), 2, run.threads));
    total.merge(check_structured_par(&fams[1], !run.quick(), 2, run.threads));
    let meta = Meta {
        rule: "history trees: every word over the value alphabet up to the stated length, every window 1..=len+2, every min_periods in {omitted} U 0..=w, every listed entry point, element-type pair and output path; every output position is compared with the statistic recomputed from the window. Plus de Bruijn long traces. Non-trivial = word with at least one non-null element (distinct words counted). Configuration families (DESIGN 5.15): the value law on every input back-end configuration (family backends); the deep families with float nulls written as other NaN kinds (*-nan-kinds). Round 8 (DESIGN 5.17): structured series of 1030 (quick) / 2100 (thorough) elements, every fourth shape, windows 3 / 20 and 7 / 64.".into(),
        bounds: json!({
            "alphabets": {"deep": json_word(&fams[0].alpha), "matrix": json_word(&fams[2].alpha)},
            "max_len": fams.iter().map(|f| json!({"family": f.name, "L": f.max_len, "types": f.tys.iter().map(|t| t.name.clone()).collect::<Vec<_>>() })).collect::<Vec<_>>(),
            "window": "1..=len+2", "min_periods": "{omitted} U 0..=w", "fdiff_orders": [0.3, 0.5, 1.0, 1.5],
            "long_traces": if run.quick() { "B(4,5) and reversal, w<=7" } else { "B(5,6), B(4,7), B(3,9) and reversals, w<=n+2" },
        }),
        assumptions: vec![
            "finite inputs of bounded magnitude from exact (dyadic) alphabets, DESIGN 3.1/5.2".into(),
            "plain (non-null-aware) family driven with null-free words only, DESIGN 5.2".into(),
            "positions where the model is null are judged by C05, not here".into(),
            "checked build: opt-level 2 + overflow checks + debug assertions, DESIGN 2.2".into(),
        ],
        exhaustive: true,
        min_states: 1000,
    };
    std::process::exit(finish(&run, meta, total));
}

fn run_traces(run: &Run, fam: &SeriesFam, ctx: &mut Ctx) {
    let specs: Vec<(usize, usize)> = if run.quick() { vec![(4, 5)] } else { vec![(5, 6), (4, 7), (3, 9)] };
    for (k, n) in specs {
        let alpha: Vec<X> = if fam.plain { fam.alpha.iter().cloned().take(k).collect() } else { fam.alpha.iter().cloned().take(k).collect() };
        if alpha.len() < k {
            continue;
        }
        let seq = de_bruijn(k, n);
        let x = decode(&seq, &alpha);
        let mut rev = x.clone();
        rev.reverse();
        // only the f64->f64 instantiation (first type) on long traces
        let one = SeriesFam { tys: vec![fam.tys[0].clone()], name: fam.name.clone(), alpha: alpha.clone(), fns: fam.fns.clone(), paths: vec![Path::Ret], ..clone_shallow(fam) };
        check_long_trace(&one, &format!("B({k},{n})"), &x, n + 2, ctx);
        check_long_trace(&one, &format!("B({k},{n})-reversed"), &rev, n + 2, ctx);
    }
}

fn clone_shallow(f: &SeriesFam) -> SeriesFam {
    SeriesFam {
        name: f.name.clone(),
        alpha: f.alpha.clone(),
        max_len: f.max_len,
        plain: f.plain,
        fns: f.fns.clone(),
        tys: f.tys.clone(),
        paths: f.paths.clone(),
        law: f.law,
        w_lo: f.w_lo,
        w_extra: f.w_extra,
        min_len: f.min_len,
        scales: f.scales.clone(),
        cfg_ok: f.cfg_ok,
        classify: f.classify,
    }
}
