//! C14 — binning assigns the unique enclosing bin; run de-duplication keeps run ends.
use imp::*;
use mc_checks::*;

#[derive(Clone, Debug, PartialEq)]
enum CutOut {
    /// the call itself failed (label-count mismatch)
    CallErr,
    /// per element: Ok(label or null) / Err
    Elems(Vec<Result<X, ()>>),
}

/// model: the unique interval containing v
fn cut_model(vals: &[X], edges: &[f64], n_labels: usize, right: bool, add_bounds: bool) -> CutOut {
    cut_model_nl(vals, edges, n_labels, right, add_bounds, None)
}
/// `null_at`: the label of that bin is itself a null (a bin may be labelled "no label": blanked-out tails)
fn cut_model_nl(vals: &[X], edges: &[f64], n_labels: usize, right: bool, add_bounds: bool, null_at: Option<usize>) -> CutOut {
    let mut e: Vec<f64> = edges.to_vec();
    if add_bounds {
        if n_labels != edges.len() + 1 {
            return CutOut::CallErr;
        }
        e.insert(0, f64::NEG_INFINITY);
        e.push(f64::INFINITY);
    } else if n_labels + 1 != edges.len() {
        return CutOut::CallErr;
    }
    CutOut::Elems(
        vals.iter()
            .map(|v| match v {
                None => Ok(None),
                Some(v) => {
                    // with open outer bounds the first bin has no lower side and the last no upper side (so that
                    // infinite values are labelled too: "every non-null value receives a label")
                    let nb = e.len().saturating_sub(1);
                    let hits: Vec<usize> = (0..nb)
                        .filter(|j| {
                            let lower = (add_bounds && *j == 0) || if right { e[*j] < *v } else { e[*j] <= *v };
                            let upper = (add_bounds && *j + 1 == nb) || if right { *v <= e[j + 1] } else { *v < e[j + 1] };
                            lower && upper
                        })
                        .collect();
                    match hits.as_slice() {
                        [j] if Some(*j) == null_at => Ok(None),
                        [j] => Ok(Some(100.0 + *j as f64)),
                        _ => Err(()),
                    }
                }
            })
            .collect(),
    )
}


/// everything that needs tevec's prelude lives here: the prelude shadows Iterator::all/any/sum/max/get
mod imp {
    use super::CutOut;
    use mc_checks::*;
    use tevec::map::Keep;
    use tevec::prelude::*;

    pub fn run_cut_f64(vals: &[X], edges: &[f64], n_labels: usize, right: bool, add_bounds: bool) -> Outcome<CutOut> {
        run_cut_f64_nl(vals, edges, n_labels, right, add_bounds, None)
    }
    pub fn run_cut_f64_nl(vals: &[X], edges: &[f64], n_labels: usize, right: bool, add_bounds: bool, null_at: Option<usize>) -> Outcome<CutOut> {
        let v: Vec<f64> = enc_vec(vals);
        let bins: Vec<f64> = edges.to_vec();
        let labels: Vec<f64> = (0..n_labels).map(|j| if Some(j) == null_at { f64::NAN } else { 100.0 + j as f64 }).collect();
        catch(|| match v.titer().vcut(&bins, &labels, right, add_bounds) {
            Err(_) => CutOut::CallErr,
            Ok(it) => CutOut::Elems(it.map(|r: TResult<f64>| r.map(|l| if l.is_nan() { None } else { Some(l) }).map_err(|_| ())).collect()),
        })
    }
    pub fn run_cut_i32(vals: &[X], edges: &[f64], n_labels: usize, right: bool, add_bounds: bool) -> Outcome<CutOut> {
        run_cut_i32_nl(vals, edges, n_labels, right, add_bounds, None)
    }
    /// f64 values, string labels ("None" is the null string)
    pub fn run_cut_str_nl(vals: &[X], edges: &[f64], n_labels: usize, right: bool, add_bounds: bool, null_at: Option<usize>) -> Outcome<CutOut> {
        let v: Vec<f64> = enc_vec(vals);
        let bins: Vec<f64> = edges.to_vec();
        let labels: Vec<String> = (0..n_labels).map(|j| if Some(j) == null_at { "None".to_string() } else { format!("{}", 100 + j) }).collect();
        catch(|| match v.titer().vcut(&bins, &labels, right, add_bounds) {
            Err(_) => CutOut::CallErr,
            Ok(it) => CutOut::Elems(it.map(|r: TResult<String>| r.map(|l| l.parse::<f64>().ok()).map_err(|_| ())).collect()),
        })
    }
    pub fn run_cut_i32_nl(vals: &[X], edges: &[f64], n_labels: usize, right: bool, add_bounds: bool, null_at: Option<usize>) -> Outcome<CutOut> {
        let v: Vec<Option<i32>> = enc_vec(vals);
        let bins: Vec<Option<i32>> = edges.iter().map(|e| Some(*e as i32)).collect();
        let labels: Vec<Option<i32>> = (0..n_labels).map(|j| if Some(j) == null_at { None } else { Some(100 + j as i32) }).collect();
        catch(|| match v.titer().vcut(&bins, &labels, right, add_bounds) {
            Err(_) => CutOut::CallErr,
            Ok(it) => CutOut::Elems(it.map(|r: TResult<Option<i32>>| r.map(|l| l.map(|x| x as f64)).map_err(|_| ())).collect()),
        })
    }

    /// labels of other element types (round 11): (is the label of each item a null?, does it equal labels[j]?)
    /// for the values [null, 1.0 (bin 0), 3.0 (bin 1), null]; `ty` selects the label type
    pub const LABEL_TYPES: [&str; 7] = ["Time", "DateTime<ns>", "DateTime<s>", "TimeDelta", "String", "Option<bool>", "Option<usize>"];
    pub fn cut_typed_labels(ty: usize, right: bool, add_bounds: bool) -> Outcome<Vec<(bool, Option<usize>, String)>> {
        use tevec::prelude::{DateTime, Time, TimeDelta, unit};
        let v: Vec<f64> = vec![f64::NAN, 1.0, 3.0, f64::NAN];
        let bins: Vec<f64> = if add_bounds { vec![2.0] } else { vec![0.0, 2.0, 5.0] };
        macro_rules! go {
            ($labels:expr) => {{
                let labels = $labels;
                let it = v.titer().vcut(&bins, &labels, right, add_bounds).expect("label count is right");
                it.map(|r| {
                    let l = r.expect("every value lies in a bin");
                    (l.is_none(), labels.iter().position(|x| !x.is_none() && format!("{x:?}") == format!("{l:?}")), format!("{l:?}"))
                })
                .collect::<Vec<_>>()
            }};
        }
        catch(|| match ty {
            0 => go!(vec![Time::from_hms(0, 0, 0), Time::from_hms(1, 2, 3)]),
            1 => go!(vec![DateTime::<unit::Nanosecond>::new(0), DateTime::<unit::Nanosecond>::new(5)]),
            2 => go!(vec![DateTime::<unit::Second>::new(0), DateTime::<unit::Second>::new(5)]),
            3 => go!(vec![TimeDelta::parse("0s").unwrap(), TimeDelta::parse("1mo").unwrap()]),
            4 => go!(vec!["".to_string(), "b".to_string()]),
            5 => go!(vec![Some(false), Some(true)]),
            _ => go!(vec![Some(0usize), Some(1usize)]),
        })
    }

    /// vcut on i64 values / edges given as base + offset (integers f64 cannot tell apart)
    pub fn run_cut_i64(vals: &[Option<i64>], edges: &[i64], n_labels: usize, right: bool, add_bounds: bool) -> Outcome<CutOut> {
        let v: Vec<Option<i64>> = vals.to_vec();
        let bins: Vec<Option<i64>> = edges.iter().map(|e| Some(*e)).collect();
        let labels: Vec<Option<i64>> = (0..n_labels).map(|j| Some(100 + j as i64)).collect();
        catch(|| match v.titer().vcut(&bins, &labels, right, add_bounds) {
            Err(_) => CutOut::CallErr,
            Ok(it) => CutOut::Elems(it.map(|r: TResult<Option<i64>>| r.map(|l| l.map(|x| x as f64)).map_err(|_| ())).collect()),
        })
    }
    pub fn unique_idx_i64(x: &[Option<i64>], last: bool) -> Vec<usize> {
        x.to_vec().titer().vsorted_unique_idx(if last { Keep::Last } else { Keep::First }).collect()
    }

    /// symbols -> durations, ascending: sub-microsecond neighbours, a month part, durations beyond 292 years
    pub const TD_TEXT: [&str; 7] = ["-150000d", "0s", "1000ns", "1200ns", "110000d", "150000d", "150000d1ns"];
    pub fn unique_idx_td(x: &[X], last: bool, opt_view: bool) -> Vec<usize> {
        use tevec::prelude::TimeDelta;
        let v: Vec<TimeDelta> = x.iter().map(|a| a.map_or(TimeDelta::nat(), |i| TimeDelta::parse(TD_TEXT[i as usize]).unwrap())).collect();
        let keep = if last { Keep::Last } else { Keep::First };
        if opt_view {
            v.opt().titer().vsorted_unique_idx(keep).collect()
        } else {
            v.titer().vsorted_unique_idx(keep).collect()
        }
    }
    pub fn unique_vals_td(x: &[X]) -> Vec<X> {
        use tevec::prelude::TimeDelta;
        let v: Vec<TimeDelta> = x.iter().map(|a| a.map_or(TimeDelta::nat(), |i| TimeDelta::parse(TD_TEXT[i as usize]).unwrap())).collect();
        let texts: Vec<TimeDelta> = TD_TEXT.iter().map(|t| TimeDelta::parse(t).unwrap()).collect();
        v.titer().vsorted_unique().map(|d| texts.iter().position(|t| t.months == d.months && t.inner == d.inner).map(|i| i as f64)).collect()
    }
    pub fn unique_idx_f64(x: &[X], last: bool) -> Vec<usize> {
        enc_vec::<f64>(x).titer().vsorted_unique_idx(if last { Keep::Last } else { Keep::First }).collect()
    }
    pub fn unique_idx_opt(x: &[X], last: bool) -> Vec<usize> {
        enc_vec::<Option<i32>>(x).titer().vsorted_unique_idx(if last { Keep::Last } else { Keep::First }).collect()
    }
    pub fn unique_vals(x: &[X], f64_elem: bool) -> Vec<X> {
        if f64_elem {
            enc_vec::<f64>(x).titer().vsorted_unique().map(|v| if v.is_nan() { None } else { Some(v) }).collect()
        } else {
            enc_vec::<Option<i32>>(x).titer().vsorted_unique().map(|v| v.map(|i| i as f64)).collect()
        }
    }
}

fn check_cut(ctx: &mut Ctx) {
    let fam = "cut";
    let pool = [-1.0, 0.0, 2.0, 5.0, 7.0];
    for ty in ["f64", "Option<i32>"] {
        let (mn, mx) = if ty == "f64" { (f64::MIN, f64::MAX) } else { (i32::MIN as f64, i32::MAX as f64) };
        let vals: Vec<X> = vec![None, Some(mn), Some(-3.0), Some(-1.0), Some(0.0), Some(1.0), Some(2.0), Some(5.0), Some(7.0), Some(mx)];
        for mask in 0u32..32 {
            let edges: Vec<f64> = (0..5).filter(|i| mask >> i & 1 == 1).map(|i| pool[i]).collect();
            for n_labels in 0..=6 {
                for right in [true, false] {
                    for add_bounds in [true, false] {
                        ctx.states += 1;
                        ctx.fam(fam).states += 1;
                        ctx.transitions += vals.len() as u64;
                        ctx.nontrivial(fam, hash_bytes(format!("{ty}{mask}{n_labels}{right}{add_bounds}").as_bytes()));
                        let want = cut_model(&vals, &edges, n_labels, right, add_bounds);
                        let got = if ty == "f64" { run_cut_f64(&vals, &edges, n_labels, right, add_bounds) } else { run_cut_i32(&vals, &edges, n_labels, right, add_bounds) };
                        ctx.eval(fam, hash_bytes(format!("{got:?}").as_bytes()));
                        let ok = matches!(&got, Outcome::Ok(g) if *g == want);
                        if ok {
                            ctx.traces += 1;
                            if ctx.samples.len() < 2 && mask == 0b01110 && n_labels == 4 && add_bounds {
                                ctx.sample(json!({"op": "vcut", "elem": ty, "values": json_word(&vals), "edges": edges, "labels": n_labels, "right": right, "add_bounds": add_bounds, "observed": format!("{got:?}")}));
                            }
                            continue;
                        }
                        // F20: the outer bounds are materialised as the type's MIN / MAX and compared strictly
                        let mut finding = None;
                        if let (Outcome::Ok(CutOut::Elems(g)), CutOut::Elems(w)) = (&got, &want) {
                            let diff: Vec<usize> = (0..w.len()).filter(|i| g.get(*i) != Some(&w[*i])).collect();
                            let only_extreme = add_bounds && g.len() == w.len() && diff.iter().all(|i| (vals[*i] == Some(mn) && right) || (vals[*i] == Some(mx) && !right));
                            if only_extreme {
                                finding = Some("F20".to_string());
                            }
                        }
                        ctx.violation(Violation {
                            entry: "vcut".into(),
                            finding,
                            size: edges.len() * 10 + n_labels,
                            case: json!({"family": fam, "elem": ty, "values": json_word(&vals), "edges": edges, "labels": n_labels, "right": right, "add_bounds": add_bounds}),
                            expected: format!("{want:?}"),
                            got: format!("{got:?}"),
                        });
                    }
                }
            }
        }
    }
}

/// value *sequences* (seed round 10): every word of length <= L over {null, below, on an edge, inside, above} - the
/// label of an item is a function of that item alone, whatever came before it (repeats, misses, nulls), and every
/// item after an Err item is still delivered
fn check_cut_sequences(max_len: usize, ctx: &mut Ctx) {
    let fam = "cut-sequences";
    let alpha: Vec<X> = vec![None, Some(-3.0), Some(0.0), Some(1.0), Some(7.0)];
    for w in all_words_upto(alpha.len(), max_len) {
        if w.is_empty() {
            continue;
        }
        let vals = decode(&w, &alpha);
        ctx.states += 1;
        ctx.fam(fam).states += 1;
        ctx.nontrivial(fam, hash_bytes(&w));
        for edges in [vec![0.0, 2.0], vec![-1.0, 0.0, 2.0, 5.0], vec![0.0]] {
            for right in [true, false] {
                for add_bounds in [true, false] {
                    let n_labels = if add_bounds { edges.len() + 1 } else { edges.len() - 1 };
                    ctx.transitions += vals.len() as u64;
                    let want = cut_model(&vals, &edges, n_labels, right, add_bounds);
                    for ty in ["f64", "Option<i32>"] {
                        let got = if ty == "f64" { run_cut_f64(&vals, &edges, n_labels, right, add_bounds) } else { run_cut_i32(&vals, &edges, n_labels, right, add_bounds) };
                        ctx.eval(fam, hash_bytes(format!("{got:?}").as_bytes()));
                        if matches!(&got, Outcome::Ok(g) if *g == want) {
                            ctx.traces += 1;
                            continue;
                        }
                        ctx.violation(Violation {
                            entry: "vcut (sequence)".into(),
                            finding: None,
                            size: vals.len() * 10 + edges.len(),
                            case: json!({"family": fam, "elem": ty, "word": w, "values": json_word(&vals), "edges": edges, "labels": n_labels, "right": right, "add_bounds": add_bounds}),
                            expected: format!("{want:?}"),
                            got: format!("{got:?}"),
                        });
                    }
                }
            }
        }
    }
}

/// labels of the time types, strings, optional bools / indices - in particular labels that are the type's
/// *default* value (midnight, the epoch, the zero duration, "", false, 0): a null value gets the type's null,
/// a value in a bin gets that bin's label
fn check_cut_typed_labels(ctx: &mut Ctx) {
    let fam = "cut-typed-labels";
    for (ty, tname) in LABEL_TYPES.iter().enumerate() {
        for right in [true, false] {
            for add_bounds in [true, false] {
                ctx.states += 1;
                ctx.fam(fam).states += 1;
                ctx.transitions += 4;
                ctx.nontrivial(fam, hash_bytes(format!("{tname}{right}{add_bounds}").as_bytes()));
                let got = cut_typed_labels(ty, right, add_bounds);
                ctx.eval(fam, hash_bytes(format!("{got:?}").as_bytes()));
                let want = vec![(true, None), (false, Some(0)), (false, Some(1)), (true, None)];
                if !matches!(&got, Outcome::Ok(g) if g.iter().map(|(a, b, _)| (*a, *b)).collect::<Vec<_>>() == want) {
                    ctx.violation(Violation {
                        entry: "vcut (typed labels)".into(),
                        finding: None,
                        size: ty,
                        case: json!({"family": fam, "label_type": tname, "values": "[null, 1, 3, null]", "right": right, "add_bounds": add_bounds}),
                        expected: format!("(label is null, index of the label) = {want:?}"),
                        got: format!("{got:?}"),
                    });
                } else {
                    ctx.traces += 1;
                }
            }
        }
    }
}

/// a bin's own label may be a null (NaN / None / "None"): a value in that bin gets that label - Ok(null) - not an error
fn check_cut_null_labels(ctx: &mut Ctx) {
    let fam = "cut-null-labels";
    let pool = [-1.0, 0.0, 2.0, 5.0];
    let vals: Vec<X> = vec![None, Some(-3.0), Some(-1.0), Some(0.0), Some(1.0), Some(2.0), Some(5.0), Some(7.0)];
    for ty in ["f64", "Option<i32>", "f64->String"] {
        for mask in 0u32..16 {
            let edges: Vec<f64> = (0..4).filter(|i| mask >> i & 1 == 1).map(|i| pool[i]).collect();
            for right in [true, false] {
                for add_bounds in [true, false] {
                    let n_labels = if add_bounds { edges.len() + 1 } else { edges.len().saturating_sub(1) };
                    for null_at in 0..n_labels {
                        ctx.states += 1;
                        ctx.fam(fam).states += 1;
                        ctx.transitions += vals.len() as u64;
                        ctx.nontrivial(fam, hash_bytes(format!("{ty}{mask}{null_at}{right}{add_bounds}").as_bytes()));
                        let want = cut_model_nl(&vals, &edges, n_labels, right, add_bounds, Some(null_at));
                        let got = match ty {
                            "f64" => run_cut_f64_nl(&vals, &edges, n_labels, right, add_bounds, Some(null_at)),
                            "Option<i32>" => run_cut_i32_nl(&vals, &edges, n_labels, right, add_bounds, Some(null_at)),
                            _ => run_cut_str_nl(&vals, &edges, n_labels, right, add_bounds, Some(null_at)),
                        };
                        ctx.eval(fam, hash_bytes(format!("{got:?}").as_bytes()));
                        if matches!(&got, Outcome::Ok(g) if *g == want) {
                            ctx.traces += 1;
                            continue;
                        }
                        ctx.violation(Violation {
                            entry: "vcut (null label)".into(),
                            finding: None,
                            size: edges.len() * 10 + null_at,
                            case: json!({"family": fam, "elem": ty, "values": json_word(&vals), "edges": edges, "null_label_at": null_at, "right": right, "add_bounds": add_bounds}),
                            expected: format!("{want:?}"),
                            got: format!("{got:?}"),
                        });
                    }
                }
            }
        }
    }
}

/// runs of an element type whose equality is hand-written (durations): sub-microsecond neighbours and durations
/// beyond 292 years are distinct values, hence distinct runs
fn check_unique_durations(max_len: usize, ctx: &mut Ctx) {
    let fam = "unique-durations";
    let k = TD_TEXT.len();
    let mut bodies: Vec<Vec<u8>> = vec![];
    for_words_upto(k, max_len, &mut |w| {
        if w.windows(2).all(|p| p[0] <= p[1]) || w.windows(2).all(|p| p[0] >= p[1]) {
            bodies.push(w.to_vec());
        }
    });
    for body in &bodies {
        for (head, tail) in [(0usize, 0usize), (1, 0), (0, 2), (1, 1)] {
            let mut x: Vec<X> = vec![None; head];
            x.extend(body.iter().map(|v| Some(*v as f64)));
            x.extend(vec![None; tail]);
            ctx.states += 1;
            ctx.fam(fam).states += 1;
            ctx.transitions += x.len() as u64;
            ctx.nontrivial(fam, hash_bytes(format!("{body:?}{head}{tail}").as_bytes()));
            for opt_view in [false, true] {
                for last in [false, true] {
                    let want = unique_model(&x, last);
                    let got = catch(|| unique_idx_td(&x, last, opt_view));
                    ctx.eval(fam, hash_bytes(format!("{got:?}").as_bytes()));
                    if matches!(&got, Outcome::Ok(g) if *g == want) {
                        ctx.traces += 1;
                    } else {
                        ctx.violation(Violation {
                            entry: format!("vsorted_unique_idx(Keep::{}) on TimeDelta", if last { "Last" } else { "First" }),
                            finding: None,
                            size: x.len(),
                            case: json!({"family": fam, "elem": if opt_view { "TimeDelta (option view)" } else { "TimeDelta" }, "series": json_word(&x), "durations": TD_TEXT}),
                            expected: format!("{want:?}"),
                            got: format!("{got:?}"),
                        });
                    }
                }
            }
            let want: Vec<X> = unique_model(&x, false).iter().map(|i| x[*i]).collect();
            let got = catch(|| unique_vals_td(&x));
            ctx.eval(fam, hash_bytes(format!("{got:?}").as_bytes()));
            if !matches!(&got, Outcome::Ok(g) if *g == want) {
                ctx.violation(Violation { entry: "vsorted_unique on TimeDelta".into(), finding: None, size: x.len(), case: json!({"family": fam, "elem": "TimeDelta", "series": json_word(&x), "durations": TD_TEXT}), expected: show_word(&want), got: format!("{got:?}") });
            }
        }
    }
}

/// model of the unique-index operation on an input whose equal values are adjacent
fn unique_model(x: &[X], last: bool) -> Vec<usize> {
    let mut out = vec![];
    let mut i = 0;
    while i < x.len() {
        if x[i].is_none() {
            i += 1;
            continue;
        }
        let mut j = i;
        while j + 1 < x.len() && x[j + 1] == x[i] {
            j += 1;
        }
        out.push(if last { j } else { i });
        i = j + 1;
    }
    out
}

fn check_unique(max_len: usize, ctx: &mut Ctx) {
    let fam = "unique";
    // every non-decreasing and non-increasing word over {0,1,2,3}, null block of 0..2 at head and/or tail
    let mut bodies: Vec<Vec<u8>> = vec![];
    for_words_upto(4, max_len, &mut |w| {
        let inc = w.windows(2).all(|p| p[0] <= p[1]);
        let dec = w.windows(2).all(|p| p[0] >= p[1]);
        if inc || dec {
            bodies.push(w.to_vec());
        }
    });
    for body in &bodies {
        for head in 0..=2 {
            for tail in 0..=2 {
                let mut x: Vec<X> = vec![None; head];
                x.extend(body.iter().map(|v| Some(*v as f64)));
                x.extend(vec![None; tail]);
                ctx.states += 1;
                ctx.fam(fam).states += 1;
                ctx.transitions += x.len() as u64;
                ctx.nontrivial(fam, hash_bytes(format!("{body:?}{head}{tail}").as_bytes()));
                for (ename, runner) in [("f64", unique_idx_f64 as fn(&[X], bool) -> Vec<usize>), ("Option<i32>", unique_idx_opt)] {
                    for last in [false, true] {
                        let want = unique_model(&x, last);
                        let got = catch(|| runner(&x, last));
                        ctx.eval(fam, hash_bytes(format!("{got:?}").as_bytes()));
                        let ok = matches!(&got, Outcome::Ok(g) if *g == want);
                        if !ok {
                            // F19: Keep::Last with leading nulls emits the index of the last leading null
                            let f19 = last && head >= 1 && matches!(&got, Outcome::Ok(g) if !g.is_empty() && g[0] == head - 1 && g[1..] == want[..]);
                            ctx.violation(Violation {
                                entry: format!("vsorted_unique_idx(Keep::{})", if last { "Last" } else { "First" }),
                                finding: if f19 { Some("F19".into()) } else { None },
                                size: x.len(),
                                case: json!({"family": fam, "elem": ename, "series": json_word(&x)}),
                                expected: format!("{want:?}"),
                                got: format!("{got:?}"),
                            });
                        } else {
                            ctx.traces += 1;
                        }
                    }
                    // one representative per run
                    let want: Vec<X> = unique_model(&x, false).iter().map(|i| x[*i]).collect();
                    let got = catch(|| unique_vals(&x, ename == "f64"));
                    ctx.eval(fam, hash_bytes(format!("{got:?}").as_bytes()));
                    if !matches!(&got, Outcome::Ok(g) if *g == want) {
                        ctx.violation(Violation {
                            entry: "vsorted_unique".into(),
                            finding: None,
                            size: x.len(),
                            case: json!({"family": fam, "elem": ename, "series": json_word(&x)}),
                            expected: show_word(&want),
                            got: format!("{got:?}"),
                        });
                    }
                }
            }
        }
    }
}

/// beyond the small scope (DESIGN 5.14): many edges, long runs, integers beyond 2^53
fn check_large(thorough: bool, ctx: &mut Ctx) {
    // (a) many edges: 0, 1, .., E-1; values on every edge, between edges and outside
    let fam = "cut-many-edges";
    let sizes: Vec<usize> = if thorough { vec![17, 33, 65, 257] } else { vec![17, 65] };
    for e in sizes {
        let edges: Vec<f64> = (0..e).map(|i| i as f64).collect();
        for ty in ["f64", "Option<i32>"] {
            let (mn, mx) = if ty == "f64" { (f64::MIN, f64::MAX) } else { (i32::MIN as f64, i32::MAX as f64) };
            let mut vals: Vec<X> = vec![None, Some(-1.0), Some(e as f64), Some(e as f64 + 3.0), Some(mn), Some(mx)];
            if ty == "f64" {
                vals.extend([Some(f64::NEG_INFINITY), Some(f64::INFINITY)]);
            }
            for k in 0..e {
                vals.push(Some(k as f64));
                if ty == "f64" {
                    vals.push(Some(k as f64 + 0.5));
                }
            }
            for (add_bounds, n_labels) in [(false, e - 1), (true, e + 1), (false, e), (true, e)] {
                for right in [true, false] {
                    ctx.states += 1;
                    ctx.fam(fam).states += 1;
                    ctx.transitions += vals.len() as u64;
                    ctx.nontrivial(fam, hash_bytes(format!("{ty}{e}{n_labels}{right}{add_bounds}").as_bytes()));
                    let want = cut_model(&vals, &edges, n_labels, right, add_bounds);
                    let got = if ty == "f64" { run_cut_f64(&vals, &edges, n_labels, right, add_bounds) } else { run_cut_i32(&vals, &edges, n_labels, right, add_bounds) };
                    ctx.eval(fam, hash_bytes(format!("{got:?}").as_bytes()));
                    if matches!(&got, Outcome::Ok(g) if *g == want) {
                        ctx.traces += 1;
                    } else {
                        let at = match (&got, &want) {
                            (Outcome::Ok(CutOut::Elems(g)), CutOut::Elems(w)) => (0..w.len()).find(|i| g.get(*i) != Some(&w[*i])).map(|i| format!("first difference at value {:?}: got {:?}, expected {:?}", vals[i], g.get(i), w[i])),
                            _ => None,
                        };
                        ctx.violation(Violation {
                            entry: "vcut".into(),
                            finding: None,
                            size: 10_000 + e,
                            case: json!({"family": fam, "elem": ty, "edges": format!("0..{e}"), "labels": n_labels, "right": right, "add_bounds": add_bounds}),
                            expected: "the unique enclosing interval for every value".into(),
                            got: at.unwrap_or_else(|| truncate(&format!("{got:?}"), 200)),
                        });
                    }
                }
            }
        }
    }
    // (b) long runs: 1..3 runs with lengths from {1, 2, 255, 256, 257}, nulls at head / tail
    let fam = "unique-long-runs";
    let lens = [1usize, 2, 255, 256, 257];
    let mut comps: Vec<Vec<usize>> = vec![];
    for a in lens {
        comps.push(vec![a]);
        for b in lens {
            comps.push(vec![a, b]);
            if thorough {
                for c in lens {
                    comps.push(vec![a, b, c]);
                }
            }
        }
    }
    for comp in &comps {
        for (head, tail) in [(0usize, 0usize), (2, 0), (0, 1), (1, 2)] {
            for desc in [false, true] {
                let mut x: Vec<X> = vec![None; head];
                for (r, n) in comp.iter().enumerate() {
                    let v = if desc { (comp.len() - r) as f64 } else { r as f64 };
                    x.extend(std::iter::repeat(Some(v)).take(*n));
                }
                x.extend(vec![None; tail]);
                ctx.states += 1;
                ctx.fam(fam).states += 1;
                ctx.transitions += x.len() as u64;
                ctx.nontrivial(fam, hash_bytes(format!("{comp:?}{head}{tail}{desc}").as_bytes()));
                for (ename, runner) in [("f64", unique_idx_f64 as fn(&[X], bool) -> Vec<usize>), ("Option<i32>", unique_idx_opt)] {
                    for last in [false, true] {
                        let want = unique_model(&x, last);
                        let got = catch(|| runner(&x, last));
                        ctx.eval(fam, hash_bytes(format!("{got:?}").as_bytes()));
                        if matches!(&got, Outcome::Ok(g) if *g == want) {
                            ctx.traces += 1;
                        } else {
                            ctx.violation(Violation {
                                entry: format!("vsorted_unique_idx(Keep::{})", if last { "Last" } else { "First" }),
                                finding: None,
                                size: 10_000 + x.len(),
                                case: json!({"family": fam, "elem": ename, "run_lengths": comp, "head_nulls": head, "tail_nulls": tail, "descending": desc}),
                                expected: format!("{want:?}"),
                                got: truncate(&format!("{got:?}"), 200),
                            });
                        }
                    }
                    let want: Vec<X> = unique_model(&x, false).iter().map(|i| x[*i]).collect();
                    let got = catch(|| unique_vals(&x, ename == "f64"));
                    if !matches!(&got, Outcome::Ok(g) if *g == want) {
                        ctx.violation(Violation { entry: "vsorted_unique".into(), finding: None, size: 10_000 + x.len(), case: json!({"family": fam, "elem": ename, "run_lengths": comp, "head_nulls": head, "tail_nulls": tail, "descending": desc}), expected: show_word(&want), got: truncate(&format!("{got:?}"), 200) });
                    }
                }
            }
        }
    }
    // (c) integers beyond 2^53: binning and run detection depend on the order only (translation relation)
    let fam = "translation-bigint";
    for base in [1i64 << 60, -(1i64 << 60)] {
        let small_vals: Vec<Option<i64>> = vec![None, Some(-1), Some(0), Some(1), Some(2), Some(3), Some(4), Some(5)];
        let big_vals: Vec<Option<i64>> = small_vals.iter().map(|v| v.map(|o| base + o)).collect();
        for mask in 1u32..16 {
            let small_edges: Vec<i64> = (0..4).filter(|i| mask >> i & 1 == 1).map(|i| [0i64, 1, 3, 4][i]).collect();
            let big_edges: Vec<i64> = small_edges.iter().map(|e| base + e).collect();
            for add_bounds in [false, true] {
                let n_labels = if add_bounds { small_edges.len() + 1 } else { small_edges.len().saturating_sub(1) };
                for right in [true, false] {
                    ctx.states += 1;
                    ctx.fam(fam).states += 1;
                    ctx.transitions += 1;
                    ctx.nontrivial(fam, hash_bytes(format!("{base}{mask}{add_bounds}{right}").as_bytes()));
                    let a = run_cut_i64(&small_vals, &small_edges, n_labels, right, add_bounds);
                    let b = run_cut_i64(&big_vals, &big_edges, n_labels, right, add_bounds);
                    ctx.eval(fam, hash_bytes(format!("{b:?}").as_bytes()));
                    if !matches!((&a, &b), (Outcome::Ok(x), Outcome::Ok(y)) if x == y) {
                        ctx.violation(Violation { entry: "translation:vcut".into(), finding: None, size: 10_000, case: json!({"family": fam, "base": base, "edge_offsets": small_edges, "right": right, "add_bounds": add_bounds}), expected: format!("as on the offsets alone: {a:?}"), got: format!("{b:?}") });
                    }
                }
            }
        }
        let mut bodies: Vec<Vec<u8>> = vec![];
        for_words_upto(3, 5, &mut |w| {
            if w.windows(2).all(|p| p[0] <= p[1]) {
                bodies.push(w.to_vec());
            }
        });
        for body in &bodies {
            let small: Vec<Option<i64>> = body.iter().map(|v| Some(*v as i64)).collect();
            let big: Vec<Option<i64>> = small.iter().map(|v| v.map(|o| base + o)).collect();
            for last in [false, true] {
                ctx.states += 1;
                ctx.transitions += 1;
                let a = catch(|| unique_idx_i64(&small, last));
                let b = catch(|| unique_idx_i64(&big, last));
                ctx.eval(fam, hash_bytes(format!("{b:?}").as_bytes()));
                if !matches!((&a, &b), (Outcome::Ok(x), Outcome::Ok(y)) if x == y) {
                    ctx.violation(Violation { entry: "translation:vsorted_unique_idx".into(), finding: None, size: 10_000, case: json!({"family": fam, "base": base, "offsets": body, "keep_last": last}), expected: format!("{a:?}"), got: format!("{b:?}") });
                }
            }
        }
    }
}

fn main() {
    let run = Run::from_args("C14");
    let max_len = run.pick(7, 14);
    let mut ctx = Ctx::new();
    if let Some(path) = &run.replay {
        let stored = load_replay(path).unwrap_or_else(|e| {
            eprintln!("MACHINERY-ERROR: {e}");
            std::process::exit(2)
        });
        if stored["case"]["family"] == "cut" {
            check_cut(&mut ctx);
        } else if stored["case"]["family"] == "unique-durations" {
            check_unique_durations(run.pick(4, 5), &mut ctx);
        } else if stored["case"]["family"] == "cut-typed-labels" {
            check_cut_typed_labels(&mut ctx);
        } else if stored["case"]["family"] == "cut-sequences" {
            check_cut_sequences(run.pick(4, 6), &mut ctx);
        } else if stored["case"]["family"] == "cut-null-labels" {
            check_cut_null_labels(&mut ctx);
        } else if ["cut-many-edges", "unique-long-runs", "translation-bigint"].contains(&stored["case"]["family"].as_str().unwrap_or("")) {
            check_large(!run.quick(), &mut ctx);
        } else {
            check_unique(max_len, &mut ctx);
        }
        std::process::exit(finish_replay(&run, &stored, ctx));
    }
    check_cut(&mut ctx);
    check_cut_null_labels(&mut ctx);
    check_cut_sequences(run.pick(4, 6), &mut ctx);
    check_cut_typed_labels(&mut ctx);
    check_unique(max_len, &mut ctx);
    check_unique_durations(run.pick(4, 5), &mut ctx);
    check_large(!run.quick(), &mut ctx);
    let meta = Meta {
        rule: "cut: the whole value alphabet {null, MIN, -3, -1, 0, 1, 2, 5, 7, MAX} (f64 and Option<i32>) x every ascending subset of the edge pool {-1,0,2,5,7} x label counts 0..=6 x right x add_bounds; oracle = the unique interval containing the value (outer edges at -inf/+inf with open bounds), Err for no interval, call-level Err for a label-count mismatch, never a panic. unique: every non-decreasing and non-increasing word over {0,1,2,3} (all run-length compositions) with null blocks of 0..2 at head and tail, Keep::First / Keep::Last / vsorted_unique; oracle = first / last index of each maximal run. Beyond the small scope: 17..257 consecutive edges with values on and between every edge; 1..3 runs with lengths from {1,2,255,256,257}; the translation relation for i64 values and edges around +-2^60. Non-trivial = distinct parameter points / words. Also labels that are nulls themselves at every position (cut-null-labels: f64, Option<i32>, String labels; DESIGN 5.15). Round 9 (DESIGN 5.18): unique-durations - sorted TimeDelta words, including durations beyond the i64 nanosecond range, through vsorted_unique / vsorted_unique_idx against the run model. Round 10 (DESIGN 5.19): cut-sequences - every value word of length <= L over {null, below, on an edge, inside, above}: an item's label depends on that item alone, and every item after an Err item is still delivered. Round 11 (DESIGN 5.20): cut-typed-labels - labels of type Time, DateTime<ns|s>, TimeDelta, String, Option<bool>, Option<usize> whose first label is the type's default value: a null value gets the type's null, a value in a bin that bin's label.".into(),
        bounds: json!({"cut": {"edge_pool": [-1, 0, 2, 5, 7], "labels": "0..=6"}, "unique": {"alphabet": [0, 1, 2, 3], "L": max_len, "null_block": "0..=2 head x 0..=2 tail"}}),
        assumptions: vec!["finite values (the type's MIN and MAX included)".into()],
        exhaustive: true,
        min_states: 500,
    };
    std::process::exit(finish(&run, meta, ctx));
}
