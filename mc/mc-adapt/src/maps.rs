//! Entry-point table of the element-wise mapping operations and order-statistics maps.
use crate::elem::*;
use mc_core::{catch, Cell, Outcome};
use tevec::prelude::*;

pub use mc_ref::map::MapOp;

/// What a trusted-length iterator did when consumed by plain safe iteration.
#[derive(Clone, Debug)]
pub struct Drained {
    pub cells: Vec<Cell>,
    /// size_hint() before the first item
    pub hint: (usize, Option<usize>),
    /// the iterator was still yielding when the safety cap was reached
    pub capped: bool,
}

thread_local! {
    static NTH: std::cell::Cell<Option<usize>> = const { std::cell::Cell::new(None) };
}
/// Partial consumption through `nth` (round 11): inside `f`, `drain` first calls `it.nth(j)` - an adaptor may
/// override `nth` differently from `next` - and reports the size hint *after* that call; the cells are the item
/// `nth` returned (if any) followed by everything `next()` still yields.
pub fn with_nth<R>(j: usize, f: impl FnOnce() -> R) -> R {
    NTH.with(|c| c.set(Some(j)));
    let r = f();
    NTH.with(|c| c.set(None));
    r
}

/// Safe consumption: `next()` until `None`, capped at hint + 4096 (DESIGN 2.6).
pub fn drain<I: Iterator>(mut it: I, dec: impl Fn(&I::Item) -> Cell) -> Drained {
    let mut cells = Vec::new();
    if let Some(j) = NTH.with(|c| c.get()) {
        if let Some(v) = it.nth(j) {
            cells.push(dec(&v));
        }
    }
    let hint = it.size_hint();
    let cap = hint.1.unwrap_or(hint.0).saturating_add(4096);
    let first = cells.len();
    let mut capped = false;
    loop {
        match it.next() {
            None => break,
            Some(v) => {
                if cells.len() - first >= cap {
                    capped = true;
                    break;
                }
                cells.push(dec(&v));
            }
        }
    }
    Drained { cells, hint, capped }
}

fn ev<T: Elem>(x: X) -> T {
    T::enc(x)
}
fn evo<T: Elem>(x: Option<X>) -> Option<T> {
    x.map(|v| T::enc(v))
}

/// can the operation's parameters be encoded into T?
pub fn op_encodable<T: Elem>(op: &MapOp) -> bool {
    let ok = |x: &X| encodable::<T>(&[*x]);
    match op {
        MapOp::Shift(_, f) | MapOp::Fill(f) | MapOp::FillMask0(f) => ok(f),
        MapOp::VShift(_, f) | MapOp::VDiff(_, f) | MapOp::Ffill(f) | MapOp::Bfill(f) | MapOp::FfillMask0(f) | MapOp::BfillMask0(f) => {
            f.as_ref().map_or(true, ok)
        }
        MapOp::VClip(a, b) => ok(a) && ok(b),
        _ => true,
    }
}

/// Operations available on every null-aware element type (floats and options), on any back end.
pub fn run_map_any<V, T>(op: &MapOp, v: &V) -> Option<Outcome<Drained>>
where
    V: Vec1View<T>,
    T: Elem + IsNone + PartialEq + Cast<f64>,
    T::Inner: Number,
    f64: Cast<T>,
{
    if !op_encodable::<T>(op) {
        return None;
    }
    let d = |x: &T| x.dec();
    let op = op.clone();
    Some(catch(move || match op {
        MapOp::Shift(n, f) => drain(v.titer().shift(n, ev::<T>(f)), d),
        MapOp::VShift(n, f) => drain(v.titer().vshift(n, evo::<T>(f)), d),
        MapOp::Ffill(f) => drain(v.titer().ffill(evo::<T>(f)), d),
        MapOp::Bfill(f) => drain(v.titer().bfill(evo::<T>(f)), d),
        MapOp::Fill(f) => drain(v.titer().fill(ev::<T>(f)), d),
        MapOp::FfillMask0(f) => drain(v.titer().ffill_mask(|x: &T| x.dec() == Cell::F(0.0) || x.dec() == Cell::I(0), evo::<T>(f)), d),
        MapOp::BfillMask0(f) => drain(v.titer().bfill_mask(|x: &T| x.dec() == Cell::F(0.0) || x.dec() == Cell::I(0), evo::<T>(f)), d),
        MapOp::FillMask0(f) => drain(v.titer().fill_mask(|x: &T| x.dec() == Cell::F(0.0) || x.dec() == Cell::I(0), ev::<T>(f)), d),
        MapOp::VClip(lo, hi) => drain(v.titer().vclip(ev::<T>(lo), ev::<T>(hi)), d),
        MapOp::VAbs => drain(v.titer().vabs(), d),
        MapOp::VPct(n) => drain(v.vpct_change(n), |x: &f64| Cell::f(*x)),
        MapOp::VRank(pct, rev) => {
            let r: Vec<f64> = v.vrank::<Vec<f64>, f64>(pct, rev);
            let n = r.len();
            Drained { cells: r.iter().map(|x| Cell::f(*x)).collect(), hint: (n, Some(n)), capped: false }
        }
        MapOp::VPartition(k, sort, rev) => drain(v.vpartition(k, sort, rev), d),
        MapOp::VArgPartition(k, sort, rev) => drain(v.varg_partition(k, sort, rev), |x: &i32| Cell::I(*x as i64)),
        MapOp::VDiff(..) | MapOp::Abs => panic!("numeric-only operation"),
    }))
}

/// Operations that need arithmetic on the element itself (plain numeric element types).
pub fn run_map_num<V, T>(op: &MapOp, v: &V) -> Option<Outcome<Drained>>
where
    V: Vec1View<T>,
    T: Elem + Number + PartialEq,
    f64: Cast<T>,
    T: IsNone<Inner = T>,
{
    if !op_encodable::<T>(op) {
        return None;
    }
    let d = |x: &T| x.dec();
    match op.clone() {
        MapOp::VDiff(n, f) => Some(catch(move || drain(v.vdiff(n, evo::<T>(f)), d))),
        MapOp::Abs => Some(catch(move || drain(v.titer().abs(), d))),
        _ => run_map_any::<V, T>(op, v),
    }
}
