#!/bin/bash
# run_all.sh quick|thorough : every check of the tier, summary lines kept in target/{q,th}_Cxx.txt (input of gen_costs.py)
tier=${1:-quick}; pre=q; [ "$tier" = thorough ] && pre=th
cd /verif && mkdir -p target
rc=0
for i in $(seq -w 1 20); do
  c=C$i
  ./check $c $tier > target/${pre}_$c.txt 2>&1; r=$?
  echo "$c rc=$r $(grep -c '^VIOLATION' target/${pre}_$c.txt) violations; $(grep " $tier:" target/${pre}_$c.txt | cut -c1-160)"
  [ $r -ne 0 ] && rc=1
done
exit $rc
