//! mc-ref: reference models (oracles). Written for obviousness, not speed. No dependency on tevec:
//! `use tevec::prelude::*` shadows Iterator::sum/all/count/max with the code under test.
pub mod agg;
pub mod map;
pub mod order;
pub mod roll;
pub mod stats;
pub mod time;

pub type X = Option<f64>;
