#!/usr/bin/env python3
"""Fills the cost table of DESIGN.md section 10 (between the COSTS markers) from the summary lines of the
last quick / thorough runs kept in target/q_Cxx.txt and target/th_Cxx.txt (written by run_all.sh)."""
import re, os
rows = []
def summ(path, tier):
    if not os.path.exists(path): return None
    for l in open(path):
        m = re.match(rf"C\d\d {tier}: states=(\d+) transitions=(\d+) traces=(\d+) evaluations=(\d+) distinct_nontrivial=(\d+) distinct_outcomes=(\d+) wall=([\d.]+)s violations=(\d+)", l)
        if m: return dict(zip("states transitions traces evaluations nontrivial outcomes wall violations".split(), m.groups()))
    return None
def fmt(n):
    n = int(n)
    return f"{n:,}".replace(",", " ")
for i in range(1, 21):
    c = f"C{i:02d}"
    q, t = summ(f"/verif/target/q_{c}.txt", "quick"), summ(f"/verif/target/th_{c}.txt", "thorough")
    rows.append(f"| {c} | {q['wall'] if q else '?'} s | {fmt(q['states']) if q else '?'} | {fmt(q['evaluations']) if q else '?'} | {t['wall'] if t else '?'} s | {fmt(t['states']) if t else '?'} | {fmt(t['evaluations']) if t else '?'} |")
head = ["| check | quick wall | quick states | quick evaluations | thorough wall | thorough states | thorough evaluations |", "|---|---:|---:|---:|---:|---:|---:|"]
s = open("/verif/DESIGN.md").read()
a, b = s.index("<!-- COSTS:BEGIN -->"), s.index("<!-- COSTS:END -->")
s = s[:a] + "<!-- COSTS:BEGIN -->\n" + "\n".join(head + rows) + "\n" + s[b:]
open("/verif/DESIGN.md", "w").write(s)
print("cost table written")
