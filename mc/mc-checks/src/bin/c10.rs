//! C10 — kernels never index out of bounds and initialise every output slot exactly once.
//! Monitor-style check: the real kernels run on instrumented containers (DESIGN 3.5) that record every
//! unchecked access and every write; any recorded fault is a violation.
use mc_adapt::probe::*;
use mc_adapt::roll::*;
use mc_checks::*;

mod imp {
    use mc_adapt::maps::drain;
    use mc_adapt::probe::*;
    use mc_adapt::roll::*;
    use mc_checks::*;
    use ndarray::Array1;
    use tevec::agg::QuantileMethod;
    use tevec::prelude::*;

    #[derive(Clone, Copy, Debug, PartialEq)]
    pub enum In {
        Probe,
        Vec,
        Array,
    }

    /// single-series entry point on an instrumented (or real) input into an instrumented output
    pub fn roll1(f: R1, x: &[X], w: usize, mp: Option<usize>, path: Path, input: In) -> Outcome<Vec<Cell>> {
        let data: Vec<f64> = enc_vec(x);
        catch(|| match (input, f) {
            (In::Probe, R1::Fdiff(d)) => call_vfdiff::<ProbeVec<f64>, f64, ProbeOut<f64>, f64>(d, &ProbeVec::new(data, "input"), w, mp, path).cells(),
            (In::Probe, _) => call_v1::<ProbeVec<f64>, f64, ProbeOut<f64>, f64>(f, &ProbeVec::new(data, "input"), w, mp, path).cells(),
            (In::Vec, R1::Fdiff(d)) => call_vfdiff::<Vec<f64>, f64, ProbeOut<f64>, f64>(d, &data, w, mp, path).cells(),
            (In::Vec, _) => call_v1::<Vec<f64>, f64, ProbeOut<f64>, f64>(f, &data, w, mp, path).cells(),
            (In::Array, R1::Fdiff(d)) => call_vfdiff::<Array1<f64>, f64, ProbeOut<f64>, f64>(d, &Array1::from_vec(data), w, mp, path).cells(),
            (In::Array, _) => call_v1::<Array1<f64>, f64, ProbeOut<f64>, f64>(f, &Array1::from_vec(data), w, mp, path).cells(),
        })
    }
    pub fn roll1_plain(f: R1, x: &[X], w: usize, mp: Option<usize>, path: Path, input: In) -> Outcome<Vec<Cell>> {
        let data: Vec<f64> = enc_vec(x);
        catch(|| match (input, f) {
            (In::Probe, R1::Fdiff(d)) => call_fdiff::<ProbeVec<f64>, f64, ProbeOut<f64>, f64>(d, &ProbeVec::new(data, "input"), w, path).cells(),
            (In::Probe, _) => call_p1::<ProbeVec<f64>, f64, ProbeOut<f64>, f64>(f, &ProbeVec::new(data, "input"), w, mp, path).cells(),
            (In::Vec, R1::Fdiff(d)) => call_fdiff::<Vec<f64>, f64, ProbeOut<f64>, f64>(d, &data, w, path).cells(),
            (In::Vec, _) => call_p1::<Vec<f64>, f64, ProbeOut<f64>, f64>(f, &data, w, mp, path).cells(),
            (In::Array, R1::Fdiff(d)) => call_fdiff::<Array1<f64>, f64, ProbeOut<f64>, f64>(d, &Array1::from_vec(data), w, path).cells(),
            (In::Array, _) => call_p1::<Array1<f64>, f64, ProbeOut<f64>, f64>(f, &Array1::from_vec(data), w, mp, path).cells(),
        })
    }
    /// two-series entry point; the second series is always instrumented
    pub fn roll2(f: R2, a: &[X], b: &[X], w: usize, mp: Option<usize>, path: Path, input: In) -> Outcome<Vec<Cell>> {
        let da: Vec<f64> = enc_vec(a);
        let pb = ProbeVec::new(enc_vec::<f64>(b), "second series");
        catch(|| match (input, f) {
            (In::Probe, R2::All(_)) => call_v2_all::<ProbeVec<f64>, f64, ProbeVec<f64>, f64, ProbeOut<(f64, f64, f64)>, f64>(&ProbeVec::new(da, "input"), &pb, w, mp).cells(),
            (In::Probe, _) => call_v2::<ProbeVec<f64>, f64, ProbeVec<f64>, f64, ProbeOut<f64>, f64>(f, &ProbeVec::new(da, "input"), &pb, w, mp, path).cells(),
            (In::Vec, R2::All(_)) => call_v2_all::<Vec<f64>, f64, ProbeVec<f64>, f64, ProbeOut<(f64, f64, f64)>, f64>(&da, &pb, w, mp).cells(),
            (In::Vec, _) => call_v2::<Vec<f64>, f64, ProbeVec<f64>, f64, ProbeOut<f64>, f64>(f, &da, &pb, w, mp, path).cells(),
            (In::Array, R2::All(_)) => call_v2_all::<Array1<f64>, f64, ProbeVec<f64>, f64, ProbeOut<(f64, f64, f64)>, f64>(&Array1::from_vec(da), &pb, w, mp).cells(),
            (In::Array, _) => call_v2::<Array1<f64>, f64, ProbeVec<f64>, f64, ProbeOut<f64>, f64>(f, &Array1::from_vec(da), &pb, w, mp, path).cells(),
        })
    }
    /// rank / partition / quantile kernels on an instrumented input
    pub fn kernel(name: &str, x: &[X], k: usize, flag_a: bool, flag_b: bool) -> Outcome<Vec<Cell>> {
        let pv = ProbeVec::new(enc_vec::<f64>(x), "input");
        let name = name.to_string();
        catch(move || match name.as_str() {
            "vrank" => pv.vrank::<ProbeOut<f64>, f64>(flag_a, flag_b).cells(),
            "vpartition" => drain(pv.vpartition(k, flag_a, flag_b), |v: &f64| Cell::f(*v)).cells,
            "varg_partition" => drain(pv.varg_partition(k, flag_a, flag_b), |v: &i32| Cell::I(*v as i64)).cells,
            // the same iterators through a trusted collector into the instrumented container: an iterator that
            // yields more than it announces makes the collector write behind the buffer it allocated (round 11)
            "vpartition.collect_trusted" => pv.vpartition(k, flag_a, flag_b).collect_trusted_vec1::<ProbeOut<f64>>().cells(),
            "varg_partition.collect_trusted" => pv.varg_partition(k, flag_a, flag_b).collect_trusted_vec1::<ProbeOut<i32>>().titer().map(|v| Cell::I(v as i64)).collect(),
            "vquantile" => {
                let q = k as f64 / 4.0;
                let m = match (flag_a, flag_b) {
                    (false, false) => QuantileMethod::Linear,
                    (false, true) => QuantileMethod::Lower,
                    (true, false) => QuantileMethod::Higher,
                    (true, true) => QuantileMethod::MidPoint,
                };
                vec![Cell::f(pv.vquantile(q.min(1.0), m).unwrap_or(f64::NAN))]
            }
            "vcorr_spearman" => vec![Cell::f(pv.vcorr(&pv, None, tevec::agg::CorrMethod::Spearman))],
            "half_life" => vec![Cell::I(pv.half_life(Some(1)) as i64)],
            _ => panic!("unknown kernel"),
        })
    }

    // ---- a one-element result broadcast into a longer caller buffer (the documented rule of write_trust_iter) ----
    pub const BROADCAST_ENTRIES: [&str; 5] = ["VecDeque.rolling_custom", "opt().rolling_custom", "Vec.rolling2_custom", "once.write", "VecDeque.rolling_custom_iter.write"];
    /// entry `e` with a series of one element into an instrumented buffer of `bl` slots
    pub fn broadcast_write(e: usize, bl: usize) -> Outcome<Vec<Cell>> {
        use std::collections::VecDeque;
        let one: Vec<f64> = vec![4.0];
        let dq: VecDeque<f64> = one.iter().cloned().collect();
        catch(|| {
            let mut buf = <ProbeOut<f64> as Vec1<f64>>::uninit(bl);
            {
                let mut out = <ProbeOut<f64> as Vec1<f64>>::uninit_ref_mut(&mut buf);
                match e {
                    0 => assert!(dq.rolling_custom::<ProbeOut<f64>, f64, _>(1, |s: std::collections::vec_deque::Iter<'_, f64>| Iterator::sum::<f64>(s), Some(out)).is_none()),
                    1 => assert!(one.opt().rolling_custom::<ProbeOut<f64>, f64, _>(1, |s: Vec<Option<f64>>| Iterator::sum::<f64>(s.into_iter().flatten()), Some(out)).is_none()),
                    2 => assert!(one.rolling2_custom::<ProbeOut<f64>, f64, Vec<f64>, f64, _>(&one, 1, |a: &[f64], b: &[f64]| a[0] + b[0] - 4.0, Some(out)).is_none()),
                    3 => std::iter::once(4.0f64).write(&mut out).unwrap(),
                    _ => dq.rolling_custom_iter(1, |s: std::collections::vec_deque::Iter<'_, f64>| Iterator::sum::<f64>(s)).write(&mut out).unwrap(),
                }
            }
            buf.finish().cells()
        })
    }

    // ---- caller buffers in non-canonical physical layouts (DESIGN 5.14) ----
    use mc_adapt::outbuf::{set_fill_override, take_last_base, OutBuf};
    use std::collections::VecDeque;

    /// a NaN no kernel produces: the pre-fill of every cell of the backing storage
    pub const SENTINEL_BITS: u64 = 0x7ff8_dead_beef_0001;
    pub const LAYOUTS: [(&str, u8, u8); 5] = [
        ("Array1 view, step 2", 0, 1),
        ("Array1 reversed view", 0, 2),
        ("Array1 view, step 3, offset 1", 0, 3),
        ("VecDeque wrapped ring, head 3", 1, 1),
        ("VecDeque wrapped ring, head len-1", 1, 2),
    ];
    pub const LAYOUT_ENTRIES: [&str; 8] = ["rolling_custom", "opt().rolling_custom", "rolling2_custom", "rolling_apply", "rolling_apply_idx", "rolling_custom_to", "vshift().write", "opt-iter.write"];

    /// run `f` (which must go through `OutBuf::alt_run`) in audit mode; faults = slots of the caller's
    /// view that were never written, cells of the backing storage outside the view that were written
    pub fn audited<F: FnOnce() -> Vec<Cell>>(f: F) -> (Outcome<Vec<Cell>>, Vec<String>) {
        set_fill_override(Some(f64::from_bits(SENTINEL_BITS)));
        let out = catch(f);
        let dump = take_last_base::<f64>();
        set_fill_override::<f64>(None);
        let mut faults = vec![];
        if let (Outcome::Ok(_), Some(d)) = (&out, dump) {
            for (i, c) in d.cells.iter().enumerate() {
                let untouched = c.to_bits() == SENTINEL_BITS;
                match d.lane.iter().position(|l| *l == i) {
                    Some(slot) if untouched => faults.push(format!("slot {slot} of the caller's buffer was never written")),
                    None if !untouched => faults.push(format!("cell {i} of the backing storage, outside the caller's view, was overwritten with {c}")),
                    _ => {}
                }
            }
        }
        (out, faults)
    }

    fn cells_of(v: Vec<f64>) -> Vec<Cell> {
        v.into_iter().map(Cell::f).collect()
    }
    fn fsum(it: impl Iterator<Item = Option<f64>>) -> f64 {
        let mut s = 0.25;
        for v in it {
            s += v.map_or(100.0, |a| a + 1.0);
        }
        s
    }

    /// built-in rolling entry point into an alternative caller buffer
    pub fn roll1_layout(f: R1, x: &[X], w: usize, mp: Option<usize>, container: u8, kind: u8) -> Vec<Cell> {
        let data: Vec<f64> = enc_vec(x);
        match (container, f) {
            (0, R1::Fdiff(d)) => call_vfdiff::<Vec<f64>, f64, Array1<f64>, f64>(d, &data, w, mp, Path::BufAlt(kind)).cells(),
            (0, _) => call_v1::<Vec<f64>, f64, Array1<f64>, f64>(f, &data, w, mp, Path::BufAlt(kind)).cells(),
            (_, R1::Fdiff(d)) => call_vfdiff::<Vec<f64>, f64, VecDeque<f64>, f64>(d, &data, w, mp, Path::BufAlt(kind)).cells(),
            (_, _) => call_v1::<Vec<f64>, f64, VecDeque<f64>, f64>(f, &data, w, mp, Path::BufAlt(kind)).cells(),
        }
    }
    pub fn roll2_layout(f: R2, a: &[X], b: &[X], w: usize, mp: Option<usize>, container: u8, kind: u8) -> Vec<Cell> {
        let (da, db): (Vec<f64>, Vec<f64>) = (enc_vec(a), enc_vec(b));
        if container == 0 {
            call_v2::<Vec<f64>, f64, Vec<f64>, f64, Array1<f64>, f64>(f, &da, &db, w, mp, Path::BufAlt(kind)).cells()
        } else {
            call_v2::<Vec<f64>, f64, Vec<f64>, f64, VecDeque<f64>, f64>(f, &da, &db, w, mp, Path::BufAlt(kind)).cells()
        }
    }

    fn driver_into<O>(entry: usize, x: &[X], w: usize, kind: u8) -> Vec<Cell>
    where
        O: Vec1<f64> + OutBuf<f64>,
    {
        let data: Vec<f64> = enc_vec(x);
        let other: Vec<f64> = data.iter().map(|v| if v.is_nan() { 1.0 } else { v * 2.0 + 1.0 }).collect();
        let len = data.len();
        let fill = || 0.0f64;
        let vals = match entry {
            0 => O::alt_run(len, kind, &fill, |out| {
                let r: Option<O> = data.rolling_custom(w, |s: &[f64]| fsum(s.iter().map(|v| v.to_opt())), Some(out));
                assert!(r.is_none());
            }),
            1 => O::alt_run(len, kind, &fill, |out| {
                let r: Option<O> = data.opt().rolling_custom(w, |s: Vec<Option<f64>>| fsum(s.into_iter()), Some(out));
                assert!(r.is_none());
            }),
            2 => O::alt_run(len, kind, &fill, |out| {
                let r: Option<O> = data.rolling2_custom(&other, w, |a: &[f64], b: &[f64]| fsum(a.iter().chain(b.iter()).map(|v| v.to_opt())), Some(out));
                assert!(r.is_none());
            }),
            3 => O::alt_run(len, kind, &fill, |out| {
                let r: Option<O> = data.rolling_apply(w, |rm: Option<f64>, add: f64| fsum([rm, add.to_opt()].into_iter()), Some(out));
                assert!(r.is_none());
            }),
            4 => O::alt_run(len, kind, &fill, |out| {
                let r: Option<O> = data.rolling_apply_idx(w, |start: Option<usize>, end: usize, v: f64| fsum([start.map(|s| s as f64), Some(end as f64), v.to_opt()].into_iter()), Some(out));
                assert!(r.is_none());
            }),
            5 => O::alt_run(len, kind, &fill, |out| {
                data.rolling_custom_to::<O, f64, _>(w, |s: &[f64]| fsum(s.iter().map(|v| v.to_opt())), out);
            }),
            6 => O::alt_run(len, kind, &fill, |mut out| {
                data.titer().vshift(w as i32, Some(7.5)).write(&mut out).unwrap();
            }),
            _ => O::alt_run(len, kind, &fill, |mut out| {
                data.opt_iter_cast::<f64>().map(|v| v.map_or(-1.0, |a| a + w as f64)).write(&mut out).unwrap();
            }),
        };
        cells_of(vals)
    }
    /// user-function drivers and iterator writes into an alternative caller buffer
    pub fn driver_layout(entry: usize, x: &[X], w: usize, container: u8, kind: u8) -> Vec<Cell> {
        if container == 0 {
            driver_into::<Array1<f64>>(entry, x, w, kind)
        } else {
            driver_into::<VecDeque<f64>>(entry, x, w, kind)
        }
    }
}
use imp::*;

fn valid_fns() -> Vec<R1> {
    let mut v = V1_FEATURE.to_vec();
    v.extend(V1_CMP);
    v.extend(V1_NORM);
    v.extend(V1_REG);
    v.push(R1::Fdiff(0.5));
    v
}
fn plain_fns() -> Vec<R1> {
    let mut v = V1_FEATURE.to_vec();
    v.push(R1::Fdiff(0.5));
    v
}
fn all2() -> Vec<R2> {
    let mut v = V2_ALL.to_vec();
    v.push(R2::All(0));
    v
}

fn record(ctx: &mut Ctx, fam: &str, entry: &str, case: Value, size: usize, degenerate: bool, out: Outcome<Vec<Cell>>, w: usize) {
    let mut log = probe_take();
    ctx.eval(fam, mix(outcome_hash(&out), hash_bytes(format!("{:?}", log.faults).as_bytes())));
    ctx.transitions += log.ugets + log.usets + log.uslices;
    // a call that was handed a buffer must deliver through it: returning a container instead leaves every slot
    // of the caller's buffer unwritten while the caller goes on to treat it as initialised
    if matches!(&out, Outcome::Panic(m) if m.contains("out-buffer form returned a container")) {
        log.faults.push("the out-buffer form returned a container: no slot of the caller's buffer was written before it is exposed as initialised".into());
    }
    if !log.faults.is_empty() {
        let all = log.faults.join("; ");
        // F14: the *_to bodies return early for window 0 without writing, and the buffer is exposed as initialised
        let finding = if w == 0 && all.contains("exposed as initialised") && !all.contains("uget") && !all.contains("uslice") {
            Some("F14".to_string())
        } else if all.contains("second series: uget") && !all.contains("input:") && !all.contains("exposed as initialised") {
            // F15: the shared rolling2 bodies read other.uget(i) for i >= other.len()
            Some("F15".to_string())
        } else {
            None
        };
        let entry = match finding.as_deref() {
            Some("F14") => "window 0 through a *_to body",
            Some("F15") => "rolling2 body with a shorter second series",
            _ => entry,
        };
        ctx.violation(Violation {
            entry: entry.to_string(),
            finding,
            size,
            case,
            expected: "no out-of-bounds unchecked access; every output slot written exactly once before the buffer is exposed".into(),
            got: format!("{}; outcome {}", truncate(&all, 300), truncate(&show_outcome(&out), 120)),
        });
    } else {
        ctx.traces += 1;
        let _ = degenerate;
    }
}

fn check_word(word: &[u8], alpha: &[X], ctx: &mut Ctx) {
    let x = decode(word, alpha);
    check_series("kernels", word, x, ctx)
}

/// long structured series on the instrumented containers (DESIGN 5.14): windows and k around the sizes
/// where a narrow index type or a size-dependent path would change the accesses
fn kernels_long(thorough: bool, threads: usize) -> Ctx {
    let lens: Vec<usize> = if thorough { vec![40, 270] } else { vec![40] };
    let mut items: Vec<(String, Vec<X>)> = vec![];
    for len in lens {
        // a third of the shapes: the access pattern depends on nulls and ties, not on the values
        items.extend(rollcheck::structured_shapes(len, true).into_iter().enumerate().filter(|(i, _)| i % 3 == 0).map(|(_, s)| s));
        items.push((format!("ramp/{len}"), (0..len).map(|i| Some(i as f64)).collect()));
        items.push((format!("ramp-down/{len}"), (0..len).map(|i| Some((len - i) as f64)).collect()));
    }
    par_items(&items, threads, |(_l, x), ctx| {
        ctx.states += 1;
        check_series("kernels-long", &[], x.clone(), ctx)
    })
}

fn check_series(fam: &str, word: &[u8], x: Vec<X>, ctx: &mut Ctx) {
    let len = x.len();
    ctx.fam(fam).states += 1;
    ctx.nontrivial(fam, mix(hash_bytes(word), hash_u64s(&x.iter().map(|v| v.map_or(7, |a| a.to_bits())).collect::<Vec<_>>())));
    let null_free = x.iter().all(|v| v.is_some());
    let long = len > 16;
    let mut ws: Vec<usize> = if long {
        let mut v = vec![0usize, 1, 2, 16, 17, 255, 256, 257, len - 1, len, len + 1, len + 3];
        v.retain(|w| *w <= len + 3);
        v.sort();
        v.dedup();
        v
    } else {
        (0..=len + 3).collect()
    };
    // "expanding window" requests: sizes that do not survive a cast to a signed or narrower integer
    if long || len == 3 {
        ws.extend([usize::MAX, usize::MAX - 1, 1usize << 63, (1usize << 63) - 1]);
    }
    let ks: Vec<usize> = if long {
        let mut v = vec![0usize, 1, 15, 16, 17, len / 2, len - 1, len, len + 2];
        v.sort();
        v.dedup();
        v
    } else {
        (0..=len + 2).collect()
    };
    for w in ws {
        let mut mps: Vec<Option<usize>> = vec![None];
        if long || w > len + 3 {
            mps.extend([Some(0), Some(1), Some(w)]);
            mps.dedup();
        } else {
            mps.extend((0..=w).map(Some));
        }
        for mp in mps {
            for input in [In::Probe, In::Vec, In::Array] {
                for path in [Path::Ret, Path::Buf] {
                    for &f in &valid_fns() {
                        probe_reset();
                        let out = roll1(f, &x, w, mp, path, input);
                        let entry = r1_name(f, true);
                        record(ctx, fam, &entry, json!({"family": fam, "word": word, "series": json_word(&x), "entry": entry, "w": w, "mp": mp_json(mp), "input": format!("{input:?}"), "path": format!("{path:?}")}), (len * 100).saturating_add(w), w == 0 || len == 0, out, w);
                    }
                    if null_free && mp.map_or(true, |m| m == 0 || m == w) {
                        for &f in &plain_fns() {
                            probe_reset();
                            let out = roll1_plain(f, &x, w, mp, path, input);
                            let entry = r1_name(f, false);
                            record(ctx, fam, &entry, json!({"family": fam, "word": word, "series": json_word(&x), "entry": entry, "w": w, "mp": mp_json(mp), "input": format!("{input:?}"), "path": format!("{path:?}")}), (len * 100).saturating_add(w), w == 0 || len == 0, out, w);
                        }
                    }
                }
            }
        }
        // two-series kernels: second series of length len-1 ..= len+3 (a reduced min_periods set)
        for mp in [None, Some(0), Some(w)] {
            for dl in [-1i32, 0, 1, 2, 3] {
                if len as i32 + dl < 0 {
                    continue;
                }
                let blen = (len as i32 + dl) as usize;
                let b: Vec<X> = (0..blen).map(|i| x.get(i).cloned().flatten().map(|v| v + 1.0).or(Some(1.0))).collect();
                for input in [In::Probe, In::Vec, In::Array] {
                    for path in [Path::Ret, Path::Buf] {
                        for &f in &all2() {
                            if matches!(f, R2::All(_)) && path == Path::Buf {
                                continue;
                            }
                            probe_reset();
                            let out = roll2(f, &x, &b, w, mp, path, input);
                            let entry = r2_name(f);
                            record(ctx, fam, &entry, json!({"family": fam, "word": word, "series": json_word(&x), "second_len": blen, "entry": entry, "w": w, "mp": mp_json(mp), "input": format!("{input:?}"), "path": format!("{path:?}")}), (len * 100).saturating_add(w), w == 0 || dl != 0, out, w);
                        }
                    }
                }
            }
        }
    }
    for k in ks {
        for (name, flags) in [("vpartition", 4), ("varg_partition", 4), ("vpartition.collect_trusted", 4), ("varg_partition.collect_trusted", 4), ("vquantile", 4)] {
            if name == "vquantile" && k > 4 {
                continue;
            }
            for fl in 0..flags {
                probe_reset();
                let out = kernel(name, &x, k, fl & 1 == 1, fl & 2 == 2);
                record(ctx, fam, name, json!({"family": fam, "word": word, "series": json_word(&x), "entry": name, "k": k, "flags": fl}), len * 100 + k, false, out, 1);
            }
        }
    }
    for fl in 0..4 {
        probe_reset();
        let out = kernel("vrank", &x, 0, fl & 1 == 1, fl & 2 == 2);
        record(ctx, fam, "vrank", json!({"family": fam, "word": word, "series": json_word(&x), "entry": "vrank", "flags": fl}), len * 100, false, out, 1);
    }
    for name in ["vcorr_spearman", "half_life"] {
        probe_reset();
        let out = kernel(name, &x, 0, false, false);
        // half_life's bracket inversion (F28) is a clean overflow panic, judged by C20
        record(ctx, fam, name, json!({"family": fam, "word": word, "series": json_word(&x), "entry": name}), len * 100, false, out, 1);
    }
}

/// caller buffers in non-canonical physical layouts: every slot of the caller's view written, no cell of the
/// backing storage outside the view touched
fn check_layouts(fam: &str, word: &[u8], x: &[X], ctx: &mut Ctx) {
    let len = x.len();
    ctx.fam(fam).states += 1;
    ctx.nontrivial(fam, mix(hash_bytes(word), hash_u64s(&x.iter().map(|v| v.map_or(7, |a| a.to_bits())).collect::<Vec<_>>())));
    let mut ws: Vec<usize> = if len > 8 { vec![1, 3, 17, len + 1] } else { vec![1, 2, len + 1] };
    if len <= 3 {
        // "unbounded" windows (sizes that do not survive a signed or narrower conversion)
        ws.extend([usize::MAX, 1usize << 63]);
    }
    let second: Vec<X> = x.iter().map(|v| v.map(|a| a + 1.0).or(Some(1.0))).collect();
    for (lname, container, kind) in LAYOUTS {
        for &w in &ws {
            let judge = |ctx: &mut Ctx, entry: String, mp: Option<usize>, res: (Outcome<Vec<Cell>>, Vec<String>)| {
                let (out, mut faults) = res;
                if matches!(&out, Outcome::Panic(m) if m.contains("out-buffer form returned a container")) {
                    faults.push("the out-buffer form returned a container: no slot of the caller's buffer was written".into());
                }
                ctx.eval(fam, mix(outcome_hash(&out), hash_bytes(format!("{faults:?}").as_bytes())));
                ctx.transitions += len as u64;
                if faults.is_empty() {
                    ctx.traces += 1;
                } else {
                    ctx.violation(Violation {
                        entry: entry.clone(),
                        finding: None,
                        size: len * 100 + w,
                        case: json!({"family": fam, "word": word, "series": json_word(x), "entry": entry, "w": w, "mp": mp_json(mp), "layout": lname}),
                        expected: "every slot of the caller's view written, no cell outside the view touched".into(),
                        got: format!("{}; outcome {}", truncate(&faults.join("; "), 300), truncate(&show_outcome(&out), 120)),
                    });
                }
            };
            for mp in [None, Some(1)] {
                for &f in &valid_fns() {
                    judge(ctx, r1_name(f, true), mp, audited(|| roll1_layout(f, x, w, mp, container, kind)));
                }
                for &f in &V2_ALL {
                    judge(ctx, r2_name(f), mp, audited(|| roll2_layout(f, x, &second, w, mp, container, kind)));
                }
            }
            for (e, ename) in LAYOUT_ENTRIES.iter().enumerate() {
                judge(ctx, ename.to_string(), None, audited(|| driver_layout(e, x, w, container, kind)));
            }
        }
    }
}

/// the broadcast rule of buffer writes: every slot of a buffer longer than a one-element result is written
/// exactly once, with that element
fn check_broadcast(ctx: &mut Ctx) {
    let fam = "broadcast-write";
    for (e, ename) in BROADCAST_ENTRIES.iter().enumerate() {
        for bl in 1..=5usize {
            ctx.states += 1;
            ctx.fam(fam).states += 1;
            ctx.nontrivial(fam, (e * 10 + bl) as u64);
            probe_reset();
            let out = broadcast_write(e, bl);
            let log = probe_take();
            ctx.eval(fam, mix(outcome_hash(&out), hash_bytes(format!("{:?}", log.faults).as_bytes())));
            ctx.transitions += log.usets;
            let want: Vec<Cell> = vec![Cell::F(4.0); bl];
            let ok = log.faults.is_empty() && matches!(&out, Outcome::Ok(c) if cells_eq(c, &want, exact_eq));
            if ok {
                ctx.traces += 1;
            } else {
                ctx.violation(Violation {
                    entry: format!("{ename} (one element into a longer buffer)"),
                    finding: None,
                    size: bl,
                    case: json!({"family": fam, "entry": ename, "buffer_len": bl}),
                    expected: format!("every slot written exactly once: {}", show_cells(&want)),
                    got: format!("{}; outcome {}", truncate(&log.faults.join("; "), 300), truncate(&show_outcome(&out), 120)),
                });
            }
        }
    }
}

struct LayoutFam {
    alpha: Vec<X>,
    max_len: usize,
}
impl TreeSys for LayoutFam {
    type Memo = ();
    fn k(&self) -> usize {
        self.alpha.len()
    }
    fn max_len(&self) -> usize {
        self.max_len
    }
    fn name(&self) -> String {
        "caller-layouts".into()
    }
    fn visit(&self, w: &[u8], _p: Option<&()>, ctx: &mut Ctx) {
        check_layouts("caller-layouts", w, &decode(w, &self.alpha), ctx)
    }
}

struct Fam {
    alpha: Vec<X>,
    max_len: usize,
}
impl TreeSys for Fam {
    type Memo = ();
    fn k(&self) -> usize {
        self.alpha.len()
    }
    fn max_len(&self) -> usize {
        self.max_len
    }
    fn name(&self) -> String {
        "kernels".into()
    }
    fn visit(&self, w: &[u8], _p: Option<&()>, ctx: &mut Ctx) {
        check_word(w, &self.alpha, ctx)
    }
}

fn main() {
    let run = Run::from_args("C10");
    let fam = Fam { alpha: vec![None, Some(0.0), Some(1.0), Some(2.0)], max_len: run.pick(4, 7) };
    if let Some(path) = &run.replay {
        let stored = load_replay(path).unwrap_or_else(|e| {
            eprintln!("MACHINERY-ERROR: {e}");
            std::process::exit(2)
        });
        let mut ctx = Ctx::new();
        if stored["case"]["family"] == "broadcast-write" {
            check_broadcast(&mut ctx);
        } else if stored["case"]["family"] == "caller-layouts" {
            check_layouts("caller-layouts", &[], &word_from_json(&stored["case"]["series"]), &mut ctx);
        } else if stored["case"]["family"] == "kernels-long" {
            check_series("kernels-long", &[], word_from_json(&stored["case"]["series"]), &mut ctx);
        } else {
            check_word(&syms_from_json(&stored["case"]["word"]), &fam.alpha, &mut ctx);
        }
        std::process::exit(finish_replay(&run, &stored, ctx));
    }
    let mut total = explore_tree(&fam, run.threads);
    total.merge(kernels_long(!run.quick(), run.threads));
    check_broadcast(&mut total);
    let lf = LayoutFam { alpha: vec![None, Some(0.0), Some(1.0)], max_len: run.pick(4, 6) };
    total.merge(explore_tree(&lf, run.threads));
    {
        let lens: Vec<usize> = if run.quick() { vec![24] } else { vec![24, 40] };
        let mut items: Vec<(String, Vec<X>)> = vec![];
        for len in lens {
            items.extend(rollcheck::structured_shapes(len, true).into_iter().enumerate().filter(|(i, _)| i % 6 == 0).map(|(_, s)| s));
        }
        total.merge(par_items(&items, run.threads, |(_l, x), ctx| check_layouts("caller-layouts", &[], x, ctx)));
    }
    let meta = Meta {
        rule: "history tree of every word over {null,0,1,2}; at each word every rolling entry point (null-aware, plain, two-series), vrank, vpartition, varg_partition, vquantile, Spearman vcorr and half_life run (a) on an instrumented input container recording every uget / uslice and (b) on real Vec / Array1 inputs (fast paths), always into an instrumented output container recording every uset, via the returned and the caller-buffer path; windows 0..=len+3, every min_periods, k in 0..=len+2, second series of length len-1 ..= len+3. The same on long structured series (40 / 270 elements, windows 0, 1, 2, 16, 17, 255..257, len-1..len+3, k around 16 and len). Oracle (monitor): no recorded fault - no index >= len, no slice outside 0<=start<=end<=len, no write outside the buffer, every slot written exactly once at assume_init. Transitions = instrumented accesses observed. Non-trivial = distinct words. Configuration families (DESIGN 5.15, 5.16): caller-layouts - every null-aware entry point, the two-series kernels, the user-function drivers and iterator writes into strided / reversed ndarray views and wrapped rings, with an audit of the whole backing storage (every slot of the view written, no cell outside it touched), windows 1, 2, len+1 and usize::MAX, 2^63; second series of length len-1 ..= len+3. Round 8 (DESIGN 5.17): a call that was handed a buffer but returns a container instead (harness assertion) is a fault: no slot of the caller's buffer was written. Round 9 (DESIGN 5.18): broadcast-write - a one-element series written into audited buffers of 2..4 slots in every layout through rolling_custom / rolling2_custom / the fdiff _to forms: every slot holds the one value, no foreign cell is touched. Round 11 (DESIGN 5.20): vpartition / varg_partition through a trusted collector into the instrumented container (an iterator that yields more than it announces writes behind the buffer the collector allocated).".into(),
        bounds: json!({"alphabet": json_word(&fam.alpha), "L": fam.max_len, "window": "0..=len+3", "k": "0..=len+2", "second_series_len": ["len-1", "len", "len+1", "len+2", "len+3"], "inputs": ["ProbeVec", "Vec", "Array1"], "paths": ["Ret", "Buf"]}),
        assumptions: vec![
            "panics are not judged here unless a fault was recorded first (clean panics on degenerate parameters are allowed by the property; other panics belong to C05/C20)".into(),
            "accesses a back end makes to its own storage through its own uget are outside the monitor (std debug assertions are the tripwire)".into(),
        ],
        exhaustive: true,
        min_states: 300,
    };
    std::process::exit(finish(&run, meta, total));
}
