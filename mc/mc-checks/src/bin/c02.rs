//! C02 — rolling drivers call back once per position with exactly the right window.
//! Explicit protocol model (i, len, w) -> expected event; the implementation's recorded callback
//! trace must conform event by event (trace conformance).
use mc_adapt::backends::*;
use mc_adapt::roll::Path;
use mc_checks::*;
use polars::prelude::Int32Chunked;
use std::cell::RefCell;
use std::collections::VecDeque;
use tevec::prelude::*;

#[derive(Clone, Debug, PartialEq)]
enum Ev {
    Apply { rm: Option<i64>, add: i64 },
    Idx { start: Option<usize>, end: usize, v: i64 },
    Apply2 { rm: Option<(i64, i64)>, add: (i64, i64) },
    Idx2 { start: Option<usize>, end: usize, v: (i64, i64) },
    Slice(Vec<i64>),
    Slice2(Vec<i64>, Vec<i64>),
}

#[derive(Clone, Copy, Debug, PartialEq)]
enum Driver {
    Apply,
    ApplyIdx,
    Apply2,
    ApplyIdx2,
    Custom,
    Custom2,
    CustomIter,
    ApplyTo,
    ApplyIdxTo,
    Apply2To,
    ApplyIdx2To,
    CustomTo,
}
const DRIVERS: [Driver; 12] = [
    Driver::Apply,
    Driver::ApplyIdx,
    Driver::Apply2,
    Driver::ApplyIdx2,
    Driver::Custom,
    Driver::Custom2,
    Driver::CustomIter,
    Driver::ApplyTo,
    Driver::ApplyIdxTo,
    Driver::Apply2To,
    Driver::ApplyIdx2To,
    Driver::CustomTo,
];
impl Driver {
    fn direct_to(&self) -> bool {
        matches!(self, Driver::ApplyTo | Driver::ApplyIdxTo | Driver::Apply2To | Driver::ApplyIdx2To | Driver::CustomTo)
    }
}

trait CallNo: Clone {
    fn from_call(k: usize) -> Self;
}
impl CallNo for i32 {
    fn from_call(k: usize) -> Self {
        k as i32
    }
}
impl CallNo for Option<i32> {
    fn from_call(k: usize) -> Self {
        Some(k as i32)
    }
}

fn num<T: Elem>(t: &T) -> i64 {
    t.dec().num().map_or(i64::MIN, |v| v as i64)
}

/// run one driver on one container; returns the recorded callback trace and the decoded output
fn run_driver<V, T, O, OT>(d: Driver, v: &V, other: &Vec<i32>, w: usize, path: Path) -> Outcome<(Vec<Ev>, Vec<Cell>)>
where
    V: Vec1View<T> + SliceRead<T>,
    T: Elem,
    O: Vec1<OT> + OutCells + mc_adapt::outbuf::OutBuf<OT>,
    OT: CallNo + 'static,
{
    let log: RefCell<Vec<Ev>> = RefCell::new(vec![]);
    // pre-fill value of the alternative caller buffers (never a call number)
    let fill = || OT::from_call(999_999);
    let res = catch(|| {
        let next = || log.borrow().len();
        macro_rules! with_out {
            ($call:ident ( $($arg:expr),* ), $f:expr) => {{
                match path {
                    Path::Ret => v.$call::<O, OT, _>($($arg,)* $f, None).expect("returned form gave no container").cells(),
                    Path::Buf => {
                        let mut buf = <O as Vec1<OT>>::uninit(v.len());
                        let r = v.$call::<O, OT, _>($($arg,)* $f, Some(<O as Vec1<OT>>::uninit_ref_mut(&mut buf)));
                        assert!(r.is_none(), "out-buffer form returned a container");
                        unsafe { buf.assume_init() }.cells()
                    }
                    Path::BufAlt(k) => {
                        let vals = <O as mc_adapt::outbuf::OutBuf<OT>>::alt_run(v.len(), k, &fill, |out: <O as Vec1<OT>>::UninitRefMut<'_>| {
                            let r = v.$call::<O, OT, _>($($arg,)* $f, Some(out));
                            assert!(r.is_none(), "out-buffer form returned a container");
                        });
                        <O as Vec1<OT>>::collect_from_iter(vals.into_iter()).cells()
                    }
                }
            }};
        }
        match d {
            Driver::Apply => with_out!(rolling_apply(w), |rm: Option<T>, add: T| {
                let k = next();
                log.borrow_mut().push(Ev::Apply { rm: rm.as_ref().map(num), add: num(&add) });
                OT::from_call(k)
            }),
            Driver::ApplyIdx => with_out!(rolling_apply_idx(w), |start: Option<usize>, end: usize, x: T| {
                let k = next();
                log.borrow_mut().push(Ev::Idx { start, end, v: num(&x) });
                OT::from_call(k)
            }),
            Driver::Custom => with_out!(rolling_custom(w), |s: V::SliceOutput<'_>| {
                let k = next();
                log.borrow_mut().push(Ev::Slice(V::read_slice(&s).iter().map(num).collect()));
                OT::from_call(k)
            }),
            Driver::Apply2 => {
                let f = |rm: Option<(T, i32)>, add: (T, i32)| {
                    let k = next();
                    log.borrow_mut().push(Ev::Apply2 { rm: rm.as_ref().map(|(a, b)| (num(a), *b as i64)), add: (num(&add.0), add.1 as i64) });
                    OT::from_call(k)
                };
                match path {
                    Path::Ret => v.rolling2_apply::<O, OT, Vec<i32>, i32, _>(other, w, f, None).expect("no container").cells(),
                    Path::Buf => {
                        let mut buf = <O as Vec1<OT>>::uninit(v.len());
                        let r = v.rolling2_apply::<O, OT, Vec<i32>, i32, _>(other, w, f, Some(<O as Vec1<OT>>::uninit_ref_mut(&mut buf)));
                        assert!(r.is_none());
                        unsafe { buf.assume_init() }.cells()
                    }
                    Path::BufAlt(k) => {
                        let vals = <O as mc_adapt::outbuf::OutBuf<OT>>::alt_run(v.len(), k, &fill, |out: <O as Vec1<OT>>::UninitRefMut<'_>| {
                            let r = v.rolling2_apply::<O, OT, Vec<i32>, i32, _>(other, w, f, Some(out));
                            assert!(r.is_none());
                        });
                        <O as Vec1<OT>>::collect_from_iter(vals.into_iter()).cells()
                    }
                }
            }
            Driver::ApplyIdx2 => {
                let f = |start: Option<usize>, end: usize, x: (T, i32)| {
                    let k = next();
                    log.borrow_mut().push(Ev::Idx2 { start, end, v: (num(&x.0), x.1 as i64) });
                    OT::from_call(k)
                };
                match path {
                    Path::Ret => v.rolling2_apply_idx::<O, OT, Vec<i32>, i32, _>(other, w, f, None).expect("no container").cells(),
                    Path::Buf => {
                        let mut buf = <O as Vec1<OT>>::uninit(v.len());
                        let r = v.rolling2_apply_idx::<O, OT, Vec<i32>, i32, _>(other, w, f, Some(<O as Vec1<OT>>::uninit_ref_mut(&mut buf)));
                        assert!(r.is_none());
                        unsafe { buf.assume_init() }.cells()
                    }
                    Path::BufAlt(k) => {
                        let vals = <O as mc_adapt::outbuf::OutBuf<OT>>::alt_run(v.len(), k, &fill, |out: <O as Vec1<OT>>::UninitRefMut<'_>| {
                            let r = v.rolling2_apply_idx::<O, OT, Vec<i32>, i32, _>(other, w, f, Some(out));
                            assert!(r.is_none());
                        });
                        <O as Vec1<OT>>::collect_from_iter(vals.into_iter()).cells()
                    }
                }
            }
            Driver::Custom2 => {
                let f = |a: V::SliceOutput<'_>, b: &[i32]| {
                    let k = next();
                    log.borrow_mut().push(Ev::Slice2(V::read_slice(&a).iter().map(num).collect(), b.iter().map(|x| *x as i64).collect()));
                    OT::from_call(k)
                };
                match path {
                    Path::Ret => v.rolling2_custom::<O, OT, Vec<i32>, i32, _>(other, w, f, None).expect("no container").cells(),
                    Path::Buf => {
                        let mut buf = <O as Vec1<OT>>::uninit(v.len());
                        let r = v.rolling2_custom::<O, OT, Vec<i32>, i32, _>(other, w, f, Some(<O as Vec1<OT>>::uninit_ref_mut(&mut buf)));
                        assert!(r.is_none());
                        unsafe { buf.assume_init() }.cells()
                    }
                    Path::BufAlt(k) => {
                        let vals = <O as mc_adapt::outbuf::OutBuf<OT>>::alt_run(v.len(), k, &fill, |out: <O as Vec1<OT>>::UninitRefMut<'_>| {
                            let r = v.rolling2_custom::<O, OT, Vec<i32>, i32, _>(other, w, f, Some(out));
                            assert!(r.is_none());
                        });
                        <O as Vec1<OT>>::collect_from_iter(vals.into_iter()).cells()
                    }
                }
            }
            Driver::CustomIter => {
                // lazy iterator: consumed by plain iteration; container type irrelevant
                let it = v.rolling_custom_iter(w, |s: V::SliceOutput<'_>| {
                    let k = next();
                    log.borrow_mut().push(Ev::Slice(V::read_slice(&s).iter().map(num).collect()));
                    k as i32
                });
                it.map(|k| Cell::I(k as i64)).collect()
            }
            // the *_to bodies called directly with a caller buffer
            Driver::ApplyTo | Driver::ApplyIdxTo | Driver::Apply2To | Driver::ApplyIdx2To | Driver::CustomTo => {
                macro_rules! to_body {
                    ($out:expr) => {{
                    let out = $out;
                    match d {
                        Driver::ApplyTo => v.rolling_apply_to::<O, OT, _>(
                            w,
                            |rm: Option<T>, add: T| {
                                let k = next();
                                log.borrow_mut().push(Ev::Apply { rm: rm.as_ref().map(num), add: num(&add) });
                                OT::from_call(k)
                            },
                            out,
                        ),
                        Driver::ApplyIdxTo => v.rolling_apply_idx_to::<O, OT, _>(
                            w,
                            |start: Option<usize>, end: usize, x: T| {
                                let k = next();
                                log.borrow_mut().push(Ev::Idx { start, end, v: num(&x) });
                                OT::from_call(k)
                            },
                            out,
                        ),
                        Driver::Apply2To => v.rolling2_apply_to::<O, OT, Vec<i32>, i32, _>(
                            other,
                            w,
                            |rm: Option<(T, i32)>, add: (T, i32)| {
                                let k = next();
                                log.borrow_mut().push(Ev::Apply2 { rm: rm.as_ref().map(|(a, b)| (num(a), *b as i64)), add: (num(&add.0), add.1 as i64) });
                                OT::from_call(k)
                            },
                            out,
                        ),
                        Driver::ApplyIdx2To => v.rolling2_apply_idx_to::<O, OT, Vec<i32>, i32, _>(
                            other,
                            w,
                            |start: Option<usize>, end: usize, x: (T, i32)| {
                                let k = next();
                                log.borrow_mut().push(Ev::Idx2 { start, end, v: (num(&x.0), x.1 as i64) });
                                OT::from_call(k)
                            },
                            out,
                        ),
                        _ => v.rolling_custom_to::<O, OT, _>(
                            w,
                            |s: V::SliceOutput<'_>| {
                                let k = next();
                                log.borrow_mut().push(Ev::Slice(V::read_slice(&s).iter().map(num).collect()));
                                OT::from_call(k)
                            },
                            out,
                        ),
                    }
                    }};
                }
                match path {
                    Path::BufAlt(k) => {
                        let vals = <O as mc_adapt::outbuf::OutBuf<OT>>::alt_run(v.len(), k, &fill, |out: <O as Vec1<OT>>::UninitRefMut<'_>| to_body!(out));
                        <O as Vec1<OT>>::collect_from_iter(vals.into_iter()).cells()
                    }
                    _ => {
                        let mut buf = <O as Vec1<OT>>::uninit(v.len());
                        to_body!(<O as Vec1<OT>>::uninit_ref_mut(&mut buf));
                        unsafe { buf.assume_init() }.cells()
                    }
                }
            }
        }
    });
    match res {
        Outcome::Ok(cells) => Outcome::Ok((log.into_inner(), cells)),
        Outcome::Panic(m) => Outcome::Panic(m),
    }
}

/// the reference model of the protocol: is event `e` acceptable at position `i`?
fn conforms(e: &Ev, i: usize, x: &[i64], y: &[i64], w: usize) -> Result<(), String> {
    let len = x.len();
    // what must be reported as leaving the window
    #[derive(PartialEq)]
    enum Rm {
        Must(usize),
        Nothing,
        Unspecified,
    }
    let rm = if i + 1 >= w {
        Rm::Must(i + 1 - w)
    } else if i + 1 < w.min(len) {
        Rm::Nothing
    } else {
        Rm::Unspecified // w > len and i = len-1: the property's explicit carve-out
    };
    let lo = (i + 1).saturating_sub(w);
    let bad = |what: &str| Err(format!("position {i}: {what}"));
    match e {
        Ev::Apply { rm: r, add } => {
            if *add != x[i] {
                return bad(&format!("new element {add}, expected {}", x[i]));
            }
            match (&rm, r) {
                (Rm::Must(j), Some(v)) if *v == x[*j] => Ok(()),
                (Rm::Nothing, None) => Ok(()),
                (Rm::Unspecified, _) => Ok(()),
                _ => bad(&format!("removed {r:?}")),
            }
        }
        Ev::Apply2 { rm: r, add } => {
            if *add != (x[i], y[i]) {
                return bad(&format!("new elements {add:?}, expected {:?}", (x[i], y[i])));
            }
            match (&rm, r) {
                (Rm::Must(j), Some(v)) if *v == (x[*j], y[*j]) => Ok(()),
                (Rm::Nothing, None) => Ok(()),
                (Rm::Unspecified, _) => Ok(()),
                _ => bad(&format!("removed {r:?}")),
            }
        }
        Ev::Idx { start, end, v } => {
            if *end != i || *v != x[i] {
                return bad(&format!("end={end} value={v}, expected end={i} value={}", x[i]));
            }
            match (&rm, start) {
                (Rm::Must(j), Some(s)) if s == j => Ok(()),
                (Rm::Nothing, None) => Ok(()),
                (Rm::Unspecified, _) => Ok(()),
                _ => bad(&format!("window start {start:?}")),
            }
        }
        Ev::Idx2 { start, end, v } => {
            if *end != i || *v != (x[i], y[i]) {
                return bad(&format!("end={end} value={v:?}"));
            }
            match (&rm, start) {
                (Rm::Must(j), Some(s)) if s == j => Ok(()),
                (Rm::Nothing, None) => Ok(()),
                (Rm::Unspecified, _) => Ok(()),
                _ => bad(&format!("window start {start:?}")),
            }
        }
        Ev::Slice(s) => {
            if s[..] == x[lo..=i] {
                Ok(())
            } else {
                bad(&format!("slice {s:?}, expected {:?}", &x[lo..=i]))
            }
        }
        Ev::Slice2(a, b) => {
            if a[..] == x[lo..=i] && b[..] == y[lo..=i] {
                Ok(())
            } else {
                bad(&format!("slices {a:?} / {b:?}, expected {:?} / {:?}", &x[lo..=i], &y[lo..=i]))
            }
        }
    }
}

fn judge_trace(out: &Outcome<(Vec<Ev>, Vec<Cell>)>, x: &[i64], y: &[i64], w: usize) -> Result<(), String> {
    let (evs, cells) = match out {
        Outcome::Panic(m) => return Err(format!("PANIC({})", truncate(m, 100))),
        Outcome::Ok(p) => p,
    };
    if evs.len() != x.len() {
        return Err(format!("{} callbacks for {} positions", evs.len(), x.len()));
    }
    for (i, e) in evs.iter().enumerate() {
        conforms(e, i, x, y, w)?;
    }
    if cells.len() != x.len() {
        return Err(format!("output of length {} for input of length {}", cells.len(), x.len()));
    }
    for (i, c) in cells.iter().enumerate() {
        if c.num() != Some(i as f64) {
            return Err(format!("output[{i}] = {} is not the result of the callback for position {i}", c.show()));
        }
    }
    Ok(())
}

struct Vis<'a> {
    len: usize,
    tyname: &'static str,
    ctx: &'a mut Ctx,
    only: Option<String>,
    /// None: every window 1..=len+3; Some: the listed windows (long series)
    ws: Option<Vec<usize>>,
    /// bit i set: element i of the series is a null (Option<f64> series only)
    nulls: u32,
}

impl<'a> Vis<'a> {
    fn one<V, T, O, OT>(&mut self, bname: &str, oname: &str, v: &V, d: Driver, w: usize, path: Path)
    where
        V: Vec1View<T> + SliceRead<T>,
        T: Elem,
        O: Vec1<OT> + OutCells + mc_adapt::outbuf::OutBuf<OT>,
        OT: CallNo + 'static,
    {
        let len = self.len;
        // a null element is reported to the callback as a null (`num` decodes it to i64::MIN): a null that
        // leaves the window is still "an element leaves", not "nothing leaves"
        let nulls = self.nulls;
        let x: Vec<i64> = (0..len as i64).map(|i| if i < 32 && nulls >> i & 1 == 1 { i64::MIN } else { 10 + i }).collect();
        let y: Vec<i64> = (0..len as i64).map(|i| 100 + i).collect();
        let other: Vec<i32> = y.iter().map(|v| *v as i32).collect();
        let got = run_driver::<V, T, O, OT>(d, v, &other, w, path);
        let fam = "drivers";
        let h = match &got {
            Outcome::Ok((e, c)) => mix(hash_cells(c), hash_bytes(format!("{e:?}").as_bytes())),
            Outcome::Panic(m) => hash_bytes(m.as_bytes()),
        };
        self.ctx.eval(fam, h);
        self.ctx.traces += 1;
        self.ctx.states += len as u64 + 1;
        self.ctx.transitions += len as u64;
        self.ctx.nontrivial(fam, hash_bytes(format!("{d:?}{bname}{oname}{path:?}{len}/{w}{}/{nulls}", self.tyname).as_bytes()));
        if let Err(why) = judge_trace(&got, &x, &y, w) {
            // F29: the Vec / ndarray fast paths allocate the output with O::uninit + uset, which the Polars
            // output container does not support
            let finding = if oname == "Int32Chunked" && why.contains("polars backend do not support set") { Some("F29".to_string()) } else { None };
            let entry = format!("{d:?}");
            self.ctx.violation(Violation {
                entry,
                finding,
                size: len * 100 + w,
                case: json!({"family": fam, "driver": format!("{d:?}"), "backend": bname, "elem": self.tyname, "output": oname, "path": format!("{path:?}"), "len": len, "w": w, "null_mask": nulls}),
                expected: "one callback per position in increasing order with the window of the protocol model; out[i] = result of call i".into(),
                got: format!("{why}; trace {}", truncate(&format!("{got:?}"), 300)),
            });
        }
        // a second series that is longer than the first (the drivers accept it): the protocol and the output
        // length are those of the first series
        if len <= 4 && w <= len + 3 && matches!(d, Driver::Apply2 | Driver::ApplyIdx2 | Driver::Custom2 | Driver::Apply2To | Driver::ApplyIdx2To) {
            let y2: Vec<i64> = (0..len as i64 + 2).map(|i| 100 + i).collect();
            let other2: Vec<i32> = y2.iter().map(|v| *v as i32).collect();
            let got2 = run_driver::<V, T, O, OT>(d, v, &other2, w, path);
            self.ctx.eval(fam, match &got2 {
                Outcome::Ok((e, c)) => mix(hash_cells(c), hash_bytes(format!("{e:?}").as_bytes())),
                Outcome::Panic(m) => hash_bytes(m.as_bytes()),
            });
            self.ctx.transitions += len as u64;
            if let Err(why) = judge_trace(&got2, &x, &y2, w) {
                let finding = if oname == "Int32Chunked" && why.contains("polars backend do not support set") { Some("F29".to_string()) } else { None };
                self.ctx.violation(Violation {
                    entry: format!("{d:?} (longer second series)"),
                    finding,
                    size: len * 100 + w,
                    case: json!({"family": fam, "driver": format!("{d:?}"), "backend": bname, "elem": self.tyname, "output": oname, "path": format!("{path:?}"), "len": len, "second_len": len + 2, "w": w}),
                    expected: "one callback per position of the first series in increasing order with the window of the protocol model; output as long as the first series".into(),
                    got: format!("{why}; trace {}", truncate(&format!("{got2:?}"), 300)),
                });
            }
        }
        if self.ctx.samples.len() < 3 && len == 4 && w == 3 && bname.starts_with("VecDeque(head=6") {
            if let Outcome::Ok((e, c)) = &got {
                self.ctx.sample(json!({"driver": format!("{d:?}"), "backend": bname, "output": oname, "len": len, "w": w, "trace": format!("{e:?}"), "out": show_cells(c)}));
            }
        }
    }
}

impl<'a, T: Elem> BackendVisitor<T> for Vis<'a> {
    fn visit<V: Vec1View<T> + SliceRead<T>>(&mut self, name: &str, v: &V) {
        if let Some(o) = &self.only {
            if o != name {
                return;
            }
        }
        let len = self.len;
        let ws: Vec<usize> = self.ws.clone().unwrap_or_else(|| {
            let mut v: Vec<usize> = (1..=len + 3).collect();
            if len <= 3 {
                // "unbounded" windows: sizes that do not survive a conversion to a signed or narrower integer
                v.extend([usize::MAX, usize::MAX - 1, (1usize << 63) + 1, 1usize << 63, (1usize << 63) - 1, (1usize << 32) + 1]);
            }
            v
        });
        for w in ws {
            for d in DRIVERS {
                if d == Driver::CustomIter {
                    self.one::<V, T, Vec<i32>, i32>(name, "iterator", v, d, w, Path::Ret);
                    continue;
                }
                // caller buffers in a non-canonical physical layout: wrapped rings, strided / reversed views
                self.one::<V, T, VecDeque<i32>, i32>(name, "VecDeque(wrapped ring, head 3)", v, d, w, Path::BufAlt(1));
                self.one::<V, T, VecDeque<i32>, i32>(name, "VecDeque(wrapped ring, head len-1)", v, d, w, Path::BufAlt(2));
                self.one::<V, T, ndarray::Array1<i32>, i32>(name, "Array1(view, step 2)", v, d, w, Path::BufAlt(1));
                self.one::<V, T, ndarray::Array1<i32>, i32>(name, "Array1(reversed view)", v, d, w, Path::BufAlt(2));
                self.one::<V, T, ndarray::Array1<i32>, i32>(name, "Array1(view, step 3, offset 1)", v, d, w, Path::BufAlt(3));
                if d.direct_to() {
                    self.one::<V, T, Vec<i32>, i32>(name, "Vec", v, d, w, Path::Buf);
                    self.one::<V, T, VecDeque<i32>, i32>(name, "VecDeque", v, d, w, Path::Buf);
                    self.one::<V, T, ndarray::Array1<i32>, i32>(name, "Array1", v, d, w, Path::Buf);
                    self.one::<V, T, Int32Chunked, Option<i32>>(name, "Int32Chunked", v, d, w, Path::Buf);
                    continue;
                }
                for path in [Path::Ret, Path::Buf] {
                    self.one::<V, T, Vec<i32>, i32>(name, "Vec", v, d, w, path);
                    self.one::<V, T, VecDeque<i32>, i32>(name, "VecDeque", v, d, w, path);
                    self.one::<V, T, ndarray::Array1<i32>, i32>(name, "Array1", v, d, w, path);
                }
                // Polars output: the container stages slot-wise results in a plain buffer (fix 833cd1d)
                self.one::<V, T, Int32Chunked, Option<i32>>(name, "Int32Chunked", v, d, w, Path::Ret);
                self.one::<V, T, Int32Chunked, Option<i32>>(name, "Int32Chunked", v, d, w, Path::Buf);
            }
        }
    }
}

/// the lazy window iterator consumed with skips (round 11): `skip(j)`, `step_by(k)` and `nth(j)` advance it
/// through `nth`, which an adaptor may implement differently from `next` - every item that is delivered is the
/// callback's result on the window of *its* position
struct SkipVis<'a> {
    len: usize,
    tyname: &'static str,
    ctx: &'a mut Ctx,
}
impl<'a, T: Elem> BackendVisitor<T> for SkipVis<'a> {
    fn visit<V: Vec1View<T> + SliceRead<T>>(&mut self, name: &str, v: &V) {
        let len = self.len;
        let fam = "lazy-iterator-skips";
        let x: Vec<i64> = (0..len as i64).map(|i| 10 + i).collect();
        for w in 1..=len + 1 {
            let mut modes: Vec<(String, Vec<usize>)> = vec![];
            for j in 1..=len {
                modes.push((format!("skip({j})"), (j..len).collect()));
                modes.push((format!("nth({j}) then next"), (j..len).collect()));
            }
            for k in [1usize, 2, 3] {
                modes.push((format!("step_by({k})"), (0..len).step_by(k).collect()));
            }
            for (mi, (mname, positions)) in modes.iter().enumerate() {
                let got: Outcome<Vec<Vec<i64>>> = catch(|| {
                    let it = v.rolling_custom_iter(w, |s: V::SliceOutput<'_>| V::read_slice(&s).iter().map(num).collect::<Vec<i64>>());
                    if mname.starts_with("skip") {
                        it.skip(mi / 2 + 1).collect()
                    } else if mname.starts_with("nth") {
                        let mut it = it;
                        let first = it.nth(mi / 2 + 1);
                        first.into_iter().chain(it).collect()
                    } else {
                        it.step_by(mi + 1 - 2 * len).collect()
                    }
                });
                let want: Vec<Vec<i64>> = positions.iter().map(|&p| x[(p + 1).saturating_sub(w)..=p].to_vec()).collect();
                self.ctx.traces += 1;
                self.ctx.transitions += positions.len() as u64;
                self.ctx.eval(fam, hash_bytes(format!("{got:?}").as_bytes()));
                self.ctx.nontrivial(fam, hash_bytes(format!("{name}{len}/{w}{mname}{}", self.tyname).as_bytes()));
                if !matches!(&got, Outcome::Ok(g) if *g == want) {
                    self.ctx.violation(Violation {
                        entry: format!("rolling_custom_iter.{}", mname.split('(').next().unwrap_or("")),
                        finding: None,
                        size: len * 100 + w,
                        case: json!({"family": fam, "backend": name, "elem": self.tyname, "len": len, "w": w, "consumption": mname}),
                        expected: format!("the windows of positions {positions:?}: {}", truncate(&format!("{want:?}"), 200)),
                        got: truncate(&format!("{got:?}"), 260),
                    });
                }
            }
        }
    }
}
fn run_skips(len: usize, ctx: &mut Ctx) {
    let word: Vec<X> = (0..len).map(|i| Some(10.0 + i as f64)).collect();
    ctx.states += 1;
    ctx.fam("lazy-iterator-skips").states += 1;
    {
        let mut vis = SkipVis { len, tyname: "i32", ctx };
        for_backends::<i32, _>(&word, 0, &mut vis);
    }
    {
        let mut vis = SkipVis { len, tyname: "Option<f64>", ctx };
        for_backends_opt(&word, 0, &mut vis);
    }
}

fn run_len(len: usize, ctx: &mut Ctx, only: Option<String>) {
    let word: Vec<X> = (0..len).map(|i| Some(10.0 + i as f64)).collect();
    // long series: reduced back-end set (two ring offsets, two strides, two chunkings) and the windows
    // around the sizes where a narrow index or a size-dependent fast path would change behaviour
    let (level, ws) = if len > 1000 {
        // very long series (a hot loop processed in fixed-size blocks changes behaviour only here): few windows
        (0u8, Some(vec![1usize, 7, 40]))
    } else if len > 16 {
        let mut ws = vec![1usize, 2, 15, 16, 17, 31, 32, 33, 127, 128, 129, 255, 256, 257, len - 1, len, len + 1, len + 3];
        ws.retain(|w| *w <= len + 3);
        ws.sort();
        ws.dedup();
        (0u8, Some(ws))
    } else {
        (1u8, None)
    };
    {
        let mut vis = Vis { len, tyname: "i32", ctx, only: only.clone(), ws: ws.clone(), nulls: 0 };
        for_backends::<i32, _>(&word, level, &mut vis);
    }
    {
        let mut vis = Vis { len, tyname: "Option<f64>", ctx, only: only.clone(), ws: ws.clone(), nulls: 0 };
        for_backends_opt(&word, level, &mut vis);
    }
    // series with nulls (every placement for lengths <= 4; seed round 10): the drivers hand a null element
    // to the callback like any other - as the new element, as the element that leaves, inside a slice
    if len <= 4 {
        for nulls in 1u32..(1 << len) {
            let word: Vec<X> = (0..len).map(|i| if nulls >> i & 1 == 1 { None } else { Some(10.0 + i as f64) }).collect();
            let mut vis = Vis { len, tyname: "Option<f64>", ctx, only: only.clone(), ws: ws.clone(), nulls };
            for_backends_opt(&word, level, &mut vis);
        }
    }
}

// ---- the window-slice drivers on the typed Polars columns (String, Int64, Float32, Boolean) ----
mod typed {
    use super::*;
    use polars::prelude::{BooleanChunked, Float32Chunked, Int64Chunked, NewChunkedArray, StringChunked};

    macro_rules! build {
        ($CA:ty, $vals:expr, $chunks:expr) => {{
            let vals = $vals;
            let mut pos = 0;
            let mut ca: Option<$CA> = None;
            for &c in $chunks {
                let part = <$CA>::from_iter_options("".into(), vals[pos..pos + c].iter().cloned());
                pos += c;
                ca = Some(match ca {
                    None => part,
                    Some(mut acc) => {
                        acc.append(&part).unwrap();
                        acc
                    }
                });
            }
            ca.unwrap_or_else(|| <$CA>::from_iter_options("".into(), vals[0..0].iter().cloned()))
        }};
    }

    /// the windows the slice drivers hand out on `v` (decoded), one list per driver form
    fn windows<V, T>(v: &V, w: usize, dec: fn(&T) -> Cell) -> Vec<(&'static str, Outcome<Vec<Vec<Cell>>>)>
    where
        V: Vec1View<T> + SliceRead<T>,
        T: Clone,
    {
        let rd = |s: &V::SliceOutput<'_>| -> Vec<Cell> { V::read_slice(s).iter().map(dec).collect() };
        vec![
            ("rolling_custom", catch(|| {
                let log = RefCell::new(vec![]);
                let out: Vec<i32> = v.rolling_custom::<Vec<i32>, i32, _>(w, |s: V::SliceOutput<'_>| { log.borrow_mut().push(rd(&s)); 0 }, None).expect("no container");
                assert_eq!(out.len(), v.len());
                log.into_inner()
            })),
            ("rolling_custom_iter", catch(|| {
                let log = RefCell::new(vec![]);
                let n = Iterator::count(v.rolling_custom_iter(w, |s: V::SliceOutput<'_>| { log.borrow_mut().push(rd(&s)); 0i32 }));
                assert_eq!(n, v.len());
                log.into_inner()
            })),
            ("rolling_custom_to", catch(|| {
                let log = RefCell::new(vec![]);
                let mut buf = <Vec<i32> as Vec1<i32>>::uninit(v.len());
                v.rolling_custom_to::<Vec<i32>, i32, _>(w, |s: V::SliceOutput<'_>| { log.borrow_mut().push(rd(&s)); 0 }, <Vec<i32> as Vec1<i32>>::uninit_ref_mut(&mut buf));
                let _ = unsafe { buf.assume_init() };
                log.into_inner()
            })),
        ]
    }

    pub fn check_word(word: &[u8], ctx: &mut Ctx) {
        let fam = "typed-column-slices";
        // symbols: 0 = null, 1.. = values
        let x: Vec<X> = word.iter().map(|s| if *s == 0 { None } else { Some(*s as f64) }).collect();
        let len = x.len();
        ctx.fam(fam).states += 1;
        ctx.nontrivial(fam, hash_bytes(word));
        let want_cells: Vec<Cell> = x.iter().map(|v| Cell::of(*v)).collect();
        for chunks in mc_adapt::backends::chunkings(len) {
            for w in 1..=len + 2 {
                let expect: Vec<Vec<Cell>> = (0..len).map(|i| want_cells[(i + 1).saturating_sub(w)..=i].to_vec()).collect();
                let mut runs: Vec<(&str, &str, Outcome<Vec<Vec<Cell>>>)> = vec![];
                {
                    let vals: Vec<Option<String>> = x.iter().map(|v| v.map(|a| format!("{a}"))).collect();
                    let ca: StringChunked = build!(StringChunked, &vals, &chunks);
                    for (d, o) in windows::<&StringChunked, Option<&str>>(&&ca, w, |t| t.map_or(Cell::Null, |s| Cell::f(s.parse::<f64>().unwrap()))) {
                        runs.push(("&StringChunked", d, o));
                    }
                }
                {
                    let vals: Vec<Option<i64>> = x.iter().map(|v| v.map(|a| a as i64)).collect();
                    let ca: Int64Chunked = build!(Int64Chunked, &vals, &chunks);
                    for (d, o) in windows::<&Int64Chunked, Option<i64>>(&&ca, w, |t| t.map_or(Cell::Null, |s| Cell::f(s as f64))) {
                        runs.push(("&Int64Chunked", d, o));
                    }
                }
                {
                    let vals: Vec<Option<f32>> = x.iter().map(|v| v.map(|a| a as f32)).collect();
                    let ca: Float32Chunked = build!(Float32Chunked, &vals, &chunks);
                    for (d, o) in windows::<&Float32Chunked, Option<f32>>(&&ca, w, |t| t.map_or(Cell::Null, |s| Cell::f(s as f64))) {
                        runs.push(("&Float32Chunked", d, o));
                    }
                }
                if Iterator::all(&mut x.iter().flatten(), |a| *a <= 1.0) {
                    let vals: Vec<Option<bool>> = x.iter().map(|v| v.map(|a| a == 1.0)).collect();
                    let ca: BooleanChunked = build!(BooleanChunked, &vals, &chunks);
                    for (d, o) in windows::<&BooleanChunked, Option<bool>>(&&ca, w, |t| t.map_or(Cell::Null, |s| Cell::f(s as i64 as f64))) {
                        runs.push(("&BooleanChunked", d, o));
                    }
                }
                for (col, driver, got) in runs {
                    ctx.eval(fam, hash_bytes(format!("{got:?}").as_bytes()));
                    ctx.transitions += 1;
                    let ok = match &got {
                        Outcome::Ok(ws) => ws.len() == expect.len() && Iterator::all(&mut ws.iter().zip(&expect), |(a, b)| cells_eq(a, b, exact_eq)),
                        _ => false,
                    };
                    if ok {
                        ctx.traces += 1;
                    } else {
                        ctx.violation(Violation {
                            entry: format!("{driver} on {col}"),
                            finding: None,
                            size: len * 100 + w,
                            case: json!({"family": fam, "word": word, "series": json_word(&x), "column": col, "chunks": chunks, "driver": driver, "w": w}),
                            expected: format!("one callback per position with exactly x[max(0,i-w+1)..=i]: {:?}", expect.iter().map(|c| show_cells(c)).collect::<Vec<_>>()),
                            got: truncate(&format!("{:?}", match &got { Outcome::Ok(ws) => ws.iter().map(|c| show_cells(c)).collect::<Vec<_>>(), Outcome::Panic(m) => vec![format!("PANIC({m})")] }), 300),
                        });
                    }
                }
            }
        }
    }
}

fn main() {
    let run = Run::from_args("C02");
    let max_len = run.pick(7, 16);
    if let Some(path) = &run.replay {
        let stored = load_replay(path).unwrap_or_else(|e| {
            eprintln!("MACHINERY-ERROR: {e}");
            std::process::exit(2)
        });
        let mut ctx = Ctx::new();
        let case = &stored["case"];
        if case["family"] == "typed-column-slices" {
            typed::check_word(&syms_from_json(&case["word"]), &mut ctx);
            std::process::exit(finish_replay(&run, &stored, ctx));
        }
        if case["family"] == "lazy-iterator-skips" {
            run_skips(case["len"].as_u64().unwrap_or(0) as usize, &mut ctx);
            std::process::exit(finish_replay(&run, &stored, ctx));
        }
        run_len(case["len"].as_u64().unwrap_or(0) as usize, &mut ctx, case["backend"].as_str().map(|s| s.to_string()));
        std::process::exit(finish_replay(&run, &stored, ctx));
    }
    let mut lens: Vec<usize> = (0..=max_len).collect();
    lens.extend(if run.quick() { vec![40, 270, 1030] } else { vec![24, 40, 70, 130, 270, 300, 1030, 2600, 4100] });
    let mut total = par_items(&lens, run.threads, |len, ctx| run_len(*len, ctx, None));
    let skip_lens: Vec<usize> = (1..=run.pick(7, 12)).chain([17, 40]).collect();
    total.merge(par_items(&skip_lens, run.threads, |len, ctx| run_skips(*len, ctx)));
    let twords = all_words_upto(3, run.pick(4, 6));
    total.merge(par_items(&twords, run.threads, |w, ctx| {
        ctx.states += 1;
        typed::check_word(w, ctx)
    }));
    let meta = Meta {
        rule: "protocol machine (driver x input back end x output container x out-path x len x w): the stateful callback records (call#, arguments); the recorded trace must conform event by event to the explicit model: len calls, position i gets the new element(s) at i, the element/index at i-w+1 when i>=w-1, 'nothing' when i<min(w,len)-1, unconstrained when w>len and i=len-1; slice forms get exactly x[max(0,i-w+1)..=i]; out[i] = result of call i. Elements 10+i / 100+i are distinct so identity is observable. Non-trivial = distinct (driver, back end, output, path, len, w) runs. Configuration families (DESIGN 5.15, 5.16): every driver writing into caller buffers in non-canonical layouts (wrapped rings, strided / reversed views: path BufAlt); unbounded windows usize::MAX, usize::MAX-1, 2^63+1, 2^63, 2^63-1, 2^32+1 for lengths <= 3. Round 8 (DESIGN 5.17): typed-column-slices - rolling_custom / rolling_custom_iter / rolling_custom_to on the Polars String, Int64, Float32 and Boolean columns under every chunking, every word over {null,1,2}, every window 1..=len+2. Round 9 (DESIGN 5.18): the two-series drivers also run with a second series two elements longer than the first (lengths <= 4): the output has the length of the first series. Round 10 (DESIGN 5.19): the Option<f64> series with every placement of nulls (lengths <= 4): a null is handed to the callback like any other element - as the new one, as the one that leaves, inside a slice. Round 11 (DESIGN 5.20): lazy-iterator-skips - rolling_custom_iter on every input back end consumed with skip(j), nth(j) then next, step_by(1..3): every delivered item is the callback's result on the window of its own position.".into(),
        bounds: json!({"len": format!("0..={max_len}, and the long lengths {:?} on a reduced back-end set with windows 1, 2, 15..17, 31..33, 127..129, 255..257, len-1..len+3", &lens[max_len + 1..]), "w": "1..=len+3", "drivers": DRIVERS.iter().map(|d| format!("{d:?}")).collect::<Vec<_>>(),
            "input_backends": "Vec, Arc<Vec>, [T;N], VecDeque x 8 head offsets, Array1, ArrayView1 steps {1,2,3,-1,-2}, ArrayViewMut1, Arc<Array1> (elements i32 and Option<f64>), OptIter<Vec<f64>>, OptIter<Array1<f64>>, Float64Chunked/&Float64Chunked under every chunking into <=3 chunks",
            "outputs": "Vec, VecDeque, Array1, Int32Chunked (returned and caller buffer)"}),
        assumptions: vec![
            "window 0 belongs to C10".into(),
            "second series is a Vec<i32> of the same length".into(),
        ],
        exhaustive: true,
        min_states: 1000,
    };
    std::process::exit(finish(&run, meta, total));
}
