//! Caller-supplied output buffers in non-canonical physical layouts (DESIGN 5.14, seed round 6).
//! `O::uninit(len)` always hands out a freshly allocated, contiguous buffer; a caller may just as well pass
//! a wrapped ring buffer or a strided / reversed ndarray view (e.g. a column of a row-major matrix).
//! Every slot is pre-filled with a value, so reading the buffer back never touches uninitialised memory.
use ndarray::{s, Array1};
use std::collections::VecDeque;
use std::mem::MaybeUninit;
use tevec::prelude::*;

thread_local! {
    static FILL: std::cell::RefCell<Option<Box<dyn std::any::Any>>> = const { std::cell::RefCell::new(None) };
    static LAST: std::cell::RefCell<Option<Box<dyn std::any::Any>>> = const { std::cell::RefCell::new(None) };
}

/// Audit mode (C10): every cell of the backing storage of an alternative buffer - the slots of the lane
/// and the foreign cells between / around them - is pre-filled with this value instead of the caller's,
/// and the whole backing storage is kept after the call (`take_last_base`).
pub fn set_fill_override<U: Clone + 'static>(v: Option<U>) {
    FILL.with(|f| *f.borrow_mut() = v.map(|x| Box::new(x) as Box<dyn std::any::Any>));
    LAST.with(|l| *l.borrow_mut() = None);
}
pub fn fill_override<U: Clone + 'static>() -> Option<U> {
    FILL.with(|f| f.borrow().as_ref().and_then(|b| b.downcast_ref::<U>().cloned()))
}
/// the backing storage of the last audited alternative buffer in memory order, and the indices of the
/// lane's slots in logical order
pub struct BaseDump<U> {
    pub cells: Vec<U>,
    pub lane: Vec<usize>,
}
pub fn take_last_base<U: 'static>() -> Option<BaseDump<U>> {
    LAST.with(|l| l.borrow_mut().take()).and_then(|b| b.downcast::<BaseDump<U>>().ok().map(|b| *b))
}
fn keep_base<U: Clone + 'static>(cells: Vec<U>, lane: Vec<usize>) {
    LAST.with(|l| *l.borrow_mut() = Some(Box::new(BaseDump { cells, lane }) as Box<dyn std::any::Any>));
}

pub trait OutBuf<U: 'static>: Vec1<U> + Sized {
    /// number of alternative layouts (kinds 1..=ALT_KINDS); 0 = only the canonical buffer
    const ALT_KINDS: u8 = 0;
    fn alt_name(_kind: u8) -> &'static str {
        "-"
    }
    /// run `f` on a buffer of `len` slots laid out as `kind`, every slot pre-filled with `fill`; returns the
    /// slots of the buffer in logical order afterwards
    /// (`fill` is a function so that no value has to exist for an empty buffer)
    fn alt_run<F>(_len: usize, _kind: u8, _fill: &dyn Fn() -> U, _f: F) -> Vec<U>
    where
        F: for<'a> FnOnce(Self::UninitRefMut<'a>),
    {
        panic!("this container has no alternative buffer layout")
    }
}

impl<U: Clone + 'static> OutBuf<U> for Vec<U> {}
impl<U: Clone + Default + 'static> OutBuf<U> for crate::probe::ProbeOut<U> {}
impl OutBuf<Option<f64>> for polars::prelude::Float64Chunked {}
impl OutBuf<Option<i32>> for polars::prelude::Int32Chunked {}

impl<U: Clone + 'static> OutBuf<U> for VecDeque<U> {
    const ALT_KINDS: u8 = 2;
    fn alt_name(kind: u8) -> &'static str {
        ["-", "wrapped ring (head 3)", "wrapped ring (head len-1)"][kind as usize]
    }
    fn alt_run<F>(len: usize, kind: u8, fill: &dyn Fn() -> U, f: F) -> Vec<U>
    where
        F: for<'a> FnOnce(<Self as Vec1<U>>::UninitRefMut<'a>),
    {
        if len == 0 {
            // nothing to lay out (and no value to pre-fill with)
            let mut d: VecDeque<MaybeUninit<U>> = VecDeque::new();
            f(&mut d);
            return vec![];
        }
        let cap = len.max(4);
        let off = if kind == 1 { 3.min(cap - 1) } else { cap - 1 };
        let audit: Option<U> = fill_override::<U>();
        let fill = || audit.clone().unwrap_or_else(fill);
        let mut d: VecDeque<MaybeUninit<U>> = VecDeque::with_capacity(cap);
        for _ in 0..off {
            d.push_back(MaybeUninit::new(fill()));
        }
        for _ in 0..off {
            d.pop_front();
        }
        for _ in 0..len {
            d.push_back(MaybeUninit::new(fill()));
        }
        f(&mut d);
        if audit.is_some() {
            // the spare capacity of a ring is not observable; the lane is the whole dump
            keep_base(d.iter().map(|m| unsafe { m.assume_init_ref() }.clone()).collect(), (0..len).collect());
        }
        // SAFETY: every slot was written with `MaybeUninit::new` above
        d.iter().map(|m| unsafe { m.assume_init_ref() }.clone()).collect()
    }
}

impl<U: Clone + 'static> OutBuf<U> for Array1<U> {
    const ALT_KINDS: u8 = 3;
    fn alt_name(kind: u8) -> &'static str {
        ["-", "view with step 2", "reversed view", "view with step 3 and offset"][kind as usize]
    }
    fn alt_run<F>(len: usize, kind: u8, fill: &dyn Fn() -> U, f: F) -> Vec<U>
    where
        F: for<'a> FnOnce(<Self as Vec1<U>>::UninitRefMut<'a>),
    {
        let (step, off): (isize, usize) = match kind {
            1 => (2, 0),
            2 => (-1, 0),
            _ => (3, 1),
        };
        if len == 0 {
            let mut base: Array1<MaybeUninit<U>> = Array1::from_shape_fn(0, |_| unreachable!());
            f(base.view_mut());
            return vec![];
        }
        let a = step.unsigned_abs();
        // room behind the lane for `len` more cells: a writer that ignores the stride of a reversed view
        // (pointer of slot 0 plus idx) then lands in foreign cells of the backing storage, where it is seen as
        // a wrong result, instead of corrupting the heap
        let n_base = off + len * a.max(2) + 1;
        let audit: Option<U> = fill_override::<U>();
        let mut base: Array1<MaybeUninit<U>> = Array1::from_shape_fn(n_base, |_| MaybeUninit::new(audit.clone().unwrap_or_else(fill)));
        {
            let view = if len == 0 {
                base.slice_mut(s![off..off])
            } else if step > 0 {
                base.slice_mut(s![off..off + (len - 1) * a + 1; step])
            } else {
                base.slice_mut(s![off..off + len; step])
            };
            assert_eq!(view.len(), len);
            f(view);
        }
        // read the lane back in logical order; SAFETY: every slot of `base` was written with `MaybeUninit::new`
        let lane = if len == 0 {
            base.slice(s![off..off])
        } else if step > 0 {
            base.slice(s![off..off + (len - 1) * a + 1; step])
        } else {
            base.slice(s![off..off + len; step])
        };
        if audit.is_some() {
            let idx: Vec<usize> = (0..len).map(|i| if step > 0 { off + i * a } else { off + len - 1 - i }).collect();
            keep_base(base.iter().map(|m| unsafe { m.assume_init_ref() }.clone()).collect(), idx);
        }
        lane.iter().map(|m| unsafe { m.assume_init_ref() }.clone()).collect()
    }
}
