//! C17 — date-time, duration and time-of-day arithmetic obeys its inverse laws.
use chrono::{DateTime as CrDateTime, Datelike, Months, NaiveDate, Timelike, Utc};
use mc_checks::*;
use tevec::prelude::unit::{Microsecond, Millisecond, Nanosecond, Second};
use tevec::prelude::{DateTime, Time, TimeDelta};

const UNITS: [&str; 4] = ["s", "ms", "us", "ns"];
const PER_SEC: [i64; 4] = [1, 1_000, 1_000_000, 1_000_000_000];
const UNIT_NAMES: [&str; 10] = ["ns", "us", "ms", "s", "m", "h", "d", "w", "mo", "y"];
const UNIT_NS: [i128; 8] = [1, 1_000, 1_000_000, 1_000_000_000, 60_000_000_000, 3_600_000_000_000, 86_400_000_000_000, 604_800_000_000_000];

macro_rules! by_unit {
    ($u:expr, $U:ident => $body:expr) => {
        match $u {
            0 => {
                type $U = Second;
                $body
            }
            1 => {
                type $U = Millisecond;
                $body
            }
            2 => {
                type $U = Microsecond;
                $body
            }
            _ => {
                type $U = Nanosecond;
                $body
            }
        }
    };
}

fn viol(ctx: &mut Ctx, entry: &str, finding: Option<&str>, case: Value, expected: String, got: String) {
    ctx.violation(Violation { entry: entry.into(), finding: finding.map(|s| s.into()), size: case.to_string().len(), case, expected, got });
}

/// instants as timestamps in unit u
fn instants(u: u8, years: &[i32]) -> Vec<i64> {
    let mut v = vec![];
    for &y in years {
        let mut days = vec![(1, 1), (2, 28), (3, 1), (4, 30), (12, 31)];
        if NaiveDate::from_ymd_opt(y, 2, 29).is_some() {
            days.push((2, 29));
        }
        for (m, d) in days {
            if y == 2262 && (m, d) > (4, 1) {
                continue;
            }
            let date = NaiveDate::from_ymd_opt(y, m, d).unwrap();
            for (h, mi, s, ns) in [(0, 0, 0, 0u32), (12, 34, 56, 789_000_000), (23, 59, 59, 999_999_999)] {
                let c = date.and_hms_nano_opt(h, mi, s, ns).unwrap().and_utc();
                let ts = match u {
                    0 => c.timestamp(),
                    1 => c.timestamp_millis(),
                    2 => c.timestamp_micros(),
                    _ => c.timestamp_nanos_opt().unwrap(),
                };
                v.push(ts);
            }
        }
    }
    v
}

/// coefficient vector (one of -1, 0, +2 per unit) -> (string, months, nanoseconds)
fn duration_of(coefs: &[i8; 10]) -> (String, i32, i128) {
    let mut s = String::new();
    let (mut months, mut ns) = (0i32, 0i128);
    for (i, c) in coefs.iter().enumerate() {
        if *c == 0 {
            continue;
        }
        s.push_str(&format!("{}{}", c, UNIT_NAMES[i]));
        match i {
            8 => months += *c as i32,
            9 => months += 12 * *c as i32,
            _ => ns += *c as i128 * UNIT_NS[i],
        }
    }
    (s, months, ns)
}
fn all_coefs(month_free: bool) -> Vec<[i8; 10]> {
    let n = if month_free { 8 } else { 10 };
    let mut out = vec![];
    let mut idx = vec![0usize; n];
    loop {
        let mut c = [0i8; 10];
        for (i, k) in idx.iter().enumerate() {
            c[i] = [0, -1, 2][*k];
        }
        out.push(c);
        let mut p = n;
        loop {
            if p == 0 {
                return out;
            }
            p -= 1;
            if idx[p] < 2 {
                idx[p] += 1;
                break;
            }
            idx[p] = 0;
        }
    }
}

fn ts_to_cr(u: u8, v: i64) -> CrDateTime<Utc> {
    match u {
        0 => CrDateTime::from_timestamp(v, 0).unwrap(),
        1 => CrDateTime::from_timestamp_millis(v).unwrap(),
        2 => CrDateTime::from_timestamp_micros(v).unwrap(),
        _ => CrDateTime::from_timestamp_nanos(v),
    }
}
fn cr_to_ts(u: u8, c: &CrDateTime<Utc>) -> Option<i64> {
    match u {
        0 => Some(c.timestamp()),
        1 => Some(c.timestamp_millis()),
        2 => Some(c.timestamp_micros()),
        _ => c.timestamp_nanos_opt(),
    }
}

/// (t + d) - d == t and (a - b) + b == a for month-free durations that are whole multiples of the unit
fn inverse_laws(u: u8, ts: &[i64], durs: &[(String, TimeDelta, i128)], ctx: &mut Ctx) {
    let fam = "datetime+-duration";
    let unit_ns = 1_000_000_000 / PER_SEC[u as usize] as i128;
    for &t in ts {
        ctx.states += 1;
        ctx.traces += 1;
        ctx.fam(fam).states += 1;
        ctx.nontrivial(fam, hash_u64s(&[u as u64, t as u64]));
        for (txt, d, ns) in durs {
            if ns % unit_ns != 0 {
                continue; // not representable at this resolution (DESIGN 5, C17 reading)
            }
            // stay inside the nanosecond calendar range
            let t_ns = t as i128 * unit_ns;
            if (t_ns + ns).abs() > 9_000_000_000_000_000_000 || (t_ns - ns).abs() > 9_000_000_000_000_000_000 {
                continue;
            }
            ctx.transitions += 1;
            let d = *d;
            let got = by_unit!(u, U => catch(|| {
                let x = DateTime::<U>::new(t);
                let plus = x + d;
                let back = plus - d;
                let diff = plus - x; // TimeDelta
                let re = x + diff;
                (plus.into_i64(), back.into_i64(), re.into_i64(), diff.months, diff.inner.num_nanoseconds())
            }));
            ctx.eval(fam, match &got { Outcome::Ok(g) => g.0 as u64, _ => 1 });
            let want_plus = ((t_ns + ns) / unit_ns) as i64;
            let ok = matches!(&got, Outcome::Ok((p, b, r, m, dn)) if *p == want_plus && *b == t && *r == want_plus && *m == 0 && *dn == Some(*ns as i64));
            if !ok {
                viol(ctx, "(t+d)-d==t / (a-b)+b==a", None, json!({"family": fam, "unit": UNITS[u as usize], "t": t, "duration": txt}),
                    format!("t+d = {want_plus}, (t+d)-d = {t}, (t+d)-t = {ns} ns, t+((t+d)-t) = {want_plus}"), format!("{got:?}"));
            }
        }
    }
}

/// the difference of any two instants of the grid - near or centuries apart - is the exact duration between
/// them: (a - b) + b == a, a - (a - b) == b, and the month-free part carries every digit of the unit
fn pair_laws(u: u8, ts: &[i64], ctx: &mut Ctx) {
    let fam = "datetime-datetime";
    let unit_ns = 1_000_000_000 / PER_SEC[u as usize] as i128;
    for &a in ts {
        ctx.states += 1;
        ctx.traces += 1;
        ctx.fam(fam).states += 1;
        ctx.nontrivial(fam, hash_u64s(&[u as u64, a as u64]));
        for &b in ts {
            ctx.transitions += 1;
            let got = by_unit!(u, U => catch(|| {
                let (x, y) = (DateTime::<U>::new(a), DateTime::<U>::new(b));
                let d = x - y;
                ((y + d).into_i64(), (x - d).into_i64(), d.months, d.inner.num_seconds() as i128 * 1_000_000_000 + d.inner.subsec_nanos() as i128)
            }));
            ctx.eval(fam, match &got { Outcome::Ok(g) => g.3 as u64, _ => 1 });
            let want_ns = (a as i128 - b as i128) * unit_ns;
            let ok = matches!(&got, Outcome::Ok((ra, rb, m, ns)) if *ra == a && *rb == b && *m == 0 && *ns == want_ns);
            if !ok {
                viol(ctx, "(a-b)+b==a / a-(a-b)==b / a-b exact", None, json!({"family": fam, "unit": UNITS[u as usize], "t": a, "b": b}),
                    format!("b+(a-b) = {a}, a-(a-b) = {b}, months 0, a-b = {want_ns} ns"), format!("{got:?}"));
            }
        }
    }
}

/// adding calendar months agrees with chrono (end-of-month clamping), both signs
fn month_laws(u: u8, ts: &[i64], ctx: &mut Ctx, kmax: i32) {
    let fam = "datetime+-months";
    for &t in ts {
        ctx.states += 1;
        ctx.fam(fam).states += 1;
        ctx.nontrivial(fam, hash_u64s(&[u as u64, t as u64, 77]));
        let c = ts_to_cr(u, t);
        for k in -kmax..=kmax {
            let want = if k >= 0 { c.checked_add_months(Months::new(k as u32)) } else { c.checked_sub_months(Months::new((-k) as u32)) };
            let want = match want.and_then(|w| if (1678..=2261).contains(&w.year()) { cr_to_ts(u, &w) } else { None }) {
                Some(w) => w,
                None => continue,
            };
            ctx.transitions += 1;
            let d = TimeDelta { months: k, inner: chrono::Duration::zero() };
            // t + d, t - (-d), and with the negative count spelt out in the duration: t - {months: -k}
            let got = by_unit!(u, U => catch(|| ((DateTime::<U>::new(t) + d).into_i64(), (DateTime::<U>::new(t) - (-d)).into_i64(), (DateTime::<U>::new(t) - TimeDelta { months: -k, inner: chrono::Duration::zero() }).into_i64())));
            ctx.eval(fam, match &got { Outcome::Ok(g) => g.0 as u64, _ => 1 });
            if !matches!(&got, Outcome::Ok((a, b, c)) if *a == want && *b == want && *c == want) {
                viol(ctx, "t + k months", None, json!({"family": fam, "unit": UNITS[u as usize], "t": t, "months": k}), format!("{want} (chrono, end-of-month clamping)"), format!("{got:?}"));
            }
        }
    }
}

/// a duration with a month count *and* a fixed part (seed round 10): both parts are applied. The calendar
/// library has no such duration, so the oracle is the decomposition into the two pure steps, each of which is
/// judged on its own (`month_laws` against the calendar library, `inverse_laws` exactly); either order of the
/// two steps is accepted.
fn mixed_laws(u: u8, ts: &[i64], ctx: &mut Ctx) {
    let fam = "datetime+-mixed";
    let unit_ns = 1_000_000_000 / PER_SEC[u as usize] as i64;
    let day = 86_400_000_000_000i64;
    for &t in ts {
        ctx.states += 1;
        ctx.fam(fam).states += 1;
        ctx.nontrivial(fam, hash_u64s(&[u as u64, t as u64, 78]));
        for k in [-13i32, -12, -1, 1, 2, 12, 13] {
            for ns in [day, -day, 7_200_000_000_000, -1_000_000_000, unit_ns, -unit_ns] {
                ctx.transitions += 1;
                let m = TimeDelta { months: k, inner: chrono::Duration::zero() };
                let i = TimeDelta { months: 0, inner: chrono::Duration::nanoseconds(ns) };
                let d = TimeDelta { months: k, inner: chrono::Duration::nanoseconds(ns) };
                let got = by_unit!(u, U => catch(|| {
                    let x = DateTime::<U>::new(t);
                    [(x + d).into_i64(), ((x + m) + i).into_i64(), ((x + i) + m).into_i64(), (x - d).into_i64(), ((x - m) - i).into_i64(), ((x - i) - m).into_i64()]
                }));
                ctx.eval(fam, match &got { Outcome::Ok(g) => g[0] as u64 ^ (g[3] as u64).rotate_left(17), _ => 1 });
                let ok = matches!(&got, Outcome::Ok(g) if (g[0] == g[1] || g[0] == g[2]) && (g[3] == g[4] || g[3] == g[5]));
                if !ok {
                    viol(ctx, "t +- (k months and a fixed part)", None, json!({"family": fam, "unit": UNITS[u as usize], "t": t, "months": k, "fixed_ns": ns}),
                        "t + d is the month step and the fixed step applied one after the other (either order); the same for t - d".into(), format!("[t+d, (t+M)+I, (t+I)+M, t-d, (t-M)-I, (t-I)-M] = {got:?}"));
                } else {
                    ctx.traces += 1;
                }
            }
        }
    }
}

/// durations form a group under + and unary -, integer scaling distributes
fn duration_group(ctx: &mut Ctx, all: &[(String, TimeDelta, i32, i128)]) {
    let fam = "duration-group";
    let zero = TimeDelta { months: 0, inner: chrono::Duration::zero() };
    let sel: Vec<&(String, TimeDelta, i32, i128)> = all.iter().step_by((all.len() / 60).max(1)).collect();
    for (sx, x, mx, nx) in all {
        ctx.states += 1;
        ctx.fam(fam).states += 1;
        ctx.nontrivial(fam, hash_bytes(sx.as_bytes()));
        let x = *x;
        // parse gave the sum of the terms
        if x.months != *mx || x.inner.num_nanoseconds() != Some(*nx as i64) {
            viol(ctx, "TimeDelta::parse (sum of terms)", None, json!({"family": fam, "x": sx}), format!("months {mx}, {nx} ns"), format!("{x:?}"));
        }
        let r = catch(|| (x + (-x) == zero, -(-x) == x, (x - x) == zero));
        ctx.eval(fam, hash_bytes(format!("{r:?}{:?}", catch(|| -x)).as_bytes()));
        if !matches!(r, Outcome::Ok((true, true, true))) {
            viol(ctx, "x+(-x)==0, -(-x)==x, x-x==0", None, json!({"family": fam, "x": sx}), "all true".into(), format!("{r:?}"));
        }
        // integer scaling is repeated addition: x*0 == 0, x*1 == x, x*(-1) == -x, x*(k+1) == x*k + x, and the
        // components of x*k are k times those of x (the duration's model is the pair (months, ns))
        for k in -4i32..=4 {
            let r = catch(|| {
                let xk = x * k;
                (xk.months as i64 == *mx as i64 * k as i64, xk.inner.num_nanoseconds().map(|v| v as i128) == Some(*nx * k as i128), x * (k + 1) == xk + x, x * (-k) == -xk)
            });
            ctx.eval(fam, hash_bytes(format!("{:?}", catch(|| x * k)).as_bytes()));
            if !matches!(r, Outcome::Ok((true, true, true, true))) {
                viol(ctx, "x*k == (k*months, k*ns), x*(k+1)==x*k+x, x*(-k)==-(x*k)", None, json!({"family": fam, "x": sx, "k": k}), "all true".into(), format!("{r:?}"));
            }
        }
        let r = catch(|| (x * 0 == zero, x * 1 == x, x * -1 == -x));
        if !matches!(r, Outcome::Ok((true, true, true))) {
            viol(ctx, "x*0==0, x*1==x, x*(-1)==-x", None, json!({"family": fam, "x": sx}), "all true".into(), format!("{r:?}"));
        }
        for (sy, y, _, _) in sel.iter().map(|t| (&t.0, t.1, t.2, t.3)) {
            ctx.transitions += 1;
            for k in [-3, 0, 2] {
                let r = catch(|| ((x + y) - y == x, (x + y) * k == x * k + y * k, x + y == y + x));
                ctx.evals += 1;
                if !matches!(r, Outcome::Ok((true, true, true))) {
                    viol(ctx, "(x+y)-y==x, (x+y)k==xk+yk, x+y==y+x", None, json!({"family": fam, "x": sx, "y": sy, "k": k}), "all true".into(), format!("{r:?}"));
                }
            }
        }
    }
}

/// truncation: greatest multiple of a month-free duration not after t; first instant of the calendar period
fn trunc_laws(u: u8, ts: &[i64], ctx: &mut Ctx) {
    let fam = "duration_trunc";
    let unit_ns = 1_000_000_000 / PER_SEC[u as usize] as i128;
    let grains: [(&str, i128); 6] = [("1s", 1_000_000_000), ("1m", 60_000_000_000), ("15m", 900_000_000_000), ("1h", 3_600_000_000_000), ("1d", 86_400_000_000_000), ("1w", 604_800_000_000_000)];
    // a wide set of month-free grains (every count 1..=60 and some larger ones, in every unit from ns to h) on a
    // subset of the instants: a fast path keyed on "the grain tiles the day / the hour" must agree with the
    // plain greatest-multiple rule for every grain, not only for the usual 1s / 1m / 15m / 1h / 1d
    let mut wide: Vec<(String, i128)> = vec![];
    for (un, uns) in [("ns", 1i128), ("us", 1_000), ("ms", 1_000_000), ("s", 1_000_000_000), ("m", 60_000_000_000), ("h", 3_600_000_000_000)] {
        for count in (1..=60i128).chain([90, 94, 100, 120, 141, 235, 360, 500, 705, 1000, 1440]) {
            let gns = count * uns;
            if gns % unit_ns == 0 {
                wide.push((format!("{count}{un}"), gns));
            }
        }
    }
    for (idx, &t) in ts.iter().enumerate() {
        ctx.states += 1;
        ctx.fam(fam).states += 1;
        ctx.nontrivial(fam, hash_u64s(&[u as u64, t as u64, 99]));
        let t_ns = t as i128 * unit_ns;
        if idx % 11 == 0 {
            for (g, gns) in &wide {
                ctx.transitions += 1;
                let d = TimeDelta::parse(g).unwrap();
                let want = (t_ns.div_euclid(*gns) * gns / unit_ns) as i64;
                let got = by_unit!(u, U => catch(|| DateTime::<U>::new(t).duration_trunc(d).into_i64()));
                ctx.eval(fam, match &got { Outcome::Ok(g) => *g as u64, _ => 1 });
                if !matches!(got, Outcome::Ok(g) if g == want) {
                    viol(ctx, "duration_trunc(month-free)", None, json!({"family": fam, "unit": UNITS[u as usize], "t": t, "grain": g}), format!("{want}"), format!("{got:?}"));
                }
            }
        }
        for (g, gns) in grains {
            ctx.transitions += 1;
            let d = TimeDelta::parse(g).unwrap();
            let want = (t_ns.div_euclid(gns) * gns / unit_ns) as i64;
            let got = by_unit!(u, U => catch(|| DateTime::<U>::new(t).duration_trunc(d).into_i64()));
            ctx.eval(fam, match &got { Outcome::Ok(g) => *g as u64, _ => 1 });
            if !matches!(got, Outcome::Ok(g) if g == want) {
                viol(ctx, "duration_trunc(month-free)", None, json!({"family": fam, "unit": UNITS[u as usize], "t": t, "grain": g}), format!("{want}"), format!("{got:?}"));
            }
        }
        let c = ts_to_cr(u, t);
        for k in [1u32, 2, 3, 4, 6, 12] {
            ctx.transitions += 1;
            let d = TimeDelta { months: k as i32, inner: chrono::Duration::zero() };
            let m0 = (c.month() - 1) / k * k + 1;
            let want = cr_to_ts(u, &NaiveDate::from_ymd_opt(c.year(), m0, 1).unwrap().and_hms_opt(0, 0, 0).unwrap().and_utc());
            let want = match want {
                Some(w) => w,
                None => continue,
            };
            let got = by_unit!(u, U => catch(|| DateTime::<U>::new(t).duration_trunc(d).into_i64()));
            ctx.eval(fam, match &got { Outcome::Ok(g) => *g as u64, _ => 1 });
            if !matches!(got, Outcome::Ok(g) if g == want) {
                // F24: month truncation uses year*12+month and never resets day and time
                viol(ctx, "duration_trunc(months)", Some("F24"), json!({"family": fam, "unit": UNITS[u as usize], "t": t, "instant": c.to_string(), "months": k}),
                    format!("{want} = {}", ts_to_cr(u, want)), match &got { Outcome::Ok(g) => format!("{g} = {}", ts_to_cr(u, *g)), o => format!("{o:?}") });
            }
        }
    }
}

fn time_of_day(ctx: &mut Ctx, full: bool) {
    let fam = "time-of-day";
    let subs: [i64; 3] = [0, 1, 999];
    let durs: Vec<(TimeDelta, i64)> = [("1ns", 1i64), ("-1us", -1_000), ("2ms", 2_000_000), ("-1s", -1_000_000_000), ("1m", 60_000_000_000), ("-1h", -3_600_000_000_000), ("1h2m3s4ms5us6ns", 3_723_004_005_006)]
        .iter()
        .map(|(s, n)| (TimeDelta::parse(s).unwrap(), *n))
        .collect();
    let mut check = |ctx: &mut Ctx, t: Time, h: i64, m: i64, s: i64, nano: i64, how: &str| {
        ctx.states += 1;
        ctx.fam(fam).states += 1;
        ctx.nontrivial(fam, hash_u64s(&[t.0 as u64]));
        let got = catch(|| (t.hour() as i64, t.minute() as i64, t.second() as i64, t.nanosecond() as i64, t.as_cr().map(|c| Time::from_cr(&c))));
        ctx.eval(fam, t.0 as u64);
        if !matches!(&got, Outcome::Ok((a, b, c, d, rt)) if (*a, *b, *c, *d) == (h, m, s, nano) && *rt == Some(t)) {
            viol(ctx, "Time components / chrono round trip", None, json!({"family": fam, "built_with": how, "h": h, "m": m, "s": s, "nanos": nano}), format!("({h},{m},{s},{nano}) and from_cr(as_cr(t)) == t"), format!("{got:?}"));
        }
        // the Timelike setters replace exactly one component (None for an out-of-range value)
        for (which, vals) in [(0u8, vec![0u32, 7, 23, 24]), (1, vec![0, 31, 59, 60]), (2, vec![0, 31, 59, 60]), (3, vec![0, 1, 999_999_999])] {
            for v in vals {
                let got = catch(|| match which {
                    0 => t.with_hour(v),
                    1 => t.with_minute(v),
                    2 => t.with_second(v),
                    _ => t.with_nanosecond(v),
                }
                .map(|n| (n.hour() as i64, n.minute() as i64, n.second() as i64, n.nanosecond() as i64)));
                let limit = [24u32, 60, 60, 1_000_000_000][which as usize];
                let mut want = [h, m, s, nano];
                want[which as usize] = v as i64;
                let want = if v < limit { Some((want[0], want[1], want[2], want[3])) } else { None };
                ctx.transitions += 1;
                if !matches!(&got, Outcome::Ok(g) if *g == want) {
                    viol(ctx, "Time::with_hour / with_minute / with_second / with_nanosecond", None, json!({"family": fam, "time": [h, m, s, nano], "component": which, "value": v}), format!("{want:?}"), format!("{got:?}"));
                }
            }
        }
        for (d, ns) in &durs {
            ctx.transitions += 1;
            let r = catch(|| ((t + *d).0, (t - *d).0));
            if !matches!(r, Outcome::Ok((a, b)) if a == t.0 + ns && b == t.0 - ns) {
                viol(ctx, "Time +- duration", None, json!({"family": fam, "time_nanos": t.0, "duration_ns": ns}), format!("{} / {}", t.0 + ns, t.0 - ns), format!("{r:?}"));
            }
        }
    };
    for h in 0..24 {
        for m in [0, 1, 30, 59] {
            for s in [0, 1, 30, 59] {
                check(ctx, Time::from_hms(h, m, s), h, m, s, 0, "from_hms");
                for x in subs {
                    check(ctx, Time::from_hms_milli(h, m, s, x), h, m, s, x * 1_000_000, "from_hms_milli");
                    check(ctx, Time::from_hms_micro(h, m, s, x), h, m, s, x * 1_000, "from_hms_micro");
                    check(ctx, Time::from_hms_nano(h, m, s, x), h, m, s, x, "from_hms_nano");
                }
            }
        }
    }
    let step = if full { 1 } else { 7 };
    for sec in (0..86_400i64).step_by(step) {
        check(ctx, Time::from_num_seconds_from_midnight(sec, 5), sec / 3600, sec / 60 % 60, sec % 60, 5, "from_num_seconds_from_midnight");
    }
}

fn main() {
    let run = Run::from_args("C17");
    let all_years: Vec<i32> = (1678..=2261).collect();
    let rep_years: Vec<i32> = if run.quick() {
        vec![1678, 1700, 1900, 1969, 1970, 1972, 2000, 2024, 2100, 2261]
    } else {
        let mut v: Vec<i32> = (1678..=2261).step_by(4).collect();
        v.extend([1700, 1800, 1900, 1968, 1969, 1970, 1971, 1972, 2000, 2023, 2024, 2100, 2200, 2260, 2261]);
        v.sort();
        v.dedup();
        v
    };
    let mf: Vec<(String, TimeDelta, i128)> = all_coefs(true)
        .iter()
        .map(duration_of)
        .filter(|(s, _, _)| !s.is_empty())
        .map(|(s, _m, ns)| {
            let d = TimeDelta::parse(&s).expect("well-formed duration");
            (s, d, ns)
        })
        .collect();
    // 27-duration core: one unit at a time, both signs, plus the all-units sums
    let core: Vec<(String, TimeDelta, i128)> = mf.iter().filter(|(s, _, _)| s.chars().filter(|c| c.is_ascii_alphabetic()).count() <= 2 || s.len() > 24).cloned().collect();
    let all_d: Vec<(String, TimeDelta, i32, i128)> = all_coefs(false)
        .iter()
        .map(duration_of)
        .filter(|(s, _, _)| !s.is_empty())
        .map(|(s, m, ns)| {
            let d = TimeDelta::parse(&s).expect("well-formed duration");
            (s, d, m, ns)
        })
        .collect();
    if let Some(path) = &run.replay {
        let stored = load_replay(path).unwrap_or_else(|e| {
            eprintln!("MACHINERY-ERROR: {e}");
            std::process::exit(2)
        });
        let mut ctx = Ctx::new();
        let case = &stored["case"];
        let u = UNITS.iter().position(|x| Some(*x) == case["unit"].as_str()).unwrap_or(3) as u8;
        let t = [case["t"].as_i64().unwrap_or(0)];
        match case["family"].as_str().unwrap_or("") {
            "duration_trunc" => trunc_laws(u, &t, &mut ctx),
            "datetime+-months" => month_laws(u, &t, &mut ctx, 1200),
            "datetime+-mixed" => mixed_laws(u, &t, &mut ctx),
            "datetime+-duration" => inverse_laws(u, &t, &mf, &mut ctx),
            "datetime-datetime" => pair_laws(u, &[t[0], case["b"].as_i64().unwrap_or(0)], &mut ctx),
            "duration-group" => duration_group(&mut ctx, &all_d),
            _ => time_of_day(&mut ctx, true),
        }
        std::process::exit(finish_replay(&run, &stored, ctx));
    }
    // work items: (kind, unit)
    let items: Vec<(u8, u8)> = (0..5u8).flat_map(|k| (0..4u8).map(move |u| (k, u))).collect();
    let mut total = par_items(&items, run.threads, |(kind, u), ctx| match kind {
        0 => inverse_laws(*u, &instants(*u, &all_years), &core, ctx),
        1 => inverse_laws(*u, &instants(*u, &rep_years), &mf, ctx),
        2 => {
            let eom: Vec<i64> = instants(*u, &rep_years[..rep_years.len().min(8)]);
            month_laws(*u, &eom, ctx, if run.quick() { 240 } else { 1200 });
            mixed_laws(*u, &eom, ctx);
        }
        3 => trunc_laws(*u, &instants(*u, &all_years), ctx),
        _ => {
            let years: Vec<i32> = if run.quick() { vec![1678, 1700, 1969, 1970, 2000, 2200, 2261] } else { rep_years.iter().cloned().step_by(3).chain([1678, 1969, 1970, 2261]).collect() };
            pair_laws(*u, &instants(*u, &years), ctx)
        }
    });
    let mut c = Ctx::new();
    duration_group(&mut c, &all_d[..if run.quick() { all_d.len().min(6000) } else { all_d.len() }]);
    time_of_day(&mut c, !run.quick());
    total.merge(c);
    total.sample(json!({"law": "(t+d)-d == t", "unit": "ms", "t": "2024-02-29 12:34:56.789", "d": "-1w2d-1h2m-1s2ms", "holds": true}));
    total.sample(json!({"law": "duration_trunc(3mo)", "t": "2023-05-15 14:30:45", "model": "2023-04-01 00:00:00"}));
    let meta = Meta {
        rule: "instants: Jan 1, Feb 28/29, Mar 1, Apr 30, Dec 31 of the listed years at 00:00:00, 12:34:56.789 and 23:59:59.999999999 (truncated to the unit) in all four units; durations: every assignment of a coefficient from {-1,0,+2} to each of the ten units (parsed by TimeDelta::parse), month-free ones applied to instants ((t+d)-d==t, (a-b)+b==a), all of them for the group laws (x+(-x)==0, -(-x)==x, (x+y)-y==x, distributivity of integer scaling, commutativity); month counts -k..=k against chrono's checked_add/sub_months; truncation to 1s,1m,15m,1h,1d,1w (i128 floor multiple) and to 1,2,3,4,6,12 months (first instant of the calendar period); times of day built from components (h 0..24, m/s in {0,1,30,59}, sub-second {0,1,999} in milli/micro/nano, whole seconds of the day). Non-trivial = distinct instants / durations / times. Also the difference of every pair of grid instants in every unit: (a-b)+b == a, a-(a-b) == b, a-b exact (datetime-datetime; DESIGN 5.15). Round 10 (DESIGN 5.19): datetime+-mixed - durations with a month count and a fixed part: t +- d equals the month step and the fixed step applied one after the other (either order accepted). Round 11 (DESIGN 5.20): t - {months: -k} next to t - (-d) in the month family.".into(),
        bounds: json!({"years_all": "1678..=2261", "years_for_full_duration_set": rep_years, "month_free_durations": mf.len(), "core_durations": core.len(), "all_durations": all_d.len(), "month_counts": if run.quick() {240} else {1200}}),
        assumptions: vec![
            "inverse laws are claimed for durations that are whole multiples of the date-time's unit (a finer duration is truncated on every step)".into(),
            "operands inside the nanosecond calendar range (1678..2262); chrono is the oracle for calendar months".into(),
        ],
        exhaustive: true,
        min_states: 1000,
    };
    std::process::exit(finish(&run, meta, total));
}
