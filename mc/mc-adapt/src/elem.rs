//! Element encodings (DESIGN 3.4) and decoding of output containers into cells.
use mc_core::Cell;
use std::collections::VecDeque;

pub type X = Option<f64>;

/// An element type a logical word can be encoded into / decoded from.
pub trait Elem: Clone + Send + Sync + 'static {
    const NAME: &'static str;
    /// the type has a null value (NaN / None)
    const NULLABLE: bool;
    /// only integral values are representable
    const INTEGER: bool;
    fn enc(x: X) -> Self;
    fn dec(&self) -> Cell;
}

macro_rules! elem_float {
    ($t:ty, $n:expr) => {
        impl Elem for $t {
            const NAME: &'static str = $n;
            const NULLABLE: bool = true;
            const INTEGER: bool = false;
            fn enc(x: X) -> Self {
                match x {
                    Some(v) => v as $t,
                    None => <$t>::NAN,
                }
            }
            fn dec(&self) -> Cell {
                Cell::f(*self as f64)
            }
        }
        impl Elem for Option<$t> {
            const NAME: &'static str = concat!("Option<", $n, ">");
            const NULLABLE: bool = true;
            const INTEGER: bool = false;
            fn enc(x: X) -> Self {
                x.map(|v| v as $t)
            }
            fn dec(&self) -> Cell {
                match self {
                    // canonical nulls only are generated; an observed Some(NaN) is reported as null
                    Some(v) => Cell::f(*v as f64),
                    None => Cell::Null,
                }
            }
        }
    };
}
elem_float!(f64, "f64");
elem_float!(f32, "f32");

macro_rules! elem_int {
    ($t:ty, $n:expr) => {
        impl Elem for $t {
            const NAME: &'static str = $n;
            const NULLABLE: bool = false;
            const INTEGER: bool = true;
            fn enc(x: X) -> Self {
                x.expect("null encoded into a non-nullable type") as $t
            }
            fn dec(&self) -> Cell {
                Cell::I(*self as i64)
            }
        }
        impl Elem for Option<$t> {
            const NAME: &'static str = concat!("Option<", $n, ">");
            const NULLABLE: bool = true;
            const INTEGER: bool = true;
            fn enc(x: X) -> Self {
                x.map(|v| v as $t)
            }
            fn dec(&self) -> Cell {
                match self {
                    Some(v) => Cell::I(*v as i64),
                    None => Cell::Null,
                }
            }
        }
    };
}
elem_int!(i32, "i32");
elem_int!(i64, "i64");
elem_int!(usize, "usize");
elem_int!(u64, "u64");

impl Elem for bool {
    const NAME: &'static str = "bool";
    const NULLABLE: bool = false;
    const INTEGER: bool = true;
    fn enc(x: X) -> Self {
        x.unwrap() != 0.0
    }
    fn dec(&self) -> Cell {
        Cell::B(*self)
    }
}
impl Elem for Option<bool> {
    const NAME: &'static str = "Option<bool>";
    const NULLABLE: bool = true;
    const INTEGER: bool = true;
    fn enc(x: X) -> Self {
        x.map(|v| v != 0.0)
    }
    fn dec(&self) -> Cell {
        match self {
            Some(b) => Cell::B(*b),
            None => Cell::Null,
        }
    }
}

/// can this logical word be encoded into T?
pub fn encodable<T: Elem>(word: &[X]) -> bool {
    word.iter().all(|x| match x {
        None => T::NULLABLE,
        Some(v) => !T::INTEGER || v.fract() == 0.0,
    })
}

pub fn enc_vec<T: Elem>(word: &[X]) -> Vec<T> {
    word.iter().map(|x| T::enc(*x)).collect()
}

/// Decoding of a finished output container by plain std iteration (not through tevec's traits).
pub trait OutCells {
    fn cells(&self) -> Vec<Cell>;
}
impl<T: Elem> OutCells for Vec<T> {
    fn cells(&self) -> Vec<Cell> {
        self.iter().map(|x| x.dec()).collect()
    }
}
impl<T: Elem> OutCells for VecDeque<T> {
    fn cells(&self) -> Vec<Cell> {
        self.iter().map(|x| x.dec()).collect()
    }
}
impl<T: Elem> OutCells for ndarray::Array1<T> {
    fn cells(&self) -> Vec<Cell> {
        self.iter().map(|x| x.dec()).collect()
    }
}
macro_rules! out_ca {
    ($pt:ty, $t:ty) => {
        impl OutCells for polars::prelude::ChunkedArray<$pt> {
            fn cells(&self) -> Vec<Cell> {
                self.into_iter().map(|x: Option<$t>| x.dec()).collect()
            }
        }
    };
}
out_ca!(polars::prelude::Float64Type, f64);
out_ca!(polars::prelude::Float32Type, f32);
out_ca!(polars::prelude::Int32Type, i32);
out_ca!(polars::prelude::Int64Type, i64);

/// triples produced by ts_vregx_all
impl<T: Elem> OutCells for Vec<(T, T, T)> {
    fn cells(&self) -> Vec<Cell> {
        self.iter().flat_map(|(a, b, c)| [a.dec(), b.dec(), c.dec()]).collect()
    }
}

/// (defined here, outside the tevec prelude, which shadows Iterator::any/all/sum/max/count)
pub fn has_null(x: &[X]) -> bool {
    x.iter().any(|v| v.is_none())
}
