//! C04 — rolling covariance, correlation and regressions equal per-window least squares.
use mc_adapt::roll::*;
use mc_checks::rollcheck::*;
use mc_checks::*;

fn classify2(c: &PairInfo) -> Option<String> {
    // F05: ts_vcov evaluates n-1 on usize with n = 0 (no pairwise-complete observation, min_periods 0)
    if c.f == R2::Cov && c.got.is_panic() && c.mp.map_or(c.w / 2, |m| m.min(c.w)) == 0 {
        return Some("F05".into());
    }
    None
}
fn classify1(c: &CaseInfo) -> Option<String> {
    // F04: ts_vreg_resid_mean uses n*sum(t^2) where sum(t^2) is needed
    if c.f == R1::ResidMean && !c.got.is_panic() {
        return Some("F04".into());
    }
    None
}

fn all2() -> Vec<R2> {
    let mut v = V2_ALL.to_vec();
    v.extend([R2::All(0), R2::All(1), R2::All(2)]);
    v
}

fn main() {
    let run = Run::from_args("C04");
    let pa: Vec<X> = vec![None, Some(0.0), Some(1.0), Some(3.0)];
    let pairs = PairFam {
        name: "pairs-deep".into(),
        alpha: pa.clone(),
        max_len: run.pick(4, 5),
        fns: all2(),
        tys: vec![ty_v2::<f64, f64, f64>()],
        paths: vec![Path::Ret],
        law: Law::ValueUndef,
        w_lo: 2,
        w_extra: 2,
        scales: vec![(1.0 / 8192.0, 1.0 / 8192.0), (1024.0, 1.0 / 8192.0), (1.0 / 8192.0, 1024.0)],
        classify: classify2,
    };
    let pairs_m = PairFam {
        name: "pairs-matrix".into(),
        alpha: pa.clone(),
        max_len: run.pick(3, 4),
        fns: all2(),
        tys: vec![
            ty_v2::<i32, f64, f64>(),
            ty_v2::<Option<f64>, f64, f64>(),
            ty_v2::<f64, Option<i32>, Option<f64>>(),
            ty_v2::<f32, f32, f32>(),
        ],
        paths: vec![Path::Ret, Path::Buf],
        law: Law::ValueUndef,
        w_lo: 2,
        w_extra: 2,
        scales: vec![],
        classify: classify2,
    };
    let trend = SeriesFam {
        name: "trend".into(),
        alpha: if run.quick() { alphabet5(run.seed) } else { alphabet6() },
        max_len: run.pick(6, 7),
        plain: false,
        fns: V1_REG.to_vec(),
        tys: vec![ty_v1::<f64, f64>(), ty_v1::<Option<f64>, Option<f64>>(), ty_v1::<Option<i32>, f64>()],
        paths: vec![Path::Ret],
        law: Law::ValueUndef,
        w_lo: 2,
        w_extra: 2,
        min_len: 0,
        scales: vec![1.0 / 8192.0, 1024.0],
        cfg_ok: cfg_all,
        classify: classify1,
    };
    // collinear family: y = a + b x, x every arrangement of distinct values of {0..4} (length <= 5, <= 1 null)
    let col = PairFam { name: "collinear".into(), max_len: 0, ..clone_pair(&pairs) };
    let mut col_items: Vec<(Vec<X>, Vec<X>)> = vec![];
    for l in 2..=run.pick(4, 5) {
        // arrangements: permutations of l distinct values out of 0..5
        let mut seen = std::collections::HashSet::new();
        for_permutations(5, &mut |p| {
            let xs: Vec<u8> = p[..l].to_vec();
            if !seen.insert(xs.clone()) {
                return;
            }
            for null_at in std::iter::once(None).chain((0..l).map(Some)) {
                for a in -2..=2 {
                    for b in -2..=2 {
                        let x: Vec<X> = xs.iter().enumerate().map(|(i, v)| if Some(i) == null_at { None } else { Some(*v as f64) }).collect();
                        let y: Vec<X> = xs.iter().map(|v| Some(a as f64 + b as f64 * *v as f64)).collect();
                        col_items.push((y, x));
                    }
                }
            }
        });
    }
    // narrow element types at magnitude (50001^2 exceeds i32 and is not an f32): every product and square
    // has to be formed in f64, for the regressand and for the regressor
    let narrow_alpha: Vec<X> = vec![None, Some(1.0), Some(3.0), Some(50001.0), Some(-50001.0)];
    let pairs_narrow = PairFam {
        name: "pairs-narrow".into(),
        alpha: narrow_alpha.clone(),
        max_len: run.pick(3, 4),
        tys: vec![ty_v2::<f64, i32, f64>(), ty_v2::<i32, f64, f64>(), ty_v2::<i32, i32, f64>(), ty_v2::<f32, f32, f64>(), ty_v2::<f64, f32, f64>(), ty_v2::<i64, i64, f64>(), ty_v2::<Option<i32>, Option<i32>, f64>()],
        scales: vec![],
        // the well-conditioned statistics only: residual statistics of a near-exact fit at this magnitude
        // are differences of sums of order 10^10 (DESIGN 5.2)
        fns: vec![R2::Cov, R2::Corr, R2::Alpha, R2::Beta],
        ..clone_pair(&pairs)
    };
    let trend_narrow = SeriesFam {
        name: "trend-narrow".into(),
        alpha: narrow_alpha.clone(),
        max_len: run.pick(4, 5),
        tys: vec![ty_v1::<i32, f64>(), ty_v1::<f32, f64>(), ty_v1::<i64, f64>(), ty_v1::<Option<i32>, f64>()],
        scales: vec![],
        fns: vec![R1::Reg, R1::Tsf, R1::Slope, R1::Intercept],
        ..trend.nan_kinds(0)
    };
    // every NaN is the same null (DESIGN 5.4)
    let pairs_nan = pairs.nan_kinds(run.pick(3, 4));
    let trend_nan = trend.nan_kinds(run.pick(5, 6));
    if let Some(path) = &run.replay {
        let stored = load_replay(path).unwrap_or_else(|e| {
            eprintln!("MACHINERY-ERROR: {e}");
            std::process::exit(2)
        });
        let mut ctx = Ctx::new();
        let case = &stored["case"];
        let fam = case["family"].as_str().unwrap_or("");
        let word = syms_from_json(&case["word"]);
        if fam == "trend" {
            trend.check_word(&word, &mut ctx);
        } else if fam == pairs_narrow.name {
            pairs_narrow.check_word(&word, &mut ctx);
        } else if fam == trend_narrow.name {
            trend_narrow.check_word(&word, &mut ctx);
        } else if fam == pairs_nan.name {
            pairs_nan.check_word(&word, &mut ctx);
        } else if fam == trend_nan.name {
            trend_nan.check_word(&word, &mut ctx);
        } else {
            let (a, b) = (word_from_json(&case["first"]), word_from_json(&case["second"]));
            for f in [&pairs, &pairs_m, &col] {
                if f.name == fam {
                    f.check_pair(&word, &a, &b, &mut ctx);
                }
            }
        }
        std::process::exit(finish_replay(&run, &stored, ctx));
    }
    let mut total = explore_tree(&pairs, run.threads);
    total.merge(explore_tree(&pairs_nan, run.threads));
    total.merge(explore_tree(&pairs_narrow, run.threads));
    total.merge(explore_tree(&trend_narrow, run.threads));
    total.merge(explore_tree(&trend_nan, run.threads));
    total.merge(explore_tree(&pairs_m, run.threads));
    total.merge(explore_tree(&trend, run.threads));
    {
        let balpha: Vec<X> = vec![None, Some(0.0), Some(1.0), Some(3.0)];
        let bw = all_words_upto(balpha.len(), run.pick(4, 5));
        let bfns: Vec<R1> = V1_REG.to_vec();
        let bfns2: Vec<R2> = V2_ALL.to_vec();
        total.merge(par_items(&bw, run.threads, |w, ctx| {
            ctx.states += 1;
            check_backends_value("backends", &bfns, &bfns2, Law::Value, w, &balpha, cfg_all, ctx)
        }));
    }
    {
        let mut t = Ctx::new();
        check_structured_pairs(&pairs, !run.quick(), &mut t);
        total.merge(t);
        total.merge(check_structured_par(&trend, !run.quick(), 1, run.threads));
    }
    total.merge(par_items(&col_items, run.threads, |(y, x), ctx| {
        ctx.states += 1;
        ctx.transitions += 1;
        ctx.traces += 1;
        col.check_pair(&[], y, x, ctx);
        // a perfect linear window has zero residual: checked directly, independent of the model
        if x.iter().all(|v| v.is_some()) && x.len() >= 3 {
            let w = x.len();
            for (f, what) in [(R2::ResidMean, "resid_mean"), (R2::ResidStd, "resid_std"), (R2::All(2), "SSE")] {
                if let Some(Outcome::Ok(c)) = run_v2::<f64, f64, f64>(f, y, x, w, Some(2), Path::Ret) {
                    let last = c.last().unwrap();
                    let ok = last.num().map_or(false, |v| v.abs() <= 1e-9);
                    if !ok {
                        ctx.violation(Violation {
                            entry: r2_name(f),
                            finding: None,
                            size: w * 100,
                            case: json!({"family": "collinear", "word": [], "first": json_word(y), "second": json_word(x), "w": w, "mp": 2}),
                            expected: format!("{what} = 0 on a perfect linear window"),
                            got: last.show(),
                        });
                    }
                }
            }
        }
    }));
    let meta = Meta {
        rule: "pair history tree over {null,0,1,3}^2 (16 pair symbols, every word), single-series tree for the time-trend family, collinear family y=a+b*x; every window 2..=len+2, every min_periods; every output position compared with OLS / covariance recomputed from the pairwise-complete window. Non-trivial = at least one complete pair (resp. non-null element). Configuration families (DESIGN 5.15, 5.16): the value law on every input back end (backends); NaN kinds; narrow element types at magnitude in both roles (pairs-narrow: covariance, correlation, alpha, beta on {null,1,3,+-50001}; trend-narrow). Round 8 (DESIGN 5.17): the backends family also with the *second* series in every back-end configuration (first in a Vec); structured pairs of 1030 / 2100 elements.".into(),
        bounds: json!({
            "pairs": {"alphabet": json_word(&pa), "L_deep": pairs.max_len, "L_matrix": pairs_m.max_len,
                      "types": pairs_m.tys.iter().map(|t| t.name.clone()).chain(pairs.tys.iter().map(|t| t.name.clone())).collect::<Vec<_>>()},
            "trend": {"alphabet": json_word(&trend.alpha), "L": trend.max_len},
            "collinear_cases": col_items.len(),
            "entry_points_2": all2().iter().map(|f| r2_name(*f)).collect::<Vec<_>>(),
            "entry_points_trend": V1_REG.iter().map(|f| r1_name(*f, true)).collect::<Vec<_>>(),
            "window": "2..=len+2", "min_periods": "{omitted} U 0..=w",
        }),
        assumptions: vec![
            "exact small alphabets (DESIGN 3.1); Tol = 1e-9 relative".into(),
            "skewness of the residuals of an exact fit (rounding noise) is left open (DESIGN 5.6)".into(),
            "warm-up positions are judged by C05".into(),
        ],
        exhaustive: true,
        min_states: 1000,
    };
    std::process::exit(finish(&run, meta, total));
}

fn clone_pair(p: &PairFam) -> PairFam {
    PairFam {
        name: p.name.clone(),
        alpha: p.alpha.clone(),
        max_len: p.max_len,
        fns: p.fns.clone(),
        tys: p.tys.clone(),
        paths: p.paths.clone(),
        law: p.law,
        w_lo: p.w_lo,
        w_extra: p.w_extra,
        scales: p.scales.clone(),
        classify: p.classify,
    }
}
