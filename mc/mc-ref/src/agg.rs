//! reference model: aggregations on the non-null elements (C11), textbook two-pass definitions.
use crate::roll::Exp;
use crate::stats;
use crate::X;

#[derive(Clone, Copy, Debug, PartialEq)]
pub enum AggOp {
    CountValid,
    CountNone,
    /// count of elements equal to the value (null counts nulls) — null-aware form
    VCountValue(X),
    VFirst,
    VLast,
    VSum,
    VMean,
    /// (mean, variance) with min_periods
    VMeanVar(usize),
    VVar(usize),
    VStd(usize),
    VSkew(usize),
    VKurt(usize),
    VMax,
    VMin,
    VArgmax,
    VArgmin,
    /// two-series
    VCov(usize),
    VCorr(usize),
    /// masked: second series is the mask (non-zero = true, null = skip)
    NVSumFilter,
    NSumFilter,
    VMeanFilter(usize),
    // plain forms (null-free input)
    CountValue(f64),
    First,
    Last,
    Sum,
    Mean,
    NSum,
    Max,
    Min,
    Argmax,
    Argmin,
}

impl AggOp {
    pub fn name(&self) -> &'static str {
        use AggOp::*;
        match self {
            CountValid => "count_valid",
            CountNone => "count_none",
            VCountValue(_) => "vcount_value",
            VFirst => "vfirst",
            VLast => "vlast",
            VSum => "vsum",
            VMean => "vmean",
            VMeanVar(_) => "vmean_var",
            VVar(_) => "vvar",
            VStd(_) => "vstd",
            VSkew(_) => "vskew",
            VKurt(_) => "vkurt",
            VMax => "vmax",
            VMin => "vmin",
            VArgmax => "vargmax",
            VArgmin => "vargmin",
            VCov(_) => "vcov",
            VCorr(_) => "vcorr_pearson",
            NVSumFilter => "n_vsum_filter",
            NSumFilter => "n_sum_filter",
            VMeanFilter(_) => "vmean_filter",
            CountValue(_) => "count_value",
            First => "first",
            Last => "last",
            Sum => "sum",
            Mean => "mean",
            NSum => "n_sum",
            Max => "max",
            Min => "min",
            Argmax => "argmax",
            Argmin => "argmin",
        }
    }
    pub fn binary(&self) -> bool {
        matches!(self, AggOp::VCov(_) | AggOp::VCorr(_) | AggOp::NVSumFilter | AggOp::NSumFilter | AggOp::VMeanFilter(_))
    }
    /// invariant under any permutation of the input
    pub fn symmetric(&self) -> bool {
        use AggOp::*;
        !matches!(self, VFirst | VLast | First | Last | VArgmax | VArgmin | Argmax | Argmin)
    }
    pub fn plain(&self) -> bool {
        use AggOp::*;
        matches!(self, CountValue(_) | First | Last | Sum | Mean | NSum | Max | Min | Argmax | Argmin)
    }
}

fn valid(x: &[X]) -> Vec<f64> {
    x.iter().filter_map(|v| *v).collect()
}
fn fold_max(v: &[f64]) -> f64 {
    v.iter().cloned().fold(f64::NEG_INFINITY, f64::max)
}
fn fold_min(v: &[f64]) -> f64 {
    v.iter().cloned().fold(f64::INFINITY, f64::min)
}
fn e(v: f64) -> Exp {
    Exp::val(v)
}

/// model value(s) of an aggregation; `y` is the second series / mask for binary operations
pub fn agg_model(op: AggOp, x: &[X], y: &[X]) -> Vec<Exp> {
    use AggOp::*;
    let v = valid(x);
    let n = v.len();
    match op {
        CountValid => vec![e(n as f64)],
        CountNone => vec![e((x.len() - n) as f64)],
        VCountValue(t) => vec![e(match t {
            None => (x.len() - n) as f64,
            Some(t) => v.iter().filter(|a| **a == t).count() as f64,
        })],
        VFirst | First => vec![v.first().map_or(Exp::NULL, |a| e(*a))],
        VLast | Last => vec![v.last().map_or(Exp::NULL, |a| e(*a))],
        VSum | Sum => vec![if n == 0 { Exp::NULL } else { e(stats::sum(&v)) }],
        VMean | Mean => vec![Exp::of(stats::mean(&v))],
        NSum => vec![e(n as f64), if n == 0 { Exp::NULL } else { e(stats::sum(&v)) }],
        VMeanVar(mp) => {
            if n < mp.max(2) {
                // variance needs two observations; the mean is reported together with it (null pair)
                if n >= mp.max(1) && n < 2 {
                    // a single observation: mean defined, variance not
                    vec![Exp { null_ok: true, val: stats::mean(&v), warm: false, any: false }, Exp::NULL]
                } else {
                    vec![Exp::NULL, Exp::NULL]
                }
            } else {
                vec![Exp::of(stats::mean(&v)), Exp::of(stats::var(&v))]
            }
        }
        VVar(mp) => vec![if n < mp.max(2) { Exp::NULL } else { Exp::of(stats::var(&v)) }],
        VStd(mp) => vec![if n < mp.max(2) { Exp::NULL } else { Exp::of(stats::std(&v)) }],
        VSkew(mp) => vec![if n < mp.max(3) {
            Exp::NULL
        } else if stats::is_constant(&v) {
            Exp::either(0.0)
        } else {
            Exp::of(stats::skew(&v))
        }],
        VKurt(mp) => vec![if n < mp.max(4) {
            Exp::NULL
        } else if stats::is_constant(&v) {
            Exp::either(0.0)
        } else {
            Exp::of(stats::kurt(&v))
        }],
        VMax | Max => vec![if n == 0 { Exp::NULL } else { e(fold_max(&v)) }],
        VMin | Min => vec![if n == 0 { Exp::NULL } else { e(fold_min(&v)) }],
        VArgmax | Argmax | VArgmin | Argmin => {
            if n == 0 {
                return vec![Exp::NULL];
            }
            let ext = if matches!(op, VArgmax | Argmax) { fold_max(&v) } else { fold_min(&v) };
            // index of the FIRST occurrence in the original series
            vec![e(x.iter().position(|a| *a == Some(ext)).unwrap() as f64)]
        }
        CountValue(t) => vec![e(v.iter().filter(|a| **a == t).count() as f64)],
        VCov(mp) | VCorr(mp) => {
            let (a, b) = crate::roll::pairs(x, y);
            if a.len() < mp.max(2) {
                vec![Exp::NULL]
            } else if matches!(op, VCov(_)) {
                vec![Exp::of(stats::cov(&a, &b))]
            } else {
                vec![Exp::of(stats::corr(&a, &b))]
            }
        }
        NVSumFilter | NSumFilter | VMeanFilter(_) => {
            // elements whose mask is non-null and true, then the non-null ones of those
            let sel: Vec<f64> = x.iter().zip(y).filter(|(_, m)| matches!(m, Some(t) if *t != 0.0)).filter_map(|(a, _)| *a).collect();
            let k = sel.len();
            match op {
                NVSumFilter => vec![e(k as f64), e(stats::sum(&sel))],
                NSumFilter => vec![if k == 0 { Exp::NULL } else { e(stats::sum(&sel)) }],
                // (an infinite observation makes the mean infinite, not null)
                VMeanFilter(mp) => vec![if k < mp.max(1) { Exp::NULL } else { stats::mean(&sel).map_or(Exp::NULL, |m| if m.is_nan() { Exp::NULL } else { e(m) }) }],
                _ => unreachable!(),
            }
        }
    }
}
