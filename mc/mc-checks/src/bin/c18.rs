//! C18 — parsers are total and round-trip with their formatters.
use chrono::{NaiveDate, NaiveDateTime};
use mc_checks::*;
use tevec::prelude::unit::{Microsecond, Millisecond, Nanosecond, Second};
use tevec::prelude::{DateTime, Time, TimeDelta};

const UNITS: [&str; 4] = ["s", "ms", "us", "ns"];
const FORMATS: [&str; 11] = [
    "%Y-%m-%d %H:%M:%S",
    "%Y-%m-%d %H:%M:%S.%f",
    "%Y-%m-%d",
    "%Y%m%d",
    "%Y%m%d %H%M%S",
    "%d/%m/%Y",
    "%d/%m/%Y H%M%S",
    "%Y%m%d%H%M%S",
    "%d/%m/%YH%M%S",
    "%Y/%m/%d",
    "%Y/%m/%d %H:%M:%S",
];

fn viol(ctx: &mut Ctx, entry: &str, finding: Option<&str>, case: Value, expected: String, got: String) {
    ctx.violation(Violation { entry: entry.into(), finding: finding.map(|s| s.into()), size: case.to_string().len(), case, expected, got });
}

fn strings_upto(alpha: &[char], max_len: usize) -> Vec<Vec<u8>> {
    all_words_upto(alpha.len(), max_len)
}
fn to_string(w: &[u8], alpha: &[char]) -> String {
    w.iter().map(|i| alpha[*i as usize]).collect()
}

// ---------------------------------------------------------------- (a) totality of TimeDelta::parse
const TD_ALPHA: [char; 14] = ['1', '9', '0', '-', '+', 'd', 'm', 'o', 's', 'y', 'x', ' ', '.', 'é'];

fn td_total(s: &str, fam: &str, ctx: &mut Ctx) {
    let r = catch(|| TimeDelta::parse(s).map(|d| (d.months, d.inner.num_nanoseconds())).map_err(|_| ()));
    ctx.eval(fam, match &r { Outcome::Ok(Ok(v)) => hash_bytes(format!("{v:?}").as_bytes()), Outcome::Ok(Err(())) => 1, Outcome::Panic(_) => 2 });
    // the FromStr / From<&str> / Cast<TimeDelta> routes are the same parser
    let key = |d: TimeDelta| (d.months, d.inner.num_nanoseconds());
    let via_fromstr = catch(|| s.parse::<TimeDelta>().map(key).map_err(|_| ()));
    let mut agree = matches!((&r, &via_fromstr), (Outcome::Ok(a), Outcome::Ok(b)) if a == b) || (r.is_panic() && via_fromstr.is_panic());
    if let Outcome::Ok(Ok(v)) = &r {
        let via_from = catch(|| key(TimeDelta::from(s)));
        let via_cast = catch(|| key(tevec::prelude::Cast::<TimeDelta>::cast(s)));
        let via_cast_string = catch(|| key(tevec::prelude::Cast::<TimeDelta>::cast(s.to_string())));
        agree &= matches!((&via_from, &via_cast, &via_cast_string), (Outcome::Ok(a), Outcome::Ok(b), Outcome::Ok(c)) if a == v && b == v && c == v);
    }
    if !agree {
        viol(ctx, "TimeDelta: FromStr / From<&str> / Cast agree with parse", None, json!({"family": fam, "input": s}), format!("{r:?}"), format!("{via_fromstr:?}"));
    }
    if let Outcome::Panic(m) = r {
        // F25: unwrap() on the integer parse / unchecked arithmetic in TimeDelta::parse
        viol(ctx, "TimeDelta::parse (totality)", Some("F25"), json!({"family": fam, "input": s}), "a value or an error".into(), format!("PANIC({})", truncate(&m, 100)));
    }
}

// ---------------------------------------------------------------- (b) well-formed duration words
const UNIT_NAMES: [&str; 10] = ["ns", "us", "ms", "s", "m", "h", "d", "w", "mo", "y"];
const UNIT_NS: [i128; 8] = [1, 1_000, 1_000_000, 1_000_000_000, 60_000_000_000, 3_600_000_000_000, 86_400_000_000_000, 604_800_000_000_000];

#[derive(Clone)]
struct Term {
    text: String,
    months: i128,
    ns: i128,
}
fn term(sign: &str, n: i128, unit: usize) -> Term {
    let v = if sign == "-" { -n } else { n };
    let (months, ns) = match unit {
        8 => (v, 0),
        9 => (12 * v, 0),
        u => (0, v * UNIT_NS[u]),
    };
    Term { text: format!("{sign}{n}{}", UNIT_NAMES[unit]), months, ns }
}
fn check_wellformed(terms: &[&Term], fam: &str, ctx: &mut Ctx) {
    let s: String = terms.iter().map(|t| t.text.as_str()).collect();
    let months: i128 = terms.iter().map(|t| t.months).sum();
    let ns: i128 = terms.iter().map(|t| t.ns).sum();
    // chrono's Duration holds up to i64::MAX milliseconds
    let representable = months.abs() < i32::MAX as i128 && ns.abs() < (i64::MAX as i128 / 1000) * 1_000_000_000;
    let r = catch(|| TimeDelta::parse(&s).map(|d| (d.months as i128, Some(d.inner.num_seconds() as i128 * 1_000_000_000 + d.inner.subsec_nanos() as i128))).map_err(|_| ()));
    ctx.eval(fam, hash_bytes(format!("{r:?}").as_bytes()));
    let ok = match &r {
        Outcome::Ok(Ok((m, Some(n)))) => *m == months && *n == ns,
        Outcome::Ok(Err(())) => !representable,
        _ => false,
    };
    if !ok {
        // F25: unchecked arithmetic (panic), or the month count silently truncated with `as i32`
        let f25 = r.is_panic() || !representable;
        viol(ctx, "TimeDelta::parse (well-formed)", if f25 { Some("F25") } else { None }, json!({"family": fam, "input": s}), format!("months {months}, {ns} ns{}", if representable { "" } else { " or Err (overflow)" }), format!("{r:?}"));
    }
}

// ---------------------------------------------------------------- (c) date-time strings
const DT_ALPHA: [char; 12] = ['2', '0', '1', '9', '-', '/', ':', ' ', '.', 'T', 'a', 'é'];
/// the edits also insert characters of three and four bytes
const DT_EDIT_ALPHA: [char; 14] = ['2', '0', '1', '9', '-', '/', ':', ' ', '.', 'T', 'a', 'é', '€', '😀'];

macro_rules! by_unit {
    ($u:expr, $U:ident => $body:expr) => {
        match $u {
            0 => {
                type $U = Second;
                $body
            }
            1 => {
                type $U = Millisecond;
                $body
            }
            2 => {
                type $U = Microsecond;
                $body
            }
            _ => {
                type $U = Nanosecond;
                $body
            }
        }
    };
}

fn dt_parse(u: u8, s: &str, fmt: Option<&str>) -> Outcome<Result<i64, ()>> {
    by_unit!(u, U => catch(|| DateTime::<U>::parse(s, fmt).map(|d| d.into_i64()).map_err(|_| ())))
}
fn dt_total(u: u8, s: &str, fmt: Option<&str>, fam: &str, ctx: &mut Ctx) {
    let r = dt_parse(u, s, fmt);
    if fmt.is_none() {
        // FromStr (and, for accepted strings, Cast<DateTime<U>> from &str / String) are the same parser
        let via_fromstr: Outcome<Result<i64, ()>> = by_unit!(u, U => catch(|| s.parse::<DateTime<U>>().map(|d| d.into_i64()).map_err(|_| ())));
        let mut agree = matches!((&r, &via_fromstr), (Outcome::Ok(a), Outcome::Ok(b)) if a == b) || (r.is_panic() && via_fromstr.is_panic());
        if let Outcome::Ok(Ok(v)) = &r {
            let via_cast: Outcome<(i64, i64)> = by_unit!(u, U => catch(|| (tevec::prelude::Cast::<DateTime<U>>::cast(s).into_i64(), tevec::prelude::Cast::<DateTime<U>>::cast(s.to_string()).into_i64())));
            agree &= matches!(&via_cast, Outcome::Ok((a, b)) if a == v && b == v);
        }
        if !agree {
            viol(ctx, "DateTime: FromStr / Cast agree with parse", None, json!({"family": fam, "unit": UNITS[u as usize], "input": s}), format!("{r:?}"), format!("{via_fromstr:?}"));
        }
    }
    ctx.eval(fam, match &r { Outcome::Ok(Ok(v)) => *v as u64, Outcome::Ok(Err(())) => 1, Outcome::Panic(_) => 2 });
    if let Outcome::Panic(m) = r {
        // F26: DateTime<Nanosecond> conversion from chrono expects the instant to fit in i64 nanoseconds
        let f26 = u == 3 && m.contains("nanosecond");
        viol(ctx, "DateTime::parse (totality)", if f26 { Some("F26") } else { None }, json!({"family": fam, "unit": UNITS[u as usize], "input": s, "format": fmt}), "a value or an error".into(), format!("PANIC({})", truncate(&m, 100)));
    }
}
fn ts_of(u: u8, c: &NaiveDateTime) -> Option<i64> {
    let c = c.and_utc();
    match u {
        0 => Some(c.timestamp()),
        1 => Some(c.timestamp_millis()),
        2 => Some(c.timestamp_micros()),
        _ => c.timestamp_nanos_opt(),
    }
}

fn instants(quick: bool) -> Vec<NaiveDateTime> {
    let mut v = vec![];
    let years: Vec<i32> = if quick { vec![1678, 1899, 1969, 1970, 2000, 2024, 2261] } else { (1678..=2261).step_by(11).chain([1969, 1970, 2000, 2024, 2261]).collect() };
    for y in years {
        for (m, d) in [(1, 1), (2, 28), (7, 4), (12, 31)] {
            for (h, mi, s, ns) in [(0, 0, 0, 0u32), (1, 2, 3, 4), (12, 34, 56, 789_000_000), (23, 59, 59, 999_999_999), (10, 0, 9, 26_490_000)] {
                v.push(NaiveDate::from_ymd_opt(y, m, d).unwrap().and_hms_nano_opt(h, mi, s, ns).unwrap());
            }
        }
    }
    // the edges of the nanosecond range: the first and the last representable instants, the first partial
    // second (floor-seconds times 10^9 leaves i64 there although the instant does not), the second after it
    for ns in [i64::MIN + 1, i64::MIN + 2, i64::MIN + 1000, -9_223_372_036_000_000_001, -9_223_372_036_000_000_000, -9_223_372_035_999_999_999, i64::MAX, i64::MAX - 1, 9_223_372_036_000_000_000, 9_223_372_036_000_000_001] {
        v.push(chrono::DateTime::from_timestamp_nanos(ns).naive_utc());
    }
    v
}

/// formats a caller may pass explicitly (not in the library's list): composite (%T, %R, %c, %F, %D, %X), padding
/// modified (%-H, %_H, %e, %k), 12-hour, day-of-year, compact, unix-timestamp specifiers
const CALLER_FORMATS: [&str; 16] = [
    "%Y-%m-%d %T",
    "%F %T",
    "%F %R",
    "%c",
    "%Y-%m-%d %-H:%-M:%-S",
    "%Y-%m-%d %_H:%_M:%_S",
    "%Y/%m/%e %k:%M:%S",
    "%s",
    "%Y-%m-%dT%H:%M:%S%.f",
    "%d.%m.%Y %H.%M.%S",
    "%Y%m%d%H%M%S",
    "%Y-%m-%d %I:%M:%S %p",
    "%Y-%j %T",
    "%F %X",
    "%D %T",
    "%Y-%m-%d %H:%M",
];

/// explicit caller formats: the library's formatter writes the instant with the format, the parser is given the
/// same format; what the (text, format) pair denotes is decided by the calendar library (a date-time, else a date)
fn check_caller_formats(c: &NaiveDateTime, ctx: &mut Ctx) {
    let fam = "datetime-caller-formats";
    ctx.states += 1;
    ctx.fam(fam).states += 1;
    ctx.nontrivial(fam, hash_bytes(c.to_string().as_bytes()));
    for u in 0..4u8 {
        let t = match ts_of(u, c) {
            Some(t) => t,
            None => continue,
        };
        for f in CALLER_FORMATS {
            if f.contains("%D") && !(1969..=2068).contains(&chrono::Datelike::year(c)) {
                continue; // two-digit years denote 1969..2068 only
            }
            let text = match by_unit!(u, U => catch(|| DateTime::<U>::new(t).strftime(Some(f)))) {
                Outcome::Ok(s) => s,
                Outcome::Panic(m) => {
                    viol(ctx, "strftime(Some(format))", None, json!({"family": fam, "unit": UNITS[u as usize], "t": t, "format": f}), "a text".into(), format!("PANIC({})", truncate(&m, 100)));
                    continue;
                }
            };
            let carried = match NaiveDateTime::parse_from_str(&text, f) {
                Ok(dt) => dt,
                Err(_) => match chrono::NaiveDate::parse_from_str(&text, f) {
                    Ok(d) => d.and_hms_opt(0, 0, 0).unwrap(),
                    Err(_) => continue, // the pair denotes nothing for the calendar library either
                },
            };
            let want = match ts_of(u, &carried) {
                Some(w) => w,
                None => continue,
            };
            ctx.transitions += 1;
            let r = dt_parse(u, &text, Some(f));
            ctx.eval(fam, hash_bytes(format!("{r:?}").as_bytes()));
            if !matches!(r, Outcome::Ok(Ok(g)) if g == want) {
                viol(ctx, "parse(strftime(t, format), format)", None, json!({"family": fam, "unit": UNITS[u as usize], "t": t, "text": text, "format": f}), format!("{want}"), format!("{r:?}"));
            }
        }
    }
}

fn check_datetime_roundtrip(c: &NaiveDateTime, edits: bool, ctx: &mut Ctx) {
    let fam = "datetime-roundtrip";
    ctx.states += 1;
    ctx.fam(fam).states += 1;
    ctx.nontrivial(fam, hash_bytes(c.to_string().as_bytes()));
    for u in 0..4u8 {
        let t = match ts_of(u, c) {
            Some(t) => t,
            None => continue,
        };
        // default formatter -> default parser
        let text = by_unit!(u, U => DateTime::<U>::new(t).strftime(None));
        ctx.transitions += 1;
        let r = dt_parse(u, &text, None);
        ctx.eval(fam, hash_bytes(format!("{r:?}").as_bytes()));
        if !matches!(r, Outcome::Ok(Ok(g)) if g == t) {
            viol(ctx, "parse(strftime(t)) == t", None, json!({"family": fam, "unit": UNITS[u as usize], "t": t, "text": text}), format!("{t}"), format!("{r:?}"));
        }
        // every listed format: the text carries date / second / nanosecond information
        for f in FORMATS {
            let text = c.format(f).to_string();
            // two listed formats spell the hour as a literal 'H': without %H the text carries a date only
            let carried = if !f.contains("%H") {
                c.date().and_hms_opt(0, 0, 0).unwrap()
            } else if f.contains("%f") {
                *c
            } else {
                c.date().and_hms_opt(chrono::Timelike::hour(c), chrono::Timelike::minute(c), chrono::Timelike::second(c)).unwrap()
            };
            let want = match ts_of(u, &carried) {
                Some(w) => w,
                None => continue,
            };
            ctx.transitions += 1;
            for fmt in [None, Some(f)] {
                let r = dt_parse(u, &text, fmt);
                ctx.eval(fam, hash_bytes(format!("{r:?}").as_bytes()));
                if !matches!(r, Outcome::Ok(Ok(g)) if g == want) {
                    viol(ctx, "parse of a listed format", None, json!({"family": fam, "unit": UNITS[u as usize], "text": text, "format_used_to_write": f, "format_given": fmt}), format!("{want}"), format!("{r:?}"));
                }
            }
            if edits && u >= 2 {
                // every single-character edit of the text: totality
                let chars: Vec<char> = text.chars().collect();
                for pos in 0..=chars.len() {
                    for e in 0..(1 + 2 * DT_EDIT_ALPHA.len()) {
                        let mut x = chars.clone();
                        if e == 0 {
                            if pos < x.len() {
                                x.remove(pos);
                            } else {
                                continue;
                            }
                        } else if e <= DT_EDIT_ALPHA.len() {
                            x.insert(pos, DT_EDIT_ALPHA[e - 1]);
                        } else if pos < x.len() {
                            x[pos] = DT_EDIT_ALPHA[e - 1 - DT_EDIT_ALPHA.len()];
                        } else {
                            continue;
                        }
                        let s: String = x.into_iter().collect();
                        ctx.transitions += 1;
                        dt_total(u, &s, None, "datetime-edits", ctx);
                    }
                }
            }
        }
    }
}

/// characters of one to four bytes for the edit families
const EDIT_ALPHA: [char; 12] = ['0', '9', ':', '.', ' ', '-', 'a', 'd', 'é', '€', '😀', '\u{0}'];
fn for_single_edits(text: &str, alpha: &[char], f: &mut dyn FnMut(&str)) {
    let chars: Vec<char> = text.chars().collect();
    for pos in 0..=chars.len() {
        if pos < chars.len() {
            let mut x = chars.clone();
            x.remove(pos);
            f(&x.into_iter().collect::<String>());
        }
        for a in alpha {
            let mut x = chars.clone();
            x.insert(pos, *a);
            f(&x.into_iter().collect::<String>());
            if pos < chars.len() {
                let mut x = chars.clone();
                x[pos] = *a;
                f(&x.into_iter().collect::<String>());
            }
        }
    }
}
fn time_total(s: &str, fmt: Option<&str>, fam: &str, ctx: &mut Ctx) {
    let r = catch(|| Time::parse(s, fmt).map(|t| t.0).map_err(|_| ()));
    if fmt.is_none() {
        let via_fromstr = catch(|| s.parse::<Time>().map(|t| t.0).map_err(|_| ()));
        if !(matches!((&r, &via_fromstr), (Outcome::Ok(a), Outcome::Ok(b)) if a == b) || (r.is_panic() && via_fromstr.is_panic())) {
            viol(ctx, "Time: FromStr agrees with parse", None, json!({"family": fam, "input": s}), format!("{r:?}"), format!("{via_fromstr:?}"));
        }
    }
    ctx.eval(fam, match &r { Outcome::Ok(Ok(v)) => *v as u64, Outcome::Ok(Err(())) => 1, _ => 2 });
    if r.is_panic() {
        viol(ctx, "Time::parse (totality)", None, json!({"family": fam, "input": s, "format": fmt}), "a value or an error".into(), format!("{r:?}"));
    }
}

/// the coarser units reach far beyond the four-digit years (seed round 10): the default formatter and the default
/// parser still round-trip there (the calendar library writes such years with a sign)
fn check_far_years(ctx: &mut Ctx) {
    let fam = "datetime-far-years";
    for y in [-262_143i32, -99_999, -10_000, -9_999, -1_000, -1, 0, 1, 99, 999, 1_000, 9_999, 10_000, 10_001, 12_345, 99_999, 100_000, 262_142] {
        for (m, d, h, mi, sec, ns) in [(1u32, 1u32, 0u32, 0u32, 0u32, 0u32), (2, 28, 12, 34, 56, 789_000_000), (12, 31, 23, 59, 59, 999_999_000)] {
            let c = match NaiveDate::from_ymd_opt(y, m, d).and_then(|x| x.and_hms_nano_opt(h, mi, sec, ns)) {
                Some(c) => c,
                None => continue,
            };
            ctx.states += 1;
            ctx.fam(fam).states += 1;
            ctx.nontrivial(fam, hash_bytes(c.to_string().as_bytes()));
            for u in 0..3u8 {
                let t = match ts_of(u, &c) {
                    Some(t) => t,
                    None => continue,
                };
                ctx.transitions += 1;
                let text = by_unit!(u, U => catch(|| DateTime::<U>::new(t).strftime(None)));
                let text = match text {
                    Outcome::Ok(t) => t,
                    Outcome::Panic(m) => {
                        viol(ctx, "strftime(None) (far year)", None, json!({"family": fam, "unit": UNITS[u as usize], "t": t}), "a text".into(), format!("PANIC({})", truncate(&m, 100)));
                        continue;
                    }
                };
                let r = dt_parse(u, &text, None);
                ctx.eval(fam, hash_bytes(format!("{r:?}").as_bytes()));
                if !matches!(r, Outcome::Ok(Ok(g)) if g == t) {
                    viol(ctx, "parse(strftime(t)) == t (far year)", None, json!({"family": fam, "unit": UNITS[u as usize], "t": t, "text": text}), format!("{t}"), format!("{r:?}"));
                } else {
                    ctx.traces += 1;
                }
            }
        }
    }
}

fn check_time_parse(ctx: &mut Ctx, max_len: usize) {
    let fam = "time";
    for h in [0u32, 1, 12, 23] {
        for m in [0u32, 7, 59] {
            for s in [0u32, 30, 59] {
                for ns in [0u32, 1, 500_000_000, 999_999_999, 26_490_000] {
                    let c = chrono::NaiveTime::from_hms_nano_opt(h, m, s, ns).unwrap();
                    let want = (h as i64 * 3600 + m as i64 * 60 + s as i64) * 1_000_000_000 + ns as i64;
                    for (text, fmt) in [(c.to_string(), None), (c.format("%H:%M:%S%.f").to_string(), Some("%H:%M:%S%.f")), (c.format("%H:%M:%S%.9f").to_string(), None)] {
                        ctx.states += 1;
                        ctx.fam(fam).states += 1;
                        ctx.transitions += 1;
                        ctx.nontrivial(fam, hash_bytes(text.as_bytes()));
                        let r = catch(|| Time::parse(&text, fmt).map(|t| t.0).map_err(|_| ()));
                        ctx.eval(fam, hash_bytes(format!("{r:?}").as_bytes()));
                        if !matches!(r, Outcome::Ok(Ok(g)) if g == want) {
                            viol(ctx, "Time::parse round trip", None, json!({"family": fam, "text": text, "format": fmt}), format!("{want}"), format!("{r:?}"));
                        }
                    }
                }
            }
        }
    }
    // every single-character edit (delete / insert / substitute, characters of 1, 2, 3 and 4 bytes) of
    // well-formed time texts with fractions of 0 .. 12 digits: totality, FromStr agrees (seed round 9)
    let mut texts: Vec<String> = vec![];
    for (h, m, sec) in [(0u32, 0u32, 0u32), (12, 34, 56), (23, 59, 59), (7, 5, 9)] {
        for frac in ["", ".5", ".123", ".123456", ".12345678", ".123456789", ".1234567891", ".123456789012"] {
            texts.push(format!("{h:02}:{m:02}:{sec:02}{frac}"));
        }
        texts.push(format!("{h:02}:{m:02}"));
        texts.push(format!("{h}:{m}:{sec}"));
    }
    for text in &texts {
        ctx.fam("time-edits").states += 1;
        for_single_edits(text, &EDIT_ALPHA, &mut |s| {
            ctx.states += 1;
            ctx.transitions += 1;
            ctx.nontrivial("time-edits", hash_bytes(s.as_bytes()));
            time_total(s, None, "time-edits", ctx);
            time_total(s, Some("%H:%M:%S%.f"), "time-edits", ctx);
        });
    }
    let alpha = ['1', '2', '0', '9', ':', '.', ' ', 'a', 'é', '-'];
    for w in strings_upto(&alpha, max_len) {
        let s = to_string(&w, &alpha);
        ctx.states += 1;
        ctx.transitions += 1;
        for fmt in [None, Some("%H:%M:%S"), Some("%H%M")] {
            let r = catch(|| Time::parse(&s, fmt).map(|t| t.0).map_err(|_| ()));
            if fmt.is_none() {
                let via_fromstr = catch(|| s.parse::<Time>().map(|t| t.0).map_err(|_| ()));
                if !(matches!((&r, &via_fromstr), (Outcome::Ok(a), Outcome::Ok(b)) if a == b) || (r.is_panic() && via_fromstr.is_panic())) {
                    viol(ctx, "Time: FromStr agrees with parse", None, json!({"family": "time-totality", "input": s}), format!("{r:?}"), format!("{via_fromstr:?}"));
                }
            }
            ctx.eval("time-totality", match &r { Outcome::Ok(Ok(v)) => *v as u64, Outcome::Ok(Err(())) => 1, _ => 2 });
            if r.is_panic() {
                viol(ctx, "Time::parse (totality)", None, json!({"family": "time-totality", "input": s, "format": fmt}), "a value or an error".into(), format!("{r:?}"));
            }
        }
    }
}

fn main() {
    let run = Run::from_args("C18");
    let td_len = run.pick(5, 7);
    let dt_len = run.pick(4, 6);
    if let Some(path) = &run.replay {
        let stored = load_replay(path).unwrap_or_else(|e| {
            eprintln!("MACHINERY-ERROR: {e}");
            std::process::exit(2)
        });
        let mut ctx = Ctx::new();
        let case = &stored["case"];
        let input = case["input"].as_str().or(case["text"].as_str()).unwrap_or("");
        match case["family"].as_str().unwrap_or("") {
            f if f.starts_with("timedelta") => {
                td_total(input, "timedelta-totality", &mut ctx);
                // well-formed words are replayed through the totality / value check of the same text
                let r = TimeDelta::parse(input);
                let _ = r;
            }
            "datetime-far-years" => check_far_years(&mut ctx),
            f if f.starts_with("datetime") => {
                let u = UNITS.iter().position(|x| Some(*x) == case["unit"].as_str()).unwrap_or(3) as u8;
                dt_total(u, input, case["format"].as_str().or(case["format_given"].as_str()), "datetime-totality", &mut ctx);
                for c in instants(false) {
                    if ctx.buckets.is_empty() {
                        check_datetime_roundtrip(&c, false, &mut ctx);
                        check_caller_formats(&c, &mut ctx);
                    }
                }
            }
            _ => check_time_parse(&mut ctx, 3),
        }
        if stored["entry"].as_str().unwrap_or("").contains("well-formed") {
            // rebuild the expectation from the text itself
            let mut ctx2 = Ctx::new();
            wellformed_all(&run, &mut ctx2, Some(input));
            ctx.merge(ctx2);
        }
        std::process::exit(finish_replay(&run, &stored, ctx));
    }
    // (a) totality over all short strings, sharded by first symbol pair
    let words = strings_upto(&TD_ALPHA, 2);
    let mut total = par_items(&words, run.threads, |prefix, ctx| {
        let fam = "timedelta-totality";
        ctx.fam(fam).states += 1;
        if prefix.len() < 2 {
            ctx.states += 1;
            ctx.nontrivial(fam, hash_bytes(prefix));
            td_total(&to_string(prefix, &TD_ALPHA), fam, ctx);
            return;
        }
        for_words_upto(TD_ALPHA.len(), td_len - 2, &mut |rest| {
            let mut w = prefix.clone();
            w.extend_from_slice(rest);
            ctx.states += 1;
            ctx.transitions += 1;
            ctx.nontrivial(fam, hash_bytes(&w));
            td_total(&to_string(&w, &TD_ALPHA), fam, ctx);
        });
        ctx.traces += 1;
    });
    let mut c = Ctx::new();
    for s in ["9223372036854775807d", "99999999999999999999d", "9223372036854775807ns", "-9223372036854775808ns", "4294967297mo", "2147483648mo", "200000000y", "9223372036854775807s", "1h 30m", "--3d", "abc", "é1d", "1d\u{0}", "１d"] {
        c.states += 1;
        td_total(s, "timedelta-probes", &mut c);
    }
    // every single-character edit of well-formed duration texts (characters of 1 .. 4 bytes): totality, the
    // wrapper routes agree (seed round 9)
    for text in ["1d", "-12mo3h", "+7w-1000ns", "1y2mo3w4d5h6m", "10us20ms30s", "0d"] {
        c.fam("timedelta-edits").states += 1;
        for_single_edits(text, &EDIT_ALPHA, &mut |s| {
            c.states += 1;
            c.transitions += 1;
            c.nontrivial("timedelta-edits", hash_bytes(s.as_bytes()));
            td_total(s, "timedelta-edits", &mut c);
        });
    }
    // (b) well-formed words
    wellformed_all(&run, &mut c, None);
    // long well-formed words (DESIGN 5.14): 17 .. 300 terms cycling through every unit and both signs
    for k in [17usize, 64, 255, 256, 257, 300] {
        for phase in 0..10usize {
            for amount in [1i128, 59, 1000] {
                let terms: Vec<Term> = (0..k).map(|i| term(["", "-", "+"][(i + phase) % 3], amount + (i % 4) as i128, (i + phase) % 10)).collect();
                let refs: Vec<&Term> = terms.iter().collect();
                c.states += 1;
                c.transitions += 1;
                c.fam("timedelta-long").states += 1;
                c.nontrivial("timedelta-long", (k * 1000 + phase * 10) as u64 + amount as u64);
                check_wellformed(&refs, "timedelta-long", &mut c);
                // and the same string through the totality / wrapper checks
                let text: String = terms.iter().map(|t| t.text.as_str()).collect();
                td_total(&text, "timedelta-long", &mut c);
            }
        }
    }
    // zero-padded numerals (a numeral longer than an i64 has digits is still a well-formed integer)
    for pad in [1usize, 5, 18, 19, 20, 21, 25, 40] {
        for (sign, n) in [("", 0i128), ("", 7), ("-", 90), ("+", 1), ("", 9_223_372_036_854i128)] {
            for unit in [0usize, 3, 6, 8] {
                let mut t = term(sign, n, unit);
                t.text = format!("{sign}{}{n}{}", "0".repeat(pad), UNIT_NAMES[unit]);
                let lead = term("", 2, 9);
                let tail = term("-", 3, 5);
                for terms in [vec![&t], vec![&lead, &t, &tail]] {
                    c.states += 1;
                    c.transitions += 1;
                    c.fam("timedelta-padded").states += 1;
                    c.nontrivial("timedelta-padded", hash_bytes(format!("{pad}{sign}{n}{unit}{}", terms.len()).as_bytes()));
                    check_wellformed(&terms, "timedelta-padded", &mut c);
                }
            }
        }
    }
    total.merge(c);
    // (c) date-time totality over short strings, round trips, edits
    let dwords = strings_upto(&DT_ALPHA, dt_len);
    total.merge(par_items(&dwords, run.threads, |w, ctx| {
        let s = to_string(w, &DT_ALPHA);
        ctx.states += 1;
        ctx.transitions += 1;
        ctx.fam("datetime-totality").states += 1;
        ctx.nontrivial("datetime-totality", hash_bytes(w));
        for u in [0u8, 3] {
            dt_total(u, &s, None, "datetime-totality", ctx);
        }
        for fmt in ["%Y", "%Y-%m-%d", "%", "%Q", "%H:%M", ""] {
            dt_total(3, &s, Some(fmt), "datetime-totality", ctx);
        }
    }));
    let inst = instants(run.quick());
    let n_edit = run.pick(12, 120);
    let idx: Vec<usize> = (0..inst.len()).collect();
    total.merge(par_items(&idx, run.threads, |i, ctx| {
        check_datetime_roundtrip(&inst[*i], *i % (inst.len() / n_edit).max(1) == 0, ctx);
        check_caller_formats(&inst[*i], ctx);
        ctx.traces += 1;
    }));
    let mut c = Ctx::new();
    for s in ["3000-01-01", "1600-01-01 00:00:00", "2262-04-12", "9999-12-31 23:59:59", "0000-01-01", "-0001-01-01", "+12345-01-01", "2020-01-01", "20200101", "1969-12-31 23:59:59"] {
        for u in 0..4u8 {
            c.states += 1;
            dt_total(u, s, None, "datetime-totality", &mut c);
        }
    }
    check_time_parse(&mut c, run.pick(3, 4));
    check_far_years(&mut c);
    c.sample(json!({"parser": "TimeDelta::parse", "input": "-2y1mo-1w2d", "model": "months -23, ns (-7+2)*86400e9"}));
    c.sample(json!({"parser": "DateTime::parse", "input": "2024-02-29 12:34:56.789000000", "unit": "ms", "model": 1709210096789i64}));
    total.merge(c);
    let meta = Meta {
        rule: "(a) every string of length 0..=L over the 14-character token alphabet plus overflow probes through TimeDelta::parse: a value or an error, never a panic; (b) well-formed duration words (all sequences of 1..3 signed terms over numbers {0,1,7,12,1000} x ten units, unit sequences of length 4..6 with position-determined numbers and alternating signs): months / nanoseconds equal the i128 sum of the terms, Err only on overflow; (c) every string of length <= Ld over a 12-character alphabet through DateTime::parse (default and explicit, also malformed, formats), every lattice instant written with strftime(None) and each of the 11 listed formats and parsed back at all four units (incl. pre-epoch), every single-character edit (delete / insert / substitute) of those texts for totality; (d) the same for Time::parse. Non-trivial = distinct input strings / instants. Also (DESIGN 5.15, 5.16): 16 caller-made formats written by strftime(Some(fmt)) and parsed back with the same format (datetime-caller-formats; the calendar library decides what the pair denotes); the edges of the nanosecond range among the instants. Round 9 (DESIGN 5.18): every single-character edit (delete / insert / substitute, characters of 1, 2, 3 and 4 bytes) of well-formed time-of-day texts with fractions of 0..12 digits (time-edits) and of well-formed duration texts (timedelta-edits); the date-time edits insert 3- and 4-byte characters too. Round 10 (DESIGN 5.19): datetime-far-years - years -262143 .. 262142 (signed and five / six digit years) in the units s, ms, us through the default formatter and parser.".into(),
        bounds: json!({"timedelta_totality_len": td_len, "datetime_totality_len": dt_len, "instants": inst.len(), "instants_with_all_single_edits": n_edit, "formats": FORMATS}),
        assumptions: vec!["lenient but total parses (\"\", \"5\", \"1d2\", \"d\") are accepted: the property only forbids panics and wrong values for well-formed words (DESIGN 5.6)".into(), "chrono is the oracle for calendar values".into()],
        exhaustive: true,
        min_states: 1000,
    };
    std::process::exit(finish(&run, meta, total));
}

fn wellformed_all(run: &Run, c: &mut Ctx, only: Option<&str>) {
    let fam = "timedelta-wellformed";
    let mut terms: Vec<Term> = vec![];
    for sign in ["", "+", "-"] {
        for n in [0i128, 1, 7, 12, 1000] {
            for u in 0..10 {
                terms.push(term(sign, n, u));
            }
        }
    }
    let mut go = |c: &mut Ctx, ts: &[&Term]| {
        if let Some(o) = only {
            let s: String = ts.iter().map(|t| t.text.as_str()).collect();
            if s != o {
                return;
            }
        }
        c.states += 1;
        c.transitions += ts.len() as u64;
        c.fam(fam).states += 1;
        check_wellformed(ts, fam, c);
    };
    for a in &terms {
        go(c, &[a]);
        for b in &terms {
            go(c, &[a, b]);
        }
    }
    // three terms: full product in the thorough tier, reduced numbers / signs in the quick tier
    let third: Vec<&Term> = if run.quick() { terms.iter().filter(|t| !t.text.starts_with('+') && (t.text.contains("12") || t.text.trim_start_matches('-').starts_with('1') && !t.text.contains("1000"))).collect() } else { terms.iter().collect() };
    for a in &third {
        for b in &third {
            for d in &third {
                go(c, &[a, b, d]);
            }
        }
    }
    c.nontrivial(fam, terms.len() as u64);
    // unit sequences of length 4..6, position-determined numbers, alternating signs
    for l in 4..=run.pick(5, 6) {
        for_words_exact(10, l, &mut |w| {
            let ts: Vec<Term> = w.iter().enumerate().map(|(i, u)| term(if i % 2 == 1 { "-" } else { "" }, (i as i128 + 1) * 3, *u as usize)).collect();
            let refs: Vec<&Term> = ts.iter().collect();
            go(c, &refs);
        });
    }
    // overflow of the documented representation: value or Err, never a wrong value
    for (n, u) in [(i64::MAX as i128, 3usize), (i64::MAX as i128 / 1000, 2), (4_294_967_297, 8), (2_147_483_648, 8), (200_000_000, 9), (9_223_372_036, 3), (9_223_372_037, 3), (106_751, 6), (106_752, 6)] {
        let t = term("", n, u);
        go(c, &[&t]);
        let t = term("-", n, u);
        go(c, &[&t]);
    }
}
