//! Reference model of the rolling families: each statistic recomputed from scratch on the window.
//! Encodes the sentences of C01, C03, C04, C05.
use crate::stats;
use crate::X;

/// What the model accepts at one output position.
#[derive(Clone, Debug, PartialEq)]
pub struct Exp {
    /// null (NaN / None) is an acceptable output
    pub null_ok: bool,
    /// this value is an acceptable output (up to the comparator of the property)
    pub val: Option<f64>,
    /// null because the window holds fewer valid observations than min_periods / the intrinsic minimum
    /// (warm-up, judged by C05) as opposed to null because the statistic is undefined on the window
    pub warm: bool,
    /// the property leaves this output open (e.g. skewness of the rounding noise left by an exact fit)
    pub any: bool,
}
impl Exp {
    pub const NULL: Exp = Exp { null_ok: true, val: None, warm: false, any: false };
    pub const WARM: Exp = Exp { null_ok: true, val: None, warm: true, any: false };
    pub const ANY: Exp = Exp { null_ok: true, val: None, warm: false, any: true };
    pub fn val(v: f64) -> Exp {
        Exp { null_ok: false, val: Some(v), warm: false, any: false }
    }
    pub fn either(v: f64) -> Exp {
        Exp { null_ok: true, val: Some(v), warm: false, any: false }
    }
    pub fn of(v: Option<f64>) -> Exp {
        match v {
            Some(x) if x.is_finite() => Exp::val(x),
            _ => Exp::NULL,
        }
    }
    pub fn show(&self) -> String {
        if self.any {
            return "any".into();
        }
        match (self.null_ok, self.val) {
            (true, None) => "null".into(),
            (false, Some(v)) => format!("{v:?}"),
            (true, Some(v)) => format!("null|{v:?}"),
            (false, None) => "<nothing>".into(),
        }
    }
}

#[derive(Clone, Copy, Debug, PartialEq)]
pub enum R1 {
    Sum,
    Mean,
    Ewm,
    Wma,
    Std,
    Var,
    Skew,
    Kurt,
    Min,
    Max,
    Argmin,
    Argmax,
    Rank { pct: bool, rev: bool },
    Zscore,
    Minmax,
    Reg,
    Tsf,
    Slope,
    Intercept,
    ResidMean,
    Fdiff(f64),
}

impl R1 {
    /// intrinsic minimum number of valid observations
    pub fn k_min(&self) -> usize {
        match self {
            R1::Sum | R1::Fdiff(_) => 0,
            R1::Mean | R1::Ewm | R1::Wma | R1::Min | R1::Max | R1::Argmin | R1::Argmax | R1::Rank { .. } | R1::Minmax => 1,
            R1::Std | R1::Var | R1::Zscore | R1::Reg | R1::Tsf | R1::Slope | R1::Intercept | R1::ResidMean => 2,
            R1::Skew => 3,
            R1::Kurt => 4,
        }
    }
    /// extrema / rank family: window clamped to the series length before the default is derived
    pub fn is_cmp(&self) -> bool {
        matches!(self, R1::Min | R1::Max | R1::Argmin | R1::Argmax | R1::Rank { .. })
    }
}

pub fn window(x: &[X], i: usize, w: usize) -> &[X] {
    let start = (i + 1).saturating_sub(w);
    &x[start..=i]
}
pub fn valid(win: &[X]) -> Vec<f64> {
    win.iter().filter_map(|v| *v).collect()
}

/// effective min_periods (C05): omitted means floor(w/2); the feature families clamp to w
pub fn mp_eff(f: R1, w: usize, mp: Option<usize>) -> usize {
    if f.is_cmp() {
        mp.unwrap_or(w / 2)
    } else {
        mp.unwrap_or(w / 2).min(w)
    }
}

/// The model value of statistic `f` on one window (`win` = elements max(0,i-w+1)..=i).
pub fn expect1(f: R1, win: &[X], w: usize, mp: Option<usize>) -> Exp {
    let v = valid(win);
    let n = v.len();
    if n < mp_eff(f, w, mp).max(f.k_min()) {
        return Exp::WARM;
    }
    let cur = *win.last().unwrap();
    match f {
        R1::Sum => Exp::val(stats::sum(&v)),
        R1::Mean => Exp::of(stats::mean(&v)),
        R1::Ewm => {
            let alpha = 2.0 / w as f64;
            let (mut num, mut den) = (0.0, 0.0);
            for k in 0..n {
                let wt = (1.0 - alpha).powi(k as i32);
                num += wt * v[n - 1 - k];
                den += wt;
            }
            if den == 0.0 {
                Exp::NULL
            } else {
                Exp::val(num / den)
            }
        }
        R1::Wma => {
            let mut num = 0.0;
            for (k, x) in v.iter().enumerate() {
                num += (k + 1) as f64 * x;
            }
            Exp::val(num / ((n * (n + 1)) / 2) as f64)
        }
        R1::Var => Exp::of(stats::var(&v)),
        R1::Std => Exp::of(stats::std(&v)),
        R1::Skew => {
            if stats::is_constant(&v) {
                Exp::either(0.0) // DESIGN 5.6
            } else {
                Exp::of(stats::skew(&v))
            }
        }
        R1::Kurt => {
            if stats::is_constant(&v) {
                Exp::either(0.0)
            } else {
                Exp::of(stats::kurt(&v))
            }
        }
        R1::Min => Exp::val(v.iter().cloned().fold(f64::INFINITY, f64::min)),
        R1::Max => Exp::val(v.iter().cloned().fold(f64::NEG_INFINITY, f64::max)),
        R1::Argmin | R1::Argmax => {
            let ext = if f == R1::Argmin {
                v.iter().cloned().fold(f64::INFINITY, f64::min)
            } else {
                v.iter().cloned().fold(f64::NEG_INFINITY, f64::max)
            };
            // most recent position holding the extreme, 1-based offset from the window start
            let pos = win.iter().rposition(|x| *x == Some(ext)).unwrap();
            Exp::val((pos + 1) as f64)
        }
        R1::Rank { pct, rev } => match cur {
            None => Exp::NULL,
            Some(c) => {
                let less = v.iter().filter(|x| **x < c).count() as f64;
                let eq = v.iter().filter(|x| **x == c).count() as f64;
                let asc = less + (eq + 1.0) / 2.0;
                let r = if rev { n as f64 + 1.0 - asc } else { asc };
                Exp::val(if pct { r / n as f64 } else { r })
            }
        },
        R1::Minmax => match cur {
            None => Exp::NULL,
            Some(c) => {
                let mn = v.iter().cloned().fold(f64::INFINITY, f64::min);
                let mx = v.iter().cloned().fold(f64::NEG_INFINITY, f64::max);
                if mx == mn {
                    Exp::NULL
                } else {
                    Exp::val((c - mn) / (mx - mn))
                }
            }
        },
        R1::Zscore => match cur {
            None => Exp::NULL,
            Some(c) => match stats::std(&v) {
                Some(s) if s > 0.0 && !stats::is_constant(&v) => Exp::val((c - stats::mean(&v).unwrap()) / s),
                _ => Exp::NULL,
            },
        },
        R1::Reg | R1::Tsf | R1::Slope | R1::Intercept | R1::ResidMean => {
            let t: Vec<f64> = (1..=n).map(|k| k as f64).collect();
            match stats::ols(&v, &t) {
                None => Exp::NULL,
                Some((a, b)) => match f {
                    R1::Reg => Exp::val(a + b * n as f64),
                    R1::Tsf => Exp::val(a + b * (n as f64 + 1.0)),
                    R1::Slope => Exp::val(b),
                    R1::Intercept => Exp::val(a),
                    _ => {
                        let r = stats::residuals(&v, &t, a, b);
                        let sse: f64 = r.iter().map(|e| e * e).sum();
                        Exp::val(sse / n as f64)
                    }
                },
            }
        }
        R1::Fdiff(d) => {
            // weight (-1)^k C(d,k) on the k-th most recent (non-null) element
            let mut s = 0.0;
            for k in 0..n {
                let sign = if k % 2 == 0 { 1.0 } else { -1.0 };
                s += sign * stats::binom(d, k) * v[n - 1 - k];
            }
            Exp::val(s)
        }
    }
}

/// Model output of a whole series for a single-series rolling function.
pub fn model1(f: R1, x: &[X], w: usize, mp: Option<usize>) -> Vec<Exp> {
    // extrema / rank family clamps the window to the series length first (DESIGN 5.3)
    let w_eff = if f.is_cmp() { w.min(x.len()).max(1) } else { w };
    (0..x.len()).map(|i| expect1(f, window(x, i, w), w_eff, mp)).collect()
}

#[derive(Clone, Copy, Debug, PartialEq)]
pub enum R2 {
    Cov,
    Corr,
    Alpha,
    Beta,
    ResidMean,
    ResidStd,
    ResidSkew,
    /// component 0 = alpha, 1 = beta, 2 = SSE of `ts_vregx_all`
    All(u8),
}
impl R2 {
    pub fn k_min(&self) -> usize {
        match self {
            R2::ResidSkew => 3,
            _ => 2,
        }
    }
}

pub fn pairs(a: &[X], b: &[X]) -> (Vec<f64>, Vec<f64>) {
    let mut va = vec![];
    let mut vb = vec![];
    for (x, y) in a.iter().zip(b) {
        if let (Some(x), Some(y)) = (x, y) {
            va.push(*x);
            vb.push(*y);
        }
    }
    (va, vb)
}

/// two-series statistics on the pairwise-complete observations of the window; first series is
/// regressed on the second.
pub fn expect2(f: R2, wa: &[X], wb: &[X], w: usize, mp: Option<usize>) -> Exp {
    let (y, x) = pairs(wa, wb);
    let n = y.len();
    let mpe = mp.unwrap_or(w / 2).min(w);
    if n < mpe.max(f.k_min()) {
        return Exp::WARM;
    }
    match f {
        R2::Cov => Exp::of(stats::cov(&y, &x)),
        R2::Corr => Exp::of(stats::corr(&y, &x)),
        _ => match stats::ols(&y, &x) {
            None => Exp::NULL,
            Some((a, b)) => {
                let r = stats::residuals(&y, &x, a, b);
                match f {
                    R2::Alpha | R2::All(0) => Exp::val(a),
                    R2::Beta | R2::All(1) => Exp::val(b),
                    R2::All(_) => Exp::val(r.iter().map(|e| e * e).sum()),
                    R2::ResidMean => Exp::of(stats::mean(&r)),
                    R2::ResidStd => Exp::of(stats::std(&r)),
                    R2::ResidSkew => {
                        // residuals of an exact fit are all (numerically) zero: skewness 0/0
                        let sse: f64 = r.iter().map(|e| e * e).sum();
                        if sse <= 1e-18 {
                            Exp::ANY
                        } else {
                            Exp::of(stats::skew(&r))
                        }
                    }
                    _ => unreachable!(),
                }
            }
        },
    }
}

pub fn model2(f: R2, a: &[X], b: &[X], w: usize, mp: Option<usize>) -> Vec<Exp> {
    (0..a.len()).map(|i| expect2(f, window(a, i, w), window(b, i, w), w, mp)).collect()
}

#[cfg(test)]
mod tests {
    use super::*;
    fn s(v: &[f64]) -> Vec<X> {
        v.iter().map(|x| if x.is_nan() { None } else { Some(*x) }).collect()
    }
    #[test]
    fn golden_from_repo_tests() {
        // tea-rolling binary::tests::test_cov
        let a = s(&[1., 5., 3., 2., 5.]);
        let b = s(&[2., 5., 4., 3., 6.]);
        let m = model2(R2::Cov, &a, &b, 3, Some(2));
        let want = [f64::NAN, 6., 3., 1.5, 2.333333333333332];
        for (e, w) in m.iter().zip(want) {
            if w.is_nan() {
                assert!(e.val.is_none() && e.null_ok);
            } else {
                assert!((e.val.unwrap() - w).abs() < 1e-9);
            }
        }
        // norm::tests::test_ts_zscore
        let d = s(&[1., 2., 3., f64::NAN, 5., 6., 7., f64::NAN, 9., 10.]);
        let m = model1(R1::Zscore, &d, 4, None);
        let want = [f64::NAN, 0.707107, 1.0, f64::NAN, 1.091089, 0.872872, 1.0, f64::NAN, 1.091089, 0.872872];
        for (e, w) in m.iter().zip(want) {
            if w.is_nan() {
                assert!(e.val.is_none() && e.null_ok);
            } else {
                assert!((e.val.unwrap() - w).abs() < 1e-5);
            }
        }
        // tevec rolling::tests::test_fdiff: [7,4,2,5,1,2], d=.5, w=4 -> [NaN,.5,-.875,3.0625,-2,.75]
        let d = s(&[7., 4., 2., 5., 1., 2.]);
        let m = model1(R1::Fdiff(0.5), &d, 4, None);
        let want = [f64::NAN, 0.5, -0.875, 3.0625, -2., 0.75];
        for (e, w) in m.iter().zip(want) {
            if w.is_nan() {
                assert!(e.val.is_none() && e.null_ok);
            } else {
                assert!((e.val.unwrap() - w).abs() < 1e-12, "{e:?} {w}");
            }
        }
    }
}
