//! reference model: element-wise mapping operations by their positional definitions (C13).
use crate::roll::Exp;
use crate::X;

/// A mapping operation with its parameters; values are logical (`X`) and encoded per element type.
#[derive(Clone, Debug, PartialEq)]
pub enum MapOp {
    Shift(i32, X),
    VShift(i32, Option<X>),
    VDiff(i32, Option<X>),
    VPct(i32),
    Ffill(Option<X>),
    Bfill(Option<X>),
    Fill(X),
    /// mask = "element equals zero"
    FfillMask0(Option<X>),
    BfillMask0(Option<X>),
    FillMask0(X),
    VClip(X, X),
    Abs,
    VAbs,
    VRank(bool, bool),
    VPartition(usize, bool, bool),
    VArgPartition(usize, bool, bool),
}

impl MapOp {
    pub fn name(&self) -> String {
        match self {
            MapOp::Shift(..) => "shift".into(),
            MapOp::VShift(..) => "vshift".into(),
            MapOp::VDiff(..) => "vdiff".into(),
            MapOp::VPct(..) => "vpct_change".into(),
            MapOp::Ffill(..) => "ffill".into(),
            MapOp::Bfill(..) => "bfill".into(),
            MapOp::Fill(..) => "fill".into(),
            MapOp::FfillMask0(..) => "ffill_mask".into(),
            MapOp::BfillMask0(..) => "bfill_mask".into(),
            MapOp::FillMask0(..) => "fill_mask".into(),
            MapOp::VClip(..) => "vclip".into(),
            MapOp::Abs => "abs".into(),
            MapOp::VAbs => "vabs".into(),
            MapOp::VRank(p, r) => format!("vrank(pct={p},rev={r})"),
            MapOp::VPartition(_, s, r) => format!("vpartition(sort={s},rev={r})"),
            MapOp::VArgPartition(_, s, r) => format!("varg_partition(sort={s},rev={r})"),
        }
    }
    pub fn show(&self) -> String {
        format!("{self:?}")
    }
    /// the adaptor preserves the length of its input
    pub fn length_preserving(&self) -> bool {
        !matches!(self, MapOp::VPartition(..) | MapOp::VArgPartition(..))
    }
}

fn ex(x: X) -> Exp {
    match x {
        Some(v) => Exp::val(v),
        None => Exp::NULL,
    }
}

fn lagged(x: &[X], i: usize, n: i64) -> Option<X> {
    let j = i as i64 - n;
    if j >= 0 && (j as usize) < x.len() {
        Some(x[j as usize])
    } else {
        None
    }
}

fn fill_dir(x: &[X], masked: &dyn Fn(&X) -> bool, default: Option<X>, forward: bool) -> Vec<Exp> {
    let n = x.len();
    (0..n)
        .map(|i| {
            if !masked(&x[i]) {
                return ex(x[i]);
            }
            let found = if forward { (0..i).rev().find(|j| !masked(&x[*j])) } else { (i + 1..n).find(|j| !masked(&x[*j])) };
            match found {
                Some(j) => ex(x[j]),
                None => ex(default.unwrap_or(None)),
            }
        })
        .collect()
}

/// positional model of the element-wise operations (one expectation per input element).
/// Not for rank / partitions (see order.rs).
pub fn map_model(op: &MapOp, x: &[X]) -> Vec<Exp> {
    let n = x.len();
    let is_null = |v: &X| v.is_none();
    let is_zero = |v: &X| *v == Some(0.0);
    match op {
        MapOp::Shift(k, fill) => (0..n).map(|i| ex(lagged(x, i, *k as i64).unwrap_or(*fill))).collect(),
        MapOp::VShift(k, fill) => (0..n).map(|i| ex(lagged(x, i, *k as i64).unwrap_or(fill.unwrap_or(None)))).collect(),
        MapOp::VDiff(k, fill) => (0..n)
            .map(|i| match lagged(x, i, *k as i64) {
                None => ex(fill.unwrap_or(None)),
                Some(b) => match (x[i], b) {
                    // inf - inf is not a number: null
                    (Some(a), Some(b)) => if (a - b).is_nan() { Exp::NULL } else { Exp::val(a - b) },
                    _ => Exp::NULL,
                },
            })
            .collect(),
        MapOp::VPct(k) => (0..n)
            .map(|i| match lagged(x, i, *k as i64) {
                None => Exp::NULL,
                Some(b) => match (x[i], b) {
                    (Some(a), Some(b)) if b != 0.0 => if (a / b - 1.0).is_nan() { Exp::NULL } else { Exp::val(a / b - 1.0) },
                    _ => Exp::NULL,
                },
            })
            .collect(),
        MapOp::Ffill(d) => fill_dir(x, &is_null, *d, true),
        MapOp::Bfill(d) => fill_dir(x, &is_null, *d, false),
        MapOp::FfillMask0(d) => fill_dir(x, &is_zero, *d, true),
        MapOp::BfillMask0(d) => fill_dir(x, &is_zero, *d, false),
        MapOp::Fill(v) => x.iter().map(|a| ex(if a.is_none() { *v } else { *a })).collect(),
        MapOp::FillMask0(v) => x.iter().map(|a| ex(if is_zero(a) { *v } else { *a })).collect(),
        MapOp::VClip(lo, hi) => x
            .iter()
            .map(|a| match a {
                None => Exp::NULL,
                Some(v) => match (lo, hi) {
                    (Some(l), Some(h)) if l > h => Exp { null_ok: false, val: None, warm: false, any: true }, // only non-nullness claimed
                    _ => {
                        let mut r = *v;
                        if let Some(l) = lo {
                            if r < *l {
                                r = *l;
                            }
                        }
                        if let Some(h) = hi {
                            if r > *h {
                                r = *h;
                            }
                        }
                        Exp::val(r)
                    }
                },
            })
            .collect(),
        MapOp::Abs | MapOp::VAbs => x.iter().map(|a| ex(a.map(|v| v.abs()))).collect(),
        _ => panic!("not an element-wise operation"),
    }
}

#[cfg(test)]
mod tests {
    use super::*;
    fn s(v: &[f64]) -> Vec<X> {
        v.iter().map(|x| if x.is_nan() { None } else { Some(*x) }).collect()
    }
    fn vals(e: &[Exp]) -> Vec<X> {
        e.iter().map(|x| x.val).collect()
    }
    #[test]
    fn golden_from_repo_tests() {
        let nan = f64::NAN;
        assert_eq!(vals(&map_model(&MapOp::VShift(2, None), &s(&[1., 2., 3., 4., 5.]))), s(&[nan, nan, 1., 2., 3.]));
        assert_eq!(vals(&map_model(&MapOp::VShift(-2, Some(Some(0.))), &s(&[1., 2., 3., 4., 5.]))), s(&[3., 4., 5., 0., 0.]));
        assert_eq!(vals(&map_model(&MapOp::VDiff(1, None), &s(&[4., 1., 12., 4.]))), s(&[nan, -3., 11., -8.]));
        assert_eq!(vals(&map_model(&MapOp::VDiff(-1, Some(Some(0.))), &s(&[4., 1., 12., 4.]))), s(&[3., -11., 8., 0.]));
        assert_eq!(vals(&map_model(&MapOp::VPct(1), &s(&[1., 2., 3., 4.5]))), s(&[nan, 1., 0.5, 0.5]));
        let v = s(&[nan, 1., 2., nan, 3., nan]);
        assert_eq!(vals(&map_model(&MapOp::Ffill(None), &v)), s(&[nan, 1., 2., 2., 3., 3.]));
        assert_eq!(vals(&map_model(&MapOp::Bfill(Some(Some(0.))), &v)), s(&[1., 1., 2., 3., 3., 0.]));
        assert_eq!(vals(&map_model(&MapOp::VClip(Some(2.), None), &s(&[1., 2., 3., 4., 5.]))), s(&[2., 2., 3., 4., 5.]));
    }
}
