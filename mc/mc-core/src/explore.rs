//! The explorers: parallel depth-first walk of a history tree (no state merging, see DESIGN 2.3),
//! parallel product enumeration, breadth-first search with dedup over hashable states.
use crate::report::Ctx;
use std::collections::{HashSet, VecDeque};
use std::hash::Hash;
use std::sync::atomic::{AtomicUsize, Ordering};
use std::sync::Mutex;

/// Run `f(shard, ctx)` for every shard in 0..n on `threads` workers; merge the contexts.
pub fn par_shards<F>(n: usize, threads: usize, f: F) -> Ctx
where
    F: Fn(usize, &mut Ctx) + Sync,
{
    let next = AtomicUsize::new(0);
    let total = Mutex::new(Ctx::new());
    let threads = threads.max(1).min(n.max(1));
    let trace = crate::report::tracing();
    std::thread::scope(|s| {
        for _ in 0..threads {
            s.spawn(|| {
                let mut ctx = Ctx::new();
                loop {
                    let i = next.fetch_add(1, Ordering::Relaxed);
                    if i >= n {
                        break;
                    }
                    if trace {
                        crate::report::trace_state(|| serde_json::json!({"shard": i}));
                    }
                    let r = std::panic::catch_unwind(std::panic::AssertUnwindSafe(|| f(i, &mut ctx)));
                    if let Err(e) = r {
                        let msg = e
                            .downcast_ref::<String>()
                            .cloned()
                            .or_else(|| e.downcast_ref::<&str>().map(|s| s.to_string()))
                            .unwrap_or_default();
                        ctx.error(format!("harness panic in shard {i}: {msg}"));
                    }
                }
                total.lock().unwrap().merge(ctx);
            });
        }
    });
    total.into_inner().unwrap()
}

/// Product explorer: every item is a root state, visited once.
pub fn par_items<T: Sync, F>(items: &[T], threads: usize, f: F) -> Ctx
where
    F: Fn(&T, &mut Ctx) + Sync,
{
    // chunk to amortise the atomic
    let chunk = (items.len() / (threads.max(1) * 32)).max(1);
    let n_chunks = items.len().div_ceil(chunk);
    par_shards(n_chunks, threads, |c, ctx| {
        let lo = c * chunk;
        let hi = (lo + chunk).min(items.len());
        for it in &items[lo..hi] {
            f(it, ctx);
        }
    })
}

/// A history tree: a state is the word consumed so far, an action appends one symbol.
/// `visit` executes the real code on the word, compares every observation with the reference model
/// and returns a memo (typically the implementation's outputs) handed to the children, which is
/// what gives the prefix relation of C06 on every edge.
pub trait TreeSys: Sync {
    type Memo: Send + Sync;
    fn k(&self) -> usize;
    fn max_len(&self) -> usize;
    fn visit(&self, word: &[u8], parent: Option<&Self::Memo>, ctx: &mut Ctx) -> Self::Memo;
    /// family name recorded in trace mode (used to replay an abort)
    fn name(&self) -> String {
        String::new()
    }
}

fn dfs<S: TreeSys>(sys: &S, word: &mut Vec<u8>, memo: &S::Memo, ctx: &mut Ctx) {
    if word.len() >= sys.max_len() {
        ctx.traces += 1;
        return;
    }
    for s in 0..sys.k() {
        word.push(s as u8);
        ctx.transitions += 1;
        ctx.states += 1;
        if crate::report::tracing() {
            crate::report::trace_state(|| serde_json::json!({"family": sys.name(), "word": word}));
        }
        let m = sys.visit(word, Some(memo), ctx);
        dfs(sys, word, &m, ctx);
        word.pop();
    }
}

/// Depth-first exploration of the whole tree up to `max_len`, simplest symbol first, sharded by the
/// first two symbols. Every word is visited exactly once; no two histories are merged.
pub fn explore_tree<S: TreeSys>(sys: &S, threads: usize) -> Ctx {
    let k = sys.k();
    let max = sys.max_len();
    let mut pre = Ctx::new();
    pre.states += 1;
    if crate::report::tracing() {
        crate::report::trace_state(|| serde_json::json!({"family": sys.name(), "word": []}));
    }
    let root = sys.visit(&[], None, &mut pre);
    if max == 0 || k == 0 {
        pre.traces += 1;
        return pre;
    }
    // level 1 sequentially (memos are shared by the shards)
    let mut lvl1 = Vec::with_capacity(k);
    for a in 0..k {
        pre.states += 1;
        pre.transitions += 1;
        if crate::report::tracing() {
            crate::report::trace_state(|| serde_json::json!({"family": sys.name(), "word": [a]}));
        }
        lvl1.push(sys.visit(&[a as u8], Some(&root), &mut pre));
    }
    if max == 1 {
        pre.traces += k as u64;
        return pre;
    }
    let lvl1 = &lvl1;
    let mut all = par_shards(k * k, threads, |sh, ctx| {
        let (a, b) = (sh / k, sh % k);
        let mut word = vec![a as u8, b as u8];
        ctx.states += 1;
        ctx.transitions += 1;
        if crate::report::tracing() {
            crate::report::trace_state(|| serde_json::json!({"family": sys.name(), "word": word}));
        }
        let m = sys.visit(&word, Some(&lvl1[a]), ctx);
        dfs(sys, &mut word, &m, ctx);
    });
    all.merge(pre);
    all
}

/// Breadth-first search with dedup over hashable states (used for cast / unit-conversion chains,
/// where the implementation is a pure function of the value so merging equal states is sound).
pub fn bfs<St, FS, FC>(roots: Vec<St>, max_depth: usize, mut succ: FS, mut check: FC, ctx: &mut Ctx)
where
    St: Clone + Eq + Hash,
    FS: FnMut(&St, &mut Ctx) -> Vec<St>,
    FC: FnMut(&St, usize, &mut Ctx),
{
    let mut seen: HashSet<St> = HashSet::new();
    let mut q: VecDeque<(St, usize)> = VecDeque::new();
    for r in roots {
        if seen.insert(r.clone()) {
            q.push_back((r, 0));
        }
    }
    while let Some((s, d)) = q.pop_front() {
        ctx.states += 1;
        check(&s, d, ctx);
        if d >= max_depth {
            ctx.traces += 1;
            continue;
        }
        for n in succ(&s, ctx) {
            ctx.transitions += 1;
            if seen.insert(n.clone()) {
                q.push_back((n, d + 1));
            }
        }
    }
}
