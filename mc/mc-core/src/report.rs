//! Per-thread exploration context, merged report, evidence / replay / known-findings handling.
use crate::cell::*;
use serde_json::{json, Value};
use std::collections::{BTreeMap, HashSet};
use std::time::Instant;

/// Root directory for evidence, replays and the known-findings file: /verif, unless the mutation
/// sandbox (seeded/automutate.py) redirects it with VERIF_ROOT_DIR so that campaign runs never touch the
/// registered evidence.
pub fn verif_root() -> String {
    std::env::var("VERIF_ROOT_DIR").unwrap_or_else(|_| "/verif".to_string())
}
const DISTINCT_CAP: usize = 6_000_000;

#[derive(Clone, Debug)]
pub struct Violation {
    /// entry point / law that failed (e.g. "ts_vewm", "vquantile(lower)")
    pub entry: String,
    /// classifier verdict: id of a finding of DESIGN section 6 whose narrow predicate this case satisfies
    pub finding: Option<String>,
    /// size of the case (smaller = simpler); the smallest case of a bucket is kept
    pub size: usize,
    /// family + state, enough for `--replay`
    pub case: Value,
    pub expected: String,
    pub got: String,
}

#[derive(Clone, Debug, Default)]
pub struct Bucket {
    pub count: u64,
    pub best: Option<Violation>,
}

#[derive(Clone, Debug, Default)]
pub struct Fam {
    pub states: u64,
    pub evals: u64,
    pub nontrivial: u64,
    pub outcomes: HashSet<u64>,
}

#[derive(Default)]
pub struct Ctx {
    pub states: u64,
    pub transitions: u64,
    pub traces: u64,
    pub evals: u64,
    pub distinct: HashSet<u64>,
    pub distinct_capped: bool,
    pub fams: BTreeMap<String, Fam>,
    pub buckets: BTreeMap<String, Bucket>,
    pub samples: Vec<Value>,
    pub errors: Vec<String>,
    pub capped: Vec<String>,
    pub replay_mode: bool,
}

impl Ctx {
    pub fn new() -> Self {
        Self::default()
    }
    #[inline]
    pub fn fam(&mut self, name: &str) -> &mut Fam {
        if !self.fams.contains_key(name) {
            self.fams.insert(name.to_string(), Fam::default());
        }
        self.fams.get_mut(name).unwrap()
    }
    /// record one evaluation of the implementation in family `fam` with observed outcome hash
    #[inline]
    pub fn eval(&mut self, fam: &str, outcome_hash: u64) {
        self.evals += 1;
        let f = self.fam(fam);
        f.evals += 1;
        if f.outcomes.len() < 200_000 {
            f.outcomes.insert(outcome_hash);
        }
    }
    #[inline]
    pub fn nontrivial(&mut self, fam: &str, key: u64) {
        self.fam(fam).nontrivial += 1;
        if self.distinct.len() < DISTINCT_CAP {
            self.distinct.insert(mix(hash_bytes(fam.as_bytes()), key));
        } else {
            self.distinct_capped = true;
        }
    }
    pub fn sample(&mut self, v: Value) {
        if self.samples.len() < 6 {
            self.samples.push(v);
        }
    }
    pub fn violation(&mut self, v: Violation) {
        let key = format!("{}|{}", v.entry, v.finding.clone().unwrap_or_else(|| "-".into()));
        let b = self.buckets.entry(key).or_default();
        b.count += 1;
        let better = match &b.best {
            None => true,
            Some(old) => {
                (v.size, v.case.to_string().len(), v.case.to_string())
                    < (old.size, old.case.to_string().len(), old.case.to_string())
            }
        };
        if better {
            b.best = Some(v);
        }
    }
    pub fn error(&mut self, s: String) {
        if self.errors.len() < 20 {
            self.errors.push(s);
        }
    }
    pub fn merge(&mut self, o: Ctx) {
        self.states += o.states;
        self.transitions += o.transitions;
        self.traces += o.traces;
        self.evals += o.evals;
        self.distinct_capped |= o.distinct_capped;
        for k in o.distinct {
            if self.distinct.len() < 4 * DISTINCT_CAP {
                self.distinct.insert(k);
            } else {
                self.distinct_capped = true;
            }
        }
        for (k, f) in o.fams {
            let m = self.fam(&k);
            m.states += f.states;
            m.evals += f.evals;
            m.nontrivial += f.nontrivial;
            m.outcomes.extend(f.outcomes);
        }
        for (k, b) in o.buckets {
            let count = b.count;
            if let Some(v) = b.best {
                self.violation(v);
                self.buckets.get_mut(&k).unwrap().count += count - 1;
            }
        }
        for s in o.samples {
            self.sample(s);
        }
        self.errors.extend(o.errors);
        self.capped.extend(o.capped);
    }
}

#[derive(Clone, Debug, PartialEq)]
pub enum Tier {
    Quick,
    Thorough,
}

pub struct Run {
    pub property: &'static str,
    pub tier: Tier,
    pub seed: u64,
    pub replay: Option<String>,
    pub start: Instant,
    pub threads: usize,
}

/// Memory-safety tripwire (DESIGN 2.6): the exploration runs in a child process. The checked build turns
/// an out-of-bounds unchecked access on a real container into an abort (std's "unsafe precondition
/// violated") instead of silent undefined behaviour; an abort / fatal signal of the child is reported as
/// a violation. To name the case, the child is run once more single-threaded in trace mode, where every
/// state is logged before it is executed; the last logged state is the replay.
fn supervise(property: &'static str) {
    use std::process::{Command, Stdio};
    if std::env::var("MC_CHILD").is_ok() {
        return;
    }
    let exe = match std::env::current_exe() {
        Ok(e) => e,
        Err(_) => return,
    };
    let args: Vec<String> = std::env::args().skip(1).collect();
    // explicit horizon (guidance: every harness has one): a subject that loops for ever must become a verdict,
    // not a hung check. Generous: the quick tiers take seconds, the thorough ones minutes on 16 cores.
    let thorough = args.iter().any(|a| a == "thorough") || (std::env::var("VERIF_TIER").ok().as_deref() == Some("thorough") && !args.iter().any(|a| a == "quick"));
    let horizon = std::env::var("MC_HORIZON_SECS").ok().and_then(|v| v.parse::<u64>().ok()).unwrap_or(if thorough { 4 * 3600 } else { 1200 });
    // (exit status or None = horizon exceeded and killed, stderr)
    let run_child = |trace: Option<&str>, horizon: u64| -> Option<(Option<std::process::ExitStatus>, String)> {
        use std::io::Read;
        let mut c = Command::new(&exe);
        c.args(&args).env("MC_CHILD", "1").stdin(Stdio::null());
        if let Some(t) = trace {
            c.env("MC_TRACE", t).env("VERIF_THREADS", "1").stdout(Stdio::null());
        }
        c.stderr(Stdio::piped());
        let mut ch = c.spawn().ok()?;
        let mut pipe = ch.stderr.take()?;
        let reader = std::thread::spawn(move || {
            let mut buf = String::new();
            let mut bytes = vec![];
            let _ = pipe.read_to_end(&mut bytes);
            buf.push_str(&String::from_utf8_lossy(&bytes));
            buf
        });
        let t0 = std::time::Instant::now();
        let status = loop {
            match ch.try_wait() {
                Ok(Some(st)) => break Some(st),
                Ok(None) => {
                    if t0.elapsed().as_secs() >= horizon {
                        let _ = ch.kill();
                        let _ = ch.wait();
                        break None;
                    }
                    std::thread::sleep(std::time::Duration::from_millis(20));
                }
                Err(_) => break None,
            }
        };
        Some((status, reader.join().unwrap_or_default()))
    };
    let (status, stderr) = match run_child(None, horizon) {
        Some(o) => o,
        None => return, // cannot spawn: run in-process
    };
    eprint!("{stderr}");
    if let Some(code) = status.and_then(|s| s.code()) {
        std::process::exit(code);
    }
    let timed_out = status.is_none();
    // killed by a signal (SIGABRT / SIGSEGV / SIGILL ...)
    let tail: Vec<&str> = stderr.lines().rev().take(6).collect::<Vec<_>>().into_iter().rev().collect();
    let trace_path = format!("{}/target/trace-{property}.txt", verif_root());
    let _ = std::fs::remove_file(&trace_path);
    let replaying = args.iter().any(|a| a == "--replay");
    let traced = if replaying { None } else { run_child(Some(&trace_path), if timed_out { horizon.min(600) } else { horizon }) };
    let last = std::fs::read_to_string(&trace_path).unwrap_or_default();
    let last = last.trim_end_matches(['\0', ' ', '\n']).to_string();
    let case: Value = serde_json::from_str(&last).unwrap_or_else(|_| json!({"trace": last}));
    let reproduced = traced.map_or(false, |t| t.0.and_then(|s| s.code()).is_none());
    let dir = format!("{}/replays/{property}", verif_root());
    let _ = std::fs::create_dir_all(&dir);
    let path = if replaying { args.iter().skip_while(|a| *a != "--replay").nth(1).cloned().unwrap_or_default() } else { format!("{dir}/abort-{}.json", short_hash(&last)) };
    if !replaying {
        let got = if timed_out {
            format!("the exploration did not finish within the horizon of {horizon} s (a library call does not terminate); last state entered in single-threaded trace mode is in `case`")
        } else {
            format!("the process was killed by a fatal signal ({status:?}); stderr tail: {}", tail.join(" | "))
        };
        let body = json!({"property": property, "entry": if timed_out { "non-termination (horizon exceeded)" } else { "process abort (memory-safety tripwire)" }, "finding_class": Value::Null,
            "case": case, "expected": "the library call returns or panics cleanly",
            "got": got,
            "abort_reproduced_in_trace_mode": reproduced});
        let _ = std::fs::write(&path, serde_json::to_string_pretty(&body).unwrap());
    }
    println!("VIOLATION property={property} replay={path}");
    if timed_out {
        println!("  entry=non-termination (horizon {horizon} s exceeded) last_state={}", truncate(&last, 300));
    } else {
        println!("  entry=process abort (memory-safety tripwire) status={status:?} last_state={} stderr={}", truncate(&last, 300), truncate(&tail.join(" | "), 300));
    }
    std::process::exit(1);
}

/// Trace mode (see `supervise`): record the state about to be executed.
pub fn trace_state(f: impl FnOnce() -> Value) {
    use std::io::{Seek, SeekFrom, Write};
    thread_local! {
        static TRACE: std::cell::RefCell<Option<Option<std::fs::File>>> = const { std::cell::RefCell::new(None) };
    }
    TRACE.with(|t| {
        let mut t = t.borrow_mut();
        if t.is_none() {
            *t = Some(std::env::var("MC_TRACE").ok().and_then(|p| std::fs::OpenOptions::new().create(true).write(true).truncate(true).open(p).ok()));
        }
        if let Some(Some(file)) = t.as_mut() {
            let mut line = f().to_string();
            line.truncate(4000);
            let pad = 4096usize.saturating_sub(line.len());
            let _ = file.seek(SeekFrom::Start(0));
            let _ = file.write_all(line.as_bytes());
            let _ = file.write_all(" ".repeat(pad).as_bytes());
            let _ = file.flush();
        }
    });
}
pub fn tracing() -> bool {
    std::env::var("MC_TRACE").is_ok()
}

impl Run {
    /// Parses `<bin> [quick|thorough] [--replay <path>]`, env VERIF_TIER / VERIF_SEED.
    pub fn from_args(property: &'static str) -> Run {
        supervise(property);
        silence_panics();
        let args: Vec<String> = std::env::args().skip(1).collect();
        let mut tier = match std::env::var("VERIF_TIER").ok().as_deref() {
            Some("thorough") => Tier::Thorough,
            _ => Tier::Quick,
        };
        let mut replay = None;
        let mut i = 0;
        while i < args.len() {
            match args[i].as_str() {
                "quick" => tier = Tier::Quick,
                "thorough" => tier = Tier::Thorough,
                "--replay" => {
                    i += 1;
                    replay = args.get(i).cloned();
                }
                _ => {}
            }
            i += 1;
        }
        let seed = std::env::var("VERIF_SEED").ok().and_then(|s| s.parse::<i64>().ok()).unwrap_or(0);
        let threads = std::env::var("VERIF_THREADS")
            .ok()
            .and_then(|s| s.parse().ok())
            .unwrap_or_else(|| std::thread::available_parallelism().map(|n| n.get()).unwrap_or(4));
        Run { property, tier, seed: seed.unsigned_abs(), replay, start: Instant::now(), threads }
    }
    pub fn quick(&self) -> bool {
        self.tier == Tier::Quick
    }
    pub fn pick<T>(&self, q: T, t: T) -> T {
        if self.quick() {
            q
        } else {
            t
        }
    }
}

/// Description of what the run enumerates, supplied by each check.
pub struct Meta {
    pub rule: String,
    pub bounds: Value,
    pub assumptions: Vec<String>,
    pub exhaustive: bool,
    /// minimum number of states each family must have explored (vacuity guard)
    pub min_states: u64,
}

#[derive(Clone, Debug)]
pub struct Known {
    pub property: String,
    pub id: String,
    pub status: String,
    pub what: String,
}

pub fn load_known(property: &str) -> Result<Vec<Known>, String> {
    let path = format!("{}/known-findings.json", verif_root());
    let txt = match std::fs::read_to_string(&path) {
        Ok(t) => t,
        Err(_) => return Ok(vec![]),
    };
    let v: Value = serde_json::from_str(&txt).map_err(|e| format!("{path}: {e}"))?;
    let mut out = vec![];
    for f in v["findings"].as_array().cloned().unwrap_or_default() {
        if f["property"].as_str() == Some(property) {
            out.push(Known {
                property: property.to_string(),
                id: f["id"].as_str().unwrap_or("").to_string(),
                status: f["status"].as_str().unwrap_or("").to_string(),
                what: f["what"].as_str().unwrap_or("").to_string(),
            });
        }
    }
    Ok(out)
}

fn short_hash(s: &str) -> String {
    format!("{:012x}", hash_bytes(s.as_bytes()) & 0xffff_ffff_ffff)
}

/// Writes evidence and replay files, prints verdict lines, returns the process exit code.
pub fn finish(run: &Run, meta: Meta, mut ctx: Ctx) -> i32 {
    let prop = run.property;
    let known = match load_known(prop) {
        Ok(k) => k,
        Err(e) => {
            eprintln!("MACHINERY-ERROR: {e}");
            return 2;
        }
    };
    let mut n_unlisted = 0u64;
    let mut known_seen: Vec<Value> = vec![];
    let mut viol_json: Vec<Value> = vec![];
    let dir = format!("{}/replays/{prop}", verif_root());
    let buckets = std::mem::take(&mut ctx.buckets);
    // one KNOWN-FINDING line per finding id
    let mut known_lines: BTreeMap<String, (u64, String)> = BTreeMap::new();
    for (key, b) in &buckets {
        let v = match &b.best {
            Some(v) => v,
            None => continue,
        };
        let listed_open = v
            .finding
            .as_ref()
            .and_then(|id| known.iter().find(|k| &k.id == id && k.status == "open"));
        if let Some(k) = listed_open {
            let e = known_lines.entry(k.id.clone()).or_insert((0, String::new()));
            e.0 += b.count;
            if e.1.is_empty() {
                e.1 = format!(
                    "{} {} e.g. case={} expected={} got={}",
                    k.id,
                    if k.what.is_empty() { v.entry.clone() } else { k.what.clone() },
                    truncate(&v.case.to_string(), 200),
                    truncate(&v.expected, 120),
                    truncate(&v.got, 120)
                );
            }
            known_seen.push(json!({"id": k.id, "bucket": key, "cases": b.count}));
        } else {
            n_unlisted += 1;
            let _ = std::fs::create_dir_all(&dir);
            let body = json!({
                "property": prop,
                "entry": v.entry,
                "finding_class": v.finding,
                "cases_in_bucket": b.count,
                "case": v.case,
                "expected": v.expected,
                "got": v.got,
                "replay_cmd": format!("./check {prop} --replay <this file>"),
            });
            let path = format!("{dir}/{}.json", short_hash(&format!("{key}{}", v.case)));
            if !run.replay.is_some() {
                if let Err(e) = std::fs::write(&path, serde_json::to_string_pretty(&body).unwrap()) {
                    eprintln!("MACHINERY-ERROR: cannot write {path}: {e}");
                    return 2;
                }
            }
            println!("VIOLATION property={prop} replay={path}");
            println!(
                "  entry={} class={} cases={} case={} expected={} got={}",
                v.entry,
                v.finding.clone().unwrap_or_else(|| "-".into()),
                b.count,
                truncate(&v.case.to_string(), 300),
                truncate(&v.expected, 200),
                truncate(&v.got, 200)
            );
            viol_json.push(body);
        }
    }
    for (_id, (count, line)) in &known_lines {
        println!("KNOWN-FINDING: property={prop} {line} ({count} cases)");
    }
    // vacuity guards
    let mut fam_json = serde_json::Map::new();
    let mut distinct_outcomes_total = 0usize;
    for (name, f) in &ctx.fams {
        distinct_outcomes_total += f.outcomes.len();
        fam_json.insert(
            name.clone(),
            json!({"states": f.states, "evaluations": f.evals, "nontrivial": f.nontrivial,
                   "distinct_outcomes": f.outcomes.len()}),
        );
        if run.replay.is_none() {
            if f.evals > 1 && f.outcomes.len() < 2 {
                ctx.errors.push(format!(
                    "vacuity: family {name} observed {} distinct outcome(s) over {} evaluations",
                    f.outcomes.len(),
                    f.evals
                ));
            }
        }
    }
    if run.replay.is_none() && ctx.states < meta.min_states {
        ctx.errors.push(format!("vacuity: explored {} states, declared minimum {}", ctx.states, meta.min_states));
    }
    let wall = run.start.elapsed().as_secs_f64();
    if run.replay.is_none() {
        let ev = json!({
            "property_id": prop,
            "tier": if run.quick() {"quick"} else {"thorough"},
            "seed": run.seed,
            "level": "model_checking",
            "coverage": {
                "states": ctx.states.max(1),
                "transitions": ctx.transitions.max(1),
                "traces_validated_against_impl": ctx.traces,
                "evaluations": ctx.evals.max(1),
                "distinct_nontrivial": ctx.distinct.len(),
                "distinct_nontrivial_is_lower_bound": ctx.distinct_capped,
                "rule": meta.rule,
                "exhaustive": meta.exhaustive && ctx.capped.is_empty(),
                "caps_hit": ctx.capped,
                "bounds": meta.bounds,
                "families": Value::Object(fam_json),
                "distinct_outcomes": distinct_outcomes_total,
                "known_findings_seen": known_seen,
                "samples": if ctx.samples.is_empty() { vec![json!("no sample recorded")] } else { ctx.samples.clone() },
                "threads": run.threads,
            },
            "assumptions": meta.assumptions,
            "wall_s": wall,
            "violations": n_unlisted,
            "violation_details": viol_json,
            "machinery_errors": ctx.errors,
        });
        let _ = std::fs::create_dir_all(format!("{}/evidence", verif_root()));
        let path = format!("{}/evidence/{prop}.json", verif_root());
        if let Err(e) = std::fs::write(&path, serde_json::to_string_pretty(&ev).unwrap()) {
            eprintln!("MACHINERY-ERROR: cannot write {path}: {e}");
            return 2;
        }
    }
    println!(
        "{prop} {}: states={} transitions={} traces={} evaluations={} distinct_nontrivial={} distinct_outcomes={} wall={:.1}s violations={} known={}",
        if run.quick() { "quick" } else { "thorough" },
        ctx.states, ctx.transitions, ctx.traces, ctx.evals, ctx.distinct.len(), distinct_outcomes_total, wall,
        n_unlisted, known_lines.len()
    );
    if n_unlisted > 0 {
        return 1;
    }
    if !ctx.errors.is_empty() {
        for e in &ctx.errors {
            eprintln!("MACHINERY-ERROR: {e}");
        }
        return 2;
    }
    0
}

/// Load the `case` object of a replay file.
pub fn load_replay(path: &str) -> Result<Value, String> {
    let txt = std::fs::read_to_string(path).map_err(|e| format!("{path}: {e}"))?;
    let v: Value = serde_json::from_str(&txt).map_err(|e| format!("{path}: {e}"))?;
    Ok(v)
}

/// Finish a `--replay` run: exit 1 if the stored violation (same entry) reproduces, 0 otherwise.
pub fn finish_replay(run: &Run, stored: &Value, ctx: Ctx) -> i32 {
    let entry = stored["entry"].as_str().unwrap_or("");
    let mut hit = false;
    for (_k, b) in &ctx.buckets {
        if let Some(v) = &b.best {
            if v.entry == entry || entry.is_empty() {
                hit = true;
                println!(
                    "VIOLATION property={} replay={} (reproduced: entry={} expected={} got={})",
                    run.property,
                    run.replay.clone().unwrap_or_default(),
                    v.entry,
                    truncate(&v.expected, 200),
                    truncate(&v.got, 200)
                );
            }
        }
    }
    if hit {
        1
    } else {
        println!("replay: stored violation does not reproduce on the current tree");
        0
    }
}
