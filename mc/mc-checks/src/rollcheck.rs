//! Shared machinery for the rolling-family properties (C01, C03, C04, C05, C06): runner tables over
//! element types, judgement of an output series against the model.
use crate::*;
use mc_adapt::roll::*;
use mc_ref::roll::{model1, model2};
use tevec::prelude::{Cast, IsNone, Number, Vec1};

/// A type-erased call: encode the logical word into the input element type, call the entry point,
/// decode the output. `None` when the word cannot be encoded (null into i32, 1.5 into an integer).
pub type Run1 = fn(R1, &[X], usize, Option<usize>, Path) -> Option<Outcome<Vec<Cell>>>;
pub type Run2 = fn(R2, &[X], &[X], usize, Option<usize>, Path) -> Option<Outcome<Vec<Cell>>>;

#[derive(Clone)]
pub struct Ty1 {
    pub name: String,
    pub run: Run1,
    pub kind: OutKind,
}

pub fn run_v1<T, U>(f: R1, word: &[X], w: usize, mp: Option<usize>, path: Path) -> Option<Outcome<Vec<Cell>>>
where
    T: Elem + IsNone,
    T::Inner: Number,
    U: Elem,
    f64: Cast<U>,
    Option<T::Inner>: Cast<U>,
    Vec<U>: Vec1<U>,
{
    if !encodable::<T>(word) {
        return None;
    }
    let v: Vec<T> = enc_vec(word);
    Some(catch(|| match f {
        R1::Fdiff(d) => call_vfdiff::<Vec<T>, T, Vec<U>, U>(d, &v, w, mp, path).cells(),
        _ => call_v1::<Vec<T>, T, Vec<U>, U>(f, &v, w, mp, path).cells(),
    }))
}

pub fn run_p1<T, U>(f: R1, word: &[X], w: usize, mp: Option<usize>, path: Path) -> Option<Outcome<Vec<Cell>>>
where
    T: Elem + Number,
    U: Elem,
    f64: Cast<U>,
    Vec<U>: Vec1<U>,
{
    if !encodable::<T>(word) || word.iter().any(|x| x.is_none()) {
        return None;
    }
    let v: Vec<T> = enc_vec(word);
    Some(catch(|| match f {
        R1::Fdiff(d) => call_fdiff::<Vec<T>, T, Vec<U>, U>(d, &v, w, path).cells(),
        _ => call_p1::<Vec<T>, T, Vec<U>, U>(f, &v, w, mp, path).cells(),
    }))
}

pub fn ty_v1<T, U>() -> Ty1
where
    T: Elem + IsNone,
    T::Inner: Number,
    U: Elem,
    f64: Cast<U>,
    Option<T::Inner>: Cast<U>,
    Vec<U>: Vec1<U>,
{
    Ty1 {
        name: format!("{}->{}", T::NAME, U::NAME),
        run: run_v1::<T, U>,
        kind: out_kind::<U>(),
    }
}
pub fn ty_p1<T, U>() -> Ty1
where
    T: Elem + Number,
    U: Elem,
    f64: Cast<U>,
    Vec<U>: Vec1<U>,
{
    Ty1 {
        name: format!("{}->{}", T::NAME, U::NAME),
        run: run_p1::<T, U>,
        kind: out_kind::<U>(),
    }
}

#[derive(Clone)]
pub struct Ty2 {
    pub name: String,
    pub run: Run2,
    pub kind: OutKind,
}
pub fn run_v2<T, T2, U>(f: R2, a: &[X], b: &[X], w: usize, mp: Option<usize>, path: Path) -> Option<Outcome<Vec<Cell>>>
where
    T: Elem + IsNone,
    T::Inner: Number,
    T2: Elem + IsNone,
    T2::Inner: Number,
    U: Elem,
    f64: Cast<U>,
    Vec<U>: Vec1<U>,
    Vec<(U, U, U)>: Vec1<(U, U, U)>,
{
    if !encodable::<T>(a) || !encodable::<T2>(b) {
        return None;
    }
    let va: Vec<T> = enc_vec(a);
    let vb: Vec<T2> = enc_vec(b);
    Some(catch(|| match f {
        R2::All(k) => {
            let all = call_v2_all::<Vec<T>, T, Vec<T2>, T2, Vec<(U, U, U)>, U>(&va, &vb, w, mp).cells();
            all.into_iter().skip(k as usize).step_by(3).collect()
        }
        _ => call_v2::<Vec<T>, T, Vec<T2>, T2, Vec<U>, U>(f, &va, &vb, w, mp, path).cells(),
    }))
}
pub fn ty_v2<T, T2, U>() -> Ty2
where
    T: Elem + IsNone,
    T::Inner: Number,
    T2: Elem + IsNone,
    T2::Inner: Number,
    U: Elem,
    f64: Cast<U>,
    Vec<U>: Vec1<U>,
    Vec<(U, U, U)>: Vec1<(U, U, U)>,
{
    Ty2 { name: format!("{}x{}->{}", T::NAME, T2::NAME, U::NAME), run: run_v2::<T, T2, U>, kind: out_kind::<U>() }
}

#[derive(Clone, Copy, Debug, PartialEq)]
pub enum Law {
    /// C01/C03/C04: where the model defines a value the output must equal it
    Value,
    /// C03/C04: as Value, and additionally null exactly where the statistic is undefined on a window
    /// that holds enough observations (current element null, zero spread, constant regressor)
    ValueUndef,
    /// C05: length, no panic, and null exactly where the model says null
    Mask,
}

/// Compare one output series with the model. Returns (position, expected, got) of the first failure.
pub fn judge(
    got: &Outcome<Vec<Cell>>,
    model: &[Exp],
    law: Law,
    cmp: Cmp,
    kind: OutKind,
) -> Option<(Option<usize>, String, String)> {
    let cells = match got {
        Outcome::Panic(m) => {
            return Some((None, format!("{} outputs {}", model.len(), show_exps(model)), format!("PANIC({})", truncate(m, 100))))
        }
        Outcome::Ok(c) => c,
    };
    if cells.len() != model.len() {
        return Some((None, format!("{} outputs", model.len()), format!("{} outputs {}", cells.len(), show_cells(cells))));
    }
    for (i, (g, e)) in cells.iter().zip(model).enumerate() {
        let ok = match law {
            Law::Value => {
                if e.val.is_none() || e.any {
                    true // position belongs to the mask law (C05)
                } else {
                    satisfies(g, e, cmp, kind)
                }
            }
            Law::ValueUndef => {
                if e.warm {
                    true
                } else {
                    satisfies(g, e, cmp, kind)
                }
            }
            Law::Mask => {
                if kind == OutKind::Int {
                    // DESIGN 5.9: mask unobservable, value law only
                    satisfies(g, e, Cmp::Tol, kind)
                } else if e.any {
                    true
                } else if g.is_null() {
                    e.null_ok
                } else {
                    e.val.is_some()
                }
            }
        };
        if !ok {
            return Some((Some(i), e.show(), g.show()));
        }
    }
    None
}

pub fn model_for1(f: R1, x: &[X], w: usize, mp: Option<usize>, plain: bool) -> Vec<Exp> {
    match (f, plain) {
        // the plain fractional difference has no min_periods: a value at every position
        (R1::Fdiff(_), true) => model1(f, x, w, Some(0)),
        _ => model1(f, x, w, mp),
    }
}
pub fn model_for2(f: R2, a: &[X], b: &[X], w: usize, mp: Option<usize>) -> Vec<Exp> {
    model2(f, a, b, w, mp)
}

/// comparator of a single-series entry point: exact for extrema / arg / rank, Tol elsewhere
pub fn cmp_for(f: R1) -> Cmp {
    match f {
        R1::Min | R1::Max | R1::Argmin | R1::Argmax | R1::Rank { .. } => Cmp::Exact,
        _ => Cmp::Tol,
    }
}

/// Everything the classifier of a check may look at.
pub struct CaseInfo<'a> {
    pub entry: &'a str,
    pub f: R1,
    pub plain: bool,
    pub x: &'a [X],
    pub w: usize,
    pub mp: Option<usize>,
    pub pos: Option<usize>,
    pub got: &'a Outcome<Vec<Cell>>,
    pub model: &'a [Exp],
    pub ty: &'a str,
}

/// A history-tree family of single-series rolling functions: one node = one word; at every node every
/// entry point is called for every (w, mp, type, path) and every output position is judged.
pub struct SeriesFam {
    pub name: String,
    pub alpha: Vec<X>,
    pub max_len: usize,
    pub plain: bool,
    pub fns: Vec<R1>,
    pub tys: Vec<Ty1>,
    pub paths: Vec<Path>,
    pub law: Law,
    pub w_lo: usize,
    pub w_extra: usize,
    /// shortest series judged (C03 quantifies over lengths >= 1; the empty series belongs to C05)
    pub min_len: usize,
    /// power-of-two scale factors for the scaling relation f(s*x) == s^k * f(x) (empty = not checked).
    /// Scaling by a power of two commutes with every floating-point operation, so the relation is
    /// exact; it exposes magnitude-dependent thresholds and floors that the unit-scale alphabets cannot.
    pub scales: Vec<f64>,
    /// false => configuration not part of the property's space
    pub cfg_ok: fn(R1, usize, usize, Option<usize>) -> bool,
    pub classify: fn(&CaseInfo) -> Option<String>,
}

/// homogeneity degree of a statistic under x -> s*x
pub fn scale_pow(f: R1) -> i32 {
    match f {
        R1::Sum | R1::Mean | R1::Ewm | R1::Wma | R1::Std | R1::Min | R1::Max | R1::Reg | R1::Tsf | R1::Slope | R1::Intercept | R1::Fdiff(_) => 1,
        R1::Var | R1::ResidMean => 2,
        R1::Skew | R1::Kurt | R1::Argmin | R1::Argmax | R1::Rank { .. } | R1::Zscore | R1::Minmax => 0,
    }
}
/// relative closeness (no absolute floor: used at very small and very large scales)
pub fn rel_close(g: f64, e: f64) -> bool {
    g == e || (g - e).abs() <= 1e-9 * e.abs().max(g.abs())
}
pub fn scaled_matches(base: &Outcome<Vec<Cell>>, scaled: &Outcome<Vec<Cell>>, factor: f64) -> bool {
    match (base, scaled) {
        (Outcome::Ok(b), Outcome::Ok(s)) => {
            b.len() == s.len()
                && b.iter().zip(s).all(|(x, y)| match (x.num(), y.num()) {
                    (None, None) => x.is_null() && y.is_null(),
                    (Some(p), Some(q)) => rel_close(q, p * factor),
                    _ => false,
                })
        }
        (Outcome::Panic(_), Outcome::Panic(_)) => true,
        _ => false,
    }
}

pub fn cfg_all(_f: R1, _len: usize, _w: usize, _mp: Option<usize>) -> bool {
    true
}
/// DESIGN 5.3: for the extrema / rank family an omitted min_periods is checked for len >= w only
pub fn cfg_cmp(f: R1, len: usize, w: usize, mp: Option<usize>) -> bool {
    !(f.is_cmp() && mp.is_none() && len < w)
}

impl SeriesFam {
    pub fn check_word(&self, word: &[u8], ctx: &mut Ctx) {
        let x = decode(word, &self.alpha);
        let len = x.len();
        if len < self.min_len {
            return;
        }
        // history-scaled absolute tolerance: eps-level noise relative to the largest value of the alphabet
        // (3e-12 for the unit-scale alphabets, 1e-3 for the 2^30 level family)
        let hmax = self.alpha.iter().flatten().fold(0.0f64, |m, v| m.max(v.abs()));
        set_abs_tol(1e-12 * hmax);
        if self.name.ends_with("-nan-kinds") {
            // every NaN is the same null (DESIGN 5.4): float-encoded nulls written as the run-time NaN of
            // x86-64 (sign bit set) and as both kinds mixed; only words that contain a null
            if x.iter().any(|v| v.is_none()) {
                for kind in [1u8, 3] {
                    with_nan_kind(kind, || self.check_word_inner(word, &x, ctx));
                }
            }
        } else {
            self.check_word_inner(word, &x, ctx);
        }
        set_abs_tol(0.0);
    }
    /// the same family with the float-encoded input types only, under the name `<name>-nan-kinds`
    pub fn nan_kinds(&self, max_len: usize) -> SeriesFam {
        SeriesFam {
            name: format!("{}-nan-kinds", self.name),
            alpha: self.alpha.clone(),
            max_len,
            plain: self.plain,
            fns: self.fns.clone(),
            tys: self.tys.iter().filter(|t| t.name.starts_with("f64->") || t.name.starts_with("f32->")).cloned().collect(),
            paths: vec![Path::Ret],
            law: self.law,
            w_lo: self.w_lo,
            w_extra: self.w_extra,
            min_len: self.min_len,
            scales: vec![],
            cfg_ok: self.cfg_ok,
            classify: self.classify,
        }
    }
    fn check_word_inner(&self, word: &[u8], x: &[X], ctx: &mut Ctx) {
        let x = x.to_vec();
        let len = x.len();
        ctx.fam(&self.name).states += 1;
        let nontrivial = x.iter().any(|v| v.is_some());
        if nontrivial {
            ctx.nontrivial(&self.name, hash_bytes(word));
        }
        for (w, mp) in wmp_band(len, self.w_lo, self.w_extra) {
            for &f in &self.fns {
                if !(self.cfg_ok)(f, len, w, mp) {
                    continue;
                }
                if self.plain && matches!(f, R1::Fdiff(_)) && mp.is_some() {
                    continue; // ts_fdiff has no min_periods parameter: one configuration per w
                }
                let model = model_for1(f, &x, w, mp, self.plain);
                let entry = r1_name(f, !self.plain);
                let cmp = cmp_for(f);
                for ty in &self.tys {
                    if matches!(f, R1::Min | R1::Max) && ty.kind == OutKind::Int && !ty.name.ends_with('>') {
                        continue; // a null minimum into a plain integer is the documented panic of none()
                    }
                    for &path in &self.paths {
                        let got = match (ty.run)(f, &x, w, mp, path) {
                            None => continue,
                            Some(g) => g,
                        };
                        ctx.eval(&self.name, outcome_hash(&got));
                        if ctx.evals % 1000 == 0 {
                            // self-check (DESIGN 2.10): the harness owns all nondeterminism
                            let again = (ty.run)(f, &x, w, mp, path).unwrap();
                            if outcome_hash(&again) != outcome_hash(&got) {
                                ctx.error(format!("nondeterministic outcome: {entry} {} w={w} mp={mp:?}", show_word(&x)));
                            }
                        }
                        if ty.kind == OutKind::F64 && ty.name.starts_with("f64") && path == Path::Ret {
                            for &sc in &self.scales {
                                let xs: Vec<X> = x.iter().map(|v| v.map(|a| a * sc)).collect();
                                if let Some(gs) = (ty.run)(f, &xs, w, mp, path) {
                                    ctx.evals += 1;
                                    let factor = sc.powi(scale_pow(f));
                                    // positions the model leaves open (skew / kurt of a constant window, ...) are skipped
                                    let open = model.iter().any(|e| e.any || (e.null_ok && e.val.is_some()));
                                    if !open && !scaled_matches(&got, &gs, factor) {
                                        ctx.violation(Violation {
                                            entry: format!("scaling:{entry}"),
                                            finding: None,
                                            size: len * 100 + w,
                                            case: json!({"family": self.name, "word": word, "series": json_word(&x), "w": w, "mp": mp_json(mp), "scale": sc}),
                                            expected: format!("f(s*x) == s^{} * f(x) = {} * {}", scale_pow(f), factor, show_outcome(&got)),
                                            got: show_outcome(&gs),
                                        });
                                    }
                                }
                            }
                        }
                        if let Some((pos, exp, g)) = judge(&got, &model, self.law, cmp, ty.kind) {
                            let info = CaseInfo { entry: &entry, f, plain: self.plain, x: &x, w, mp, pos, got: &got, model: &model, ty: &ty.name };
                            let finding = (self.classify)(&info);
                            ctx.violation(Violation {
                                entry: entry.clone(),
                                finding,
                                size: len * 100 + w,
                                case: json!({"family": self.name, "word": word, "series": json_word(&x), "w": w, "mp": mp_json(mp),
                                             "ty": ty.name, "path": format!("{path:?}"), "pos": pos}),
                                expected: format!("{exp} (model series {})", show_exps(&model)),
                                got: format!("{g} (output {})", show_outcome(&got)),
                            });
                        } else if nontrivial && ctx.samples.len() < 3 && len >= 4 && w == 3 && mp == Some(1) && ctx.evals % 7 == 0 {
                            ctx.sample(json!({"family": self.name, "entry": entry, "series": json_word(&x), "w": w, "mp": mp_json(mp), "ty": ty.name,
                                              "model": show_exps(&model), "observed": show_outcome(&got)}));
                        }
                    }
                }
            }
        }
    }
}

impl TreeSys for SeriesFam {
    type Memo = ();
    fn k(&self) -> usize {
        self.alpha.len()
    }
    fn max_len(&self) -> usize {
        self.max_len
    }
    fn visit(&self, word: &[u8], _parent: Option<&()>, ctx: &mut Ctx) {
        self.check_word(word, ctx)
    }
    fn name(&self) -> String {
        self.name.clone()
    }
}

/// One long trace (de Bruijn sequence, DESIGN 3.3): the function is run once over the whole sequence
/// for every (w, mp) and every position is judged, i.e. every window content of length <= n is
/// observed after a long history of additions and removals.
pub fn check_long_trace(fam: &SeriesFam, label: &str, x: &[X], w_max: usize, ctx: &mut Ctx) {
    let name = format!("{}/{}", fam.name, label);
    ctx.fam(&name).states += x.len() as u64;
    ctx.states += x.len() as u64;
    ctx.transitions += x.len() as u64;
    for w in fam.w_lo..=w_max {
        let mut mps: Vec<Option<usize>> = vec![None];
        mps.extend((0..=w).map(Some));
        for mp in mps {
            for &f in &fam.fns {
                if fam.plain && matches!(f, R1::Fdiff(_)) && mp.is_some() {
                    continue;
                }
                let model = model_for1(f, x, w, mp, fam.plain);
                let entry = r1_name(f, !fam.plain);
                for ty in &fam.tys {
                    let got = match (ty.run)(f, x, w, mp, Path::Ret) {
                        None => continue,
                        Some(g) => g,
                    };
                    ctx.eval(&name, outcome_hash(&got));
                    ctx.traces += 1;
                    if let Some((pos, exp, g)) = judge(&got, &model, fam.law, cmp_for(f), ty.kind) {
                        let lo = pos.unwrap_or(0).saturating_sub(w + 2);
                        let hi = (pos.unwrap_or(0) + 1).min(x.len());
                        let info = CaseInfo { entry: &entry, f, plain: fam.plain, x, w, mp, pos, got: &got, model: &model, ty: &ty.name };
                        ctx.violation(Violation {
                            entry: entry.clone(),
                            finding: (fam.classify)(&info),
                            size: 100_000 + w,
                            case: json!({"family": name, "trace": label, "w": w, "mp": mp_json(mp), "ty": ty.name, "pos": pos,
                                         "series_around_pos": json_word(&x[lo..hi])}),
                            expected: exp,
                            got: g,
                        });
                    }
                }
            }
        }
    }
}

pub struct PairInfo<'a> {
    pub entry: &'a str,
    pub f: R2,
    pub a: &'a [X],
    pub b: &'a [X],
    pub w: usize,
    pub mp: Option<usize>,
    pub pos: Option<usize>,
    pub got: &'a Outcome<Vec<Cell>>,
    pub model: &'a [Exp],
    pub ty: &'a str,
}

/// History tree over *pairs*: one symbol = (first-series value, second-series value).
pub struct PairFam {
    pub name: String,
    pub alpha: Vec<X>,
    pub max_len: usize,
    pub fns: Vec<R2>,
    pub tys: Vec<Ty2>,
    pub paths: Vec<Path>,
    pub law: Law,
    pub w_lo: usize,
    pub w_extra: usize,
    /// (s1, s2) power-of-two scale factors of the first / second series for the scaling relation
    pub scales: Vec<(f64, f64)>,
    pub classify: fn(&PairInfo) -> Option<String>,
}

/// factor by which a two-series statistic changes under (y, x) -> (s1*y, s2*x)
pub fn scale_factor2(f: R2, s1: f64, s2: f64) -> f64 {
    match f {
        R2::Cov => s1 * s2,
        R2::Corr | R2::ResidSkew => 1.0,
        R2::Alpha | R2::ResidMean | R2::ResidStd | R2::All(0) => s1,
        R2::Beta | R2::All(1) => s1 / s2,
        R2::All(_) => s1 * s1,
    }
}

impl PairFam {
    pub fn split(&self, word: &[u8]) -> (Vec<X>, Vec<X>) {
        let k = self.alpha.len();
        let a = word.iter().map(|s| self.alpha[*s as usize / k]).collect();
        let b = word.iter().map(|s| self.alpha[*s as usize % k]).collect();
        (a, b)
    }
    pub fn check_word(&self, word: &[u8], ctx: &mut Ctx) {
        let (a, b) = self.split(word);
        // history-scaled absolute tolerance for statistics of degree two: eps-level noise relative to the
        // largest product of two alphabet values (1e-11 on the unit-scale alphabets, 2.5e-3 at 50001)
        let hmax = self.alpha.iter().flatten().fold(0.0f64, |m, v| m.max(v.abs()));
        set_abs_tol(1e-12 * hmax * hmax.max(1.0));
        self.check_word_tol(word, &a, &b, ctx);
        set_abs_tol(0.0);
    }
    fn check_word_tol(&self, word: &[u8], a: &[X], b: &[X], ctx: &mut Ctx) {
        let (a, b) = (a.to_vec(), b.to_vec());
        if self.name.ends_with("-nan-kinds") {
            if a.iter().chain(b.iter()).any(|v| v.is_none()) {
                for kind in [1u8, 3] {
                    with_nan_kind(kind, || self.check_pair(word, &a, &b, ctx));
                }
            }
        } else {
            self.check_pair(word, &a, &b, ctx)
        }
    }
    /// the same family with the float-encoded input types only, under the name `<name>-nan-kinds`
    pub fn nan_kinds(&self, max_len: usize) -> PairFam {
        PairFam {
            name: format!("{}-nan-kinds", self.name),
            alpha: self.alpha.clone(),
            max_len,
            fns: self.fns.clone(),
            tys: self.tys.iter().filter(|t| !t.name.contains("Option<") || t.name.starts_with("f64x") || t.name.starts_with("f32x")).cloned().collect(),
            paths: vec![Path::Ret],
            law: self.law,
            w_lo: self.w_lo,
            w_extra: self.w_extra,
            scales: vec![],
            classify: self.classify,
        }
    }
    pub fn check_pair(&self, word: &[u8], a: &[X], b: &[X], ctx: &mut Ctx) {
        let len = a.len();
        ctx.fam(&self.name).states += 1;
        let nontrivial = a.iter().zip(b).any(|(x, y)| x.is_some() && y.is_some());
        if nontrivial {
            ctx.nontrivial(&self.name, mix(hash_bytes(word), hash_u64s(&a.iter().chain(b).map(|x| x.map_or(7, |v| v.to_bits())).collect::<Vec<_>>())));
        }
        for (w, mp) in wmp_band(len, self.w_lo, self.w_extra) {
            for &f in &self.fns {
                let model = model_for2(f, a, b, w, mp);
                let entry = r2_name(f);
                for ty in &self.tys {
                    for &path in &self.paths {
                        if matches!(f, R2::All(_)) && path == Path::Buf {
                            continue; // ts_vregx_all has no out-buffer form
                        }
                        let got = match (ty.run)(f, a, b, w, mp, path) {
                            None => continue,
                            Some(g) => g,
                        };
                        ctx.eval(&self.name, outcome_hash(&got));
                        if ty.kind == OutKind::F64 && ty.name.starts_with("f64xf64") && path == Path::Ret {
                            for &(s1, s2) in &self.scales {
                                let sa: Vec<X> = a.iter().map(|v| v.map(|p| p * s1)).collect();
                                let sb: Vec<X> = b.iter().map(|v| v.map(|p| p * s2)).collect();
                                if let Some(gs) = (ty.run)(f, &sa, &sb, w, mp, path) {
                                    ctx.evals += 1;
                                    let open = model.iter().any(|e| e.any || (e.null_ok && e.val.is_some()));
                                    // residual statistics of an exact fit are rounding noise: no scaling law
                                    let noise = matches!(f, R2::ResidMean | R2::ResidStd | R2::ResidSkew | R2::All(2)) && model.iter().any(|e| e.val.map_or(false, |v| v.abs() < 1e-9));
                                    if !open && !noise && !scaled_matches(&got, &gs, scale_factor2(f, s1, s2)) {
                                        ctx.violation(Violation {
                                            entry: format!("scaling:{entry}"),
                                            finding: None,
                                            size: len * 100 + w,
                                            case: json!({"family": self.name, "word": word, "first": json_word(a), "second": json_word(b), "w": w, "mp": mp_json(mp), "scales": [s1, s2]}),
                                            expected: format!("{} * {}", scale_factor2(f, s1, s2), show_outcome(&got)),
                                            got: show_outcome(&gs),
                                        });
                                    }
                                }
                            }
                        }
                        if let Some((pos, exp, g)) = judge(&got, &model, self.law, Cmp::Tol, ty.kind) {
                            let info = PairInfo { entry: &entry, f, a, b, w, mp, pos, got: &got, model: &model, ty: &ty.name };
                            ctx.violation(Violation {
                                entry: entry.clone(),
                                finding: (self.classify)(&info),
                                size: len * 100 + w,
                                case: json!({"family": self.name, "word": word, "first": json_word(a), "second": json_word(b), "w": w,
                                             "mp": mp_json(mp), "ty": ty.name, "path": format!("{path:?}"), "pos": pos}),
                                expected: format!("{exp} (model series {})", show_exps(&model)),
                                got: format!("{g} (output {})", show_outcome(&got)),
                            });
                        } else if nontrivial && ctx.samples.len() < 3 && len >= 3 && w == 3 && mp == Some(2) {
                            ctx.sample(json!({"family": self.name, "entry": entry, "first": json_word(a), "second": json_word(b), "w": w,
                                              "mp": mp_json(mp), "model": show_exps(&model), "observed": show_outcome(&got)}));
                        }
                    }
                }
            }
        }
    }
}

impl TreeSys for PairFam {
    type Memo = ();
    fn k(&self) -> usize {
        self.alpha.len() * self.alpha.len()
    }
    fn max_len(&self) -> usize {
        self.max_len
    }
    fn visit(&self, word: &[u8], _p: Option<&()>, ctx: &mut Ctx) {
        self.check_word(word, ctx)
    }
    fn name(&self) -> String {
        self.name.clone()
    }
}

/// Visitor that calls one single-series null-aware entry point on every back end handed to it.
pub struct Roll1Visitor {
    pub f: R1,
    pub w: usize,
    pub mp: Option<usize>,
    pub path: Path,
    pub out: Vec<(String, Outcome<Vec<Cell>>)>,
}
impl<T> mc_adapt::backends::BackendVisitor<T> for Roll1Visitor
where
    T: IsNone,
    T::Inner: Number,
    Option<T::Inner>: Cast<f64>,
{
    fn visit<V: tevec::prelude::Vec1View<T> + mc_adapt::backends::SliceRead<T>>(&mut self, name: &str, v: &V) {
        let (f, w, mp, path) = (self.f, self.w, self.mp, self.path);
        let o = catch(|| call_v1::<V, T, Vec<f64>, f64>(f, v, w, mp, path).cells());
        self.out.push((name.to_string(), o));
    }
}

/// Visitor for the two-series family: both series live in the same kind of container.
pub struct Roll2Visitor<'a> {
    pub f: R2,
    pub second: &'a [X],
    pub w: usize,
    pub mp: Option<usize>,
    pub out: Vec<(String, Outcome<Vec<Cell>>)>,
}
impl<'a, T> mc_adapt::backends::BackendVisitor<T> for Roll2Visitor<'a>
where
    T: IsNone,
    T::Inner: Number,
{
    fn visit<V: tevec::prelude::Vec1View<T> + mc_adapt::backends::SliceRead<T>>(&mut self, name: &str, v: &V) {
        let (f, w, mp) = (self.f, self.w, self.mp);
        let b: Vec<f64> = enc_vec(self.second);
        let o = catch(|| call_v2::<V, T, Vec<f64>, f64, Vec<f64>, f64>(f, v, &b, w, mp, Path::Ret).cells());
        self.out.push((name.to_string(), o));
    }
}

/// The mirrored visitor: the *second* series lives in the visited container, the first in a plain Vec
/// (a second argument of a different backend / encoding than the first).
pub struct Roll2SecondVisitor<'a> {
    pub f: R2,
    pub first: &'a [X],
    pub w: usize,
    pub mp: Option<usize>,
    pub out: Vec<(String, Outcome<Vec<Cell>>)>,
}
impl<'a, T> mc_adapt::backends::BackendVisitor<T> for Roll2SecondVisitor<'a>
where
    T: IsNone,
    T::Inner: Number,
{
    fn visit<V: tevec::prelude::Vec1View<T> + mc_adapt::backends::SliceRead<T>>(&mut self, name: &str, v: &V) {
        let (f, w, mp) = (self.f, self.w, self.mp);
        let a: Vec<f64> = enc_vec(self.first);
        let o = catch(|| call_v2::<Vec<f64>, f64, V, T, Vec<f64>, f64>(f, &a, v, w, mp, Path::Ret).cells());
        self.out.push((format!("second series in {name}"), o));
    }
}

// ------------------------------------------------------------------------------------------------
// Large-scope, low-entropy families (DESIGN 3.3b): long series with a little structure, enumerated
// completely over their few parameters, so that windows and lengths far beyond the history trees are
// reached (w up to 300, len up to 320): thresholds that depend on the window size, narrow index
// types, long null runs, caches that expire together.

/// (label, series) of length `len`: monotone, periodic, plateau, constant, zigzag shapes, each also with
/// null blocks and periodic null patterns
///
/// `bounded`: for the statistics that are compared with a tolerance. A long monotone ramp seen through a
/// short window has a large mean / spread ratio, where the library's one-pass moment formulas lose digits
/// legitimately (DESIGN 5.2: conditioning is outside the properties); the bounded variants keep every
/// value within +-23 so that rounding stays orders of magnitude below the tolerance. The exactly compared
/// statistics (extrema, arg, rank, null masks) use the unbounded shapes (long monotone runs are the worst
/// case for the expiry of a cached extreme).
pub fn structured_shapes(len: usize, bounded: bool) -> Vec<(String, Vec<X>)> {
    let mut base: Vec<(String, Vec<f64>)> = if bounded {
        vec![
            ("ramp-up".into(), (0..len).map(|i| (i % 23) as f64 - 11.0).collect()),
            ("ramp-down".into(), (0..len).map(|i| 11.0 - (i % 23) as f64).collect()),
            ("constant".into(), vec![1.0; len]),
            ("zigzag".into(), (0..len).map(|i| if i % 2 == 0 { (i % 7) as f64 } else { -((i % 5) as f64) - 0.5 }).collect()),
            ("plateaus".into(), (0..len).map(|i| ((i / 4) % 6) as f64).collect()),
        ]
    } else {
        vec![
            ("ramp-up".into(), (0..len).map(|i| i as f64).collect()),
            ("ramp-down".into(), (0..len).map(|i| (len - i) as f64).collect()),
            ("constant".into(), vec![1.0; len]),
            ("zigzag".into(), (0..len).map(|i| if i % 2 == 0 { (i / 2) as f64 } else { -((i / 2) as f64) - 0.5 }).collect()),
            ("plateaus".into(), (0..len).map(|i| (i / 4) as f64).collect()),
        ]
    };
    for p in [3usize, 8, 17] {
        base.push((format!("saw({p})"), (0..len).map(|i| (i % p) as f64).collect()));
        base.push((format!("saw-down({p})"), (0..len).map(|i| (p - i % p) as f64 * 0.5).collect()));
    }
    let mut out: Vec<(String, Vec<X>)> = vec![];
    for (name, v) in &base {
        out.push((name.clone(), v.iter().map(|x| Some(*x)).collect()));
    }
    // null patterns on three representative shapes
    for (name, v) in base.iter().filter(|(n, _)| n == "ramp-up" || n == "saw(8)" || n == "zigzag") {
        let blocks: Vec<(usize, usize)> = vec![(0, 3), (5, 9), (len.saturating_sub(4), 4), (len / 3, len / 3), (1, len.saturating_sub(2))];
        for (a, b) in blocks {
            let x: Vec<X> = v.iter().enumerate().map(|(i, x)| if i >= a && i < a + b { None } else { Some(*x) }).collect();
            out.push((format!("{name}+nulls[{a}..{}]", a + b), x));
        }
        for q in [2usize, 3, 7] {
            out.push((format!("{name}+null-every-{q}"), v.iter().enumerate().map(|(i, x)| if i % q == q - 1 { None } else { Some(*x) }).collect()));
            out.push((format!("{name}+valid-every-{q}"), v.iter().enumerate().map(|(i, x)| if i % q == 0 { Some(*x) } else { None }).collect()));
        }
    }
    out
}

/// (len, windows) grid of the structured families
pub fn structured_grid(thorough: bool) -> Vec<(usize, Vec<usize>)> {
    if thorough {
        vec![
            (24, vec![9, 12, 13, 16, 23, 24, 25]),
            (40, vec![12, 15, 16, 17, 31, 32, 33, 39, 40, 41]),
            (70, vec![16, 32, 63, 64, 65, 70, 72]),
            (130, vec![64, 100, 127, 128, 129, 130]),
            (300, vec![128, 200, 255, 256, 257, 299, 300, 301]),
            // very long series (a state that is rebuilt / re-synchronised every so many positions); every
            // fourth shape, few windows
            (1030, vec![3, 20]),
            (2100, vec![7, 64]),
        ]
    } else {
        vec![(40, vec![12, 16, 17, 32, 33, 40, 41]), (270, vec![255, 256, 257]), (1030, vec![3, 20])]
    }
}
fn structured_shapes_for(len: usize, bounded: bool) -> Vec<(String, Vec<X>)> {
    let shapes = structured_shapes(len, bounded);
    if len > 1000 {
        shapes.into_iter().enumerate().filter(|(i, _)| i % 4 == 0).map(|(_, s)| s).collect()
    } else {
        shapes
    }
}

fn structured_mps(w: usize) -> Vec<Option<usize>> {
    let mut v = vec![None, Some(0), Some(1), Some(w / 2 + 1), Some(w)];
    v.dedup();
    v
}

/// single-series structured families on the first `n_tys` instantiations of `fam`
pub fn check_structured(fam: &SeriesFam, thorough: bool, n_tys: usize, ctx: &mut Ctx) {
    // bounded shapes whenever a value is compared with a tolerance
    let bounded = fam.law != Law::Mask && fam.fns.iter().any(|f| cmp_for(*f) == Cmp::Tol);
    for (len, ws) in structured_grid(thorough) {
        check_shapes(fam, "structured", &structured_shapes_for(len, bounded), &ws, n_tys, ctx);
    }
}

/// parallel form: one work item per (length, shape)
pub fn check_structured_par(fam: &SeriesFam, thorough: bool, n_tys: usize, threads: usize) -> Ctx {
    let bounded = fam.law != Law::Mask && fam.fns.iter().any(|f| cmp_for(*f) == Cmp::Tol);
    let mut items: Vec<((String, Vec<X>), Vec<usize>)> = vec![];
    for (len, ws) in structured_grid(thorough) {
        for sh in structured_shapes_for(len, bounded) {
            items.push((sh, ws.clone()));
        }
    }
    par_items(&items, threads, |(sh, ws), ctx| check_shapes(fam, "structured", std::slice::from_ref(sh), ws, n_tys, ctx))
}

/// the given (label, series) list x windows x a min_periods band x the family's entry points and types
pub fn check_shapes(fam: &SeriesFam, suffix: &str, shapes: &[(String, Vec<X>)], ws: &[usize], n_tys: usize, ctx: &mut Ctx) {
    let name = format!("{}/{suffix}", fam.name);
    for (label, x) in shapes {
        let len = x.len();
        if fam.plain && x.iter().any(|v| v.is_none()) {
            continue;
        }
        ctx.fam(&name).states += 1;
        ctx.states += 1;
        ctx.nontrivial(&name, hash_bytes(format!("{label}{len}").as_bytes()));
        trace_state(|| json!({"family": name, "shape": label, "len": len}));
        for &w in ws {
            for mp in structured_mps(w) {
                for &f in &fam.fns {
                    if fam.plain && matches!(f, R1::Fdiff(_)) && mp.is_some() {
                        continue;
                    }
                    if !(fam.cfg_ok)(f, len, w, mp) {
                        continue;
                    }
                    let model = model_for1(f, x, w, mp, fam.plain);
                    let entry = r1_name(f, !fam.plain);
                    for ty in fam.tys.iter().take(n_tys) {
                        let got = match (ty.run)(f, x, w, mp, Path::Ret) {
                            None => continue,
                            Some(g) => g,
                        };
                        ctx.eval(&name, outcome_hash(&got));
                        ctx.transitions += 1;
                        if let Some((pos, exp, g)) = judge(&got, &model, fam.law, cmp_for(f), ty.kind) {
                            let p = pos.unwrap_or(0);
                            let lo = p.saturating_sub(6);
                            let info = CaseInfo { entry: &entry, f, plain: fam.plain, x, w, mp, pos, got: &got, model: &model, ty: &ty.name };
                            ctx.violation(Violation {
                                entry: entry.clone(),
                                finding: (fam.classify)(&info),
                                size: 200_000 + len * 10 + w,
                                case: json!({"family": name, "shape": label, "len": len, "w": w, "mp": mp_json(mp), "ty": ty.name, "pos": pos,
                                             "series_before_pos": json_word(&x[lo..(p + 1).min(len)])}),
                                expected: exp,
                                got: g,
                            });
                        } else {
                            ctx.traces += 1;
                        }
                    }
                }
            }
        }
    }
}

/// flat stretches of values that are not exact in binary: the one-pass variance of a constant window is
/// then rounding noise of either sign around 0. Only the null mask is claimed on these (C05): a standard
/// deviation / variance of a window that holds enough observations is defined (it is 0) and must not
/// come out null. (Values are not judged: the size of the noise is a matter of conditioning, DESIGN 5.2.)
pub fn nondyadic_plateaus() -> Vec<(String, Vec<X>)> {
    let mut out: Vec<(String, Vec<X>)> = vec![];
    let levels = [0.1, 33.3, 100.37, 104.14, 1_000_000.1, -77.7];
    for lv in levels {
        out.push((format!("constant({lv})"), vec![Some(lv); 48]));
        out.push((format!("constant({lv})+null-every-5"), (0..48).map(|i| if i % 5 == 4 { None } else { Some(lv) }).collect()));
    }
    out.push(("plateaus(8)".into(), (0..48).map(|i| Some(levels[(i / 8) % levels.len()])).collect()));
    out.push(("plateaus(13)".into(), (0..52).map(|i| Some(levels[(i / 13) % levels.len()])).collect()));
    out
}

/// two-series structured families: every shape against three partners (the same shape delayed by one, a saw, a ramp with nulls)
pub fn check_structured_pairs(fam: &PairFam, thorough: bool, ctx: &mut Ctx) {
    let name = format!("{}/structured", fam.name);
    // smaller grid: the regression oracles are O(len * w) per call and there are 13 statistics
    let grid: Vec<(usize, Vec<usize>)> = if thorough {
        // very long series (a state that is rebuilt or re-synchronised every so many positions): few windows
        vec![(40, vec![12, 16, 17, 32, 33, 40, 41]), (130, vec![64, 127, 128, 129]), (270, vec![255, 256, 257]), (1030, vec![2, 20]), (2100, vec![7, 64])]
    } else {
        vec![(40, vec![16, 17, 33, 40, 41]), (260, vec![256, 257]), (1030, vec![2, 20])]
    };
    for (len, ws) in grid {
        let mut shapes = structured_shapes(len, fam.law != Law::Mask);
        if len > 1000 {
            shapes = shapes.into_iter().enumerate().filter(|(i, _)| i % 4 == 0).map(|(_, s)| s).collect();
        }
        let saw: Vec<X> = (0..len).map(|i| Some(((i * 7) % 5) as f64 - 1.0)).collect();
        let gappy: Vec<X> = (0..len).map(|i| if i % 5 == 3 || (i > 9 && i < 20) { None } else { Some((i % 11) as f64) }).collect();
        for (label, a) in &shapes {
            let mut delayed: Vec<X> = a.clone();
            delayed.rotate_right(1);
            for (plabel, b) in [("delayed", &delayed), ("saw", &saw), ("gappy", &gappy)] {
                ctx.fam(&name).states += 1;
                ctx.states += 1;
                ctx.nontrivial(&name, hash_bytes(format!("{label}{plabel}{len}").as_bytes()));
                trace_state(|| json!({"family": name, "shape": label, "partner": plabel, "len": len}));
                for &w in &ws {
                    for mp in structured_mps(w) {
                        for &f in &fam.fns {
                            let model = model_for2(f, a, b, w, mp);
                            let entry = r2_name(f);
                            let ty = &fam.tys[0];
                            let got = match (ty.run)(f, a, b, w, mp, Path::Ret) {
                                None => continue,
                                Some(g) => g,
                            };
                            ctx.eval(&name, outcome_hash(&got));
                            ctx.transitions += 1;
                            if let Some((pos, exp, g)) = judge(&got, &model, fam.law, Cmp::Tol, ty.kind) {
                                let p = pos.unwrap_or(0);
                                let lo = p.saturating_sub(6);
                                let info = PairInfo { entry: &entry, f, a, b, w, mp, pos, got: &got, model: &model, ty: &ty.name };
                                ctx.violation(Violation {
                                    entry: entry.clone(),
                                    finding: (fam.classify)(&info),
                                    size: 200_000 + len * 10 + w,
                                    case: json!({"family": name, "shape": label, "partner": plabel, "len": len, "w": w, "mp": mp_json(mp), "pos": pos,
                                                 "first_before_pos": json_word(&a[lo..(p + 1).min(len)]), "second_before_pos": json_word(&b[lo..(p + 1).min(len)])}),
                                    expected: exp,
                                    got: g,
                                });
                            } else {
                                ctx.traces += 1;
                            }
                        }
                    }
                }
            }
        }
    }
}

/// Value law on every input back end (seed round 6: a fast path of one back end may break the value of a
/// statistic only there). Short words; the single-series entry points `fns` under `law`, the two-series ones
/// `fns2` (first series in the container, second a plain Vec) under `Law::Value`; returned and caller-buffer path.
pub fn check_backends_value(name: &str, fns: &[R1], fns2: &[R2], law: Law, word: &[u8], alpha: &[X], cfg_ok: fn(R1, usize, usize, Option<usize>) -> bool, ctx: &mut Ctx) {
    use mc_adapt::backends::{for_backends, for_backends_opt};
    let x = decode(word, alpha);
    let len = x.len();
    ctx.fam(name).states += 1;
    if x.iter().any(|v| v.is_some()) {
        ctx.nontrivial(name, hash_bytes(word));
    }
    let second: Vec<X> = x.iter().enumerate().map(|(i, v)| if i % 3 == 2 { None } else { Some(v.map_or(1.0, |a| a * 2.0 + 1.0) + (i % 2) as f64) }).collect();
    for (w, mp) in wmp_band(len, 1, 2) {
        for &f in fns {
            if matches!(f, R1::Fdiff(_)) || !cfg_ok(f, len, w, mp) {
                continue;
            }
            let model = model_for1(f, &x, w, mp, false);
            let entry = r1_name(f, true);
            for path in [Path::Ret, Path::Buf] {
                let mut outs = vec![];
                let mut vis = Roll1Visitor { f, w, mp, path, out: vec![] };
                for_backends::<f64, _>(&x, 1, &mut vis);
                outs.extend(vis.out.drain(..).map(|(n, o)| (format!("f64 {n}"), o)));
                for_backends_opt(&x, 1, &mut vis);
                outs.extend(vis.out.drain(..).map(|(n, o)| (format!("Option<f64> {n}"), o)));
                for (bname, got) in outs {
                    ctx.eval(name, outcome_hash(&got));
                    ctx.transitions += 1;
                    if let Some((pos, exp, g)) = judge(&got, &model, law, cmp_for(f), OutKind::F64) {
                        ctx.violation(Violation {
                            entry: entry.clone(),
                            finding: None,
                            size: len * 100 + w,
                            case: json!({"family": name, "word": word, "series": json_word(&x), "w": w, "mp": mp_json(mp), "backend": bname, "path": format!("{path:?}"), "pos": pos}),
                            expected: format!("{exp} (model series {})", show_exps(&model)),
                            got: format!("{g} (output {})", show_outcome(&got)),
                        });
                    }
                }
            }
        }
        for &f in fns2 {
            if matches!(f, R2::All(_)) {
                continue;
            }
            let model = model_for2(f, &x, &second, w, mp);
            let entry = r2_name(f);
            let mut vis = Roll2Visitor { f, second: &second, w, mp, out: vec![] };
            for_backends::<f64, _>(&x, 0, &mut vis);
            for_backends_opt(&x, 0, &mut vis);
            // and mirrored: the second series in every backend configuration, the first in a Vec
            let mut vis2 = Roll2SecondVisitor { f, first: &x, w, mp, out: vec![] };
            for_backends::<f64, _>(&second, 0, &mut vis2);
            for_backends_opt(&second, 0, &mut vis2);
            vis.out.extend(vis2.out.drain(..));
            for (bname, got) in vis.out.drain(..) {
                ctx.eval(name, outcome_hash(&got));
                ctx.transitions += 1;
                if let Some((pos, exp, g)) = judge(&got, &model, Law::Value, Cmp::Tol, OutKind::F64) {
                    ctx.violation(Violation {
                        entry: entry.clone(),
                        finding: None,
                        size: len * 100 + w,
                        case: json!({"family": name, "word": word, "first": json_word(&x), "second": json_word(&second), "w": w, "mp": mp_json(mp), "backend": bname, "pos": pos}),
                        expected: format!("{exp} (model series {})", show_exps(&model)),
                        got: format!("{g} (output {})", show_outcome(&got)),
                    });
                }
            }
        }
    }
}
