//! C06 — rolling and lagging results never depend on later (or pre-window) data.
use mc_adapt::maps::*;
use mc_adapt::roll::*;
use mc_checks::rollcheck::*;
use mc_checks::*;
use std::collections::HashMap;

fn bit_eq(a: &Cell, b: &Cell) -> bool {
    match (a, b) {
        (Cell::F(x), Cell::F(y)) => x.to_bits() == y.to_bits() || (x.is_nan() && y.is_nan()),
        _ => a.is_null() && b.is_null() || a == b,
    }
}

fn valid_fns() -> Vec<R1> {
    let mut v = V1_FEATURE.to_vec();
    v.extend(V1_CMP);
    v.extend(V1_NORM);
    v.extend(V1_REG);
    v.push(R1::Fdiff(0.5));
    // integer orders: the coefficients beyond lag d vanish, the warm-up law does not depend on d
    v.push(R1::Fdiff(1.0));
    v.push(R1::Fdiff(2.0));
    v
}
fn plain_fns() -> Vec<R1> {
    let mut v = V1_FEATURE.to_vec();
    v.push(R1::Fdiff(0.5));
    // integer orders: the coefficients beyond lag d vanish, the warm-up law does not depend on d
    v.push(R1::Fdiff(1.0));
    v.push(R1::Fdiff(2.0));
    v
}
fn all2() -> Vec<R2> {
    let mut v = V2_ALL.to_vec();
    v.extend([R2::All(0), R2::All(1), R2::All(2)]);
    v
}

type Memo = HashMap<u64, Outcome<Vec<Cell>>>;

/// (a) prefix law on every edge parent -> child of the history tree, bit for bit.
struct PrefixSingle {
    name: String,
    alpha: Vec<X>,
    max_len: usize,
    plain: bool,
    fns: Vec<R1>,
    tys: Vec<Ty1>,
}

impl PrefixSingle {
    fn outputs(&self, x: &[X], ctx: Option<&mut Ctx>) -> Memo {
        let mut m = Memo::new();
        let len = x.len();
        let mut evals = 0u64;
        // one window further than the child's band so the parent memo always has the configuration
        for (w, mp) in wmp_band(len, 1, 3) {
            for (fi, &f) in self.fns.iter().enumerate() {
                if self.plain && matches!(f, R1::Fdiff(_)) && mp.is_some() {
                    continue;
                }
                for (ti, ty) in self.tys.iter().enumerate() {
                    if matches!(f, R1::Min | R1::Max) && ty.kind == OutKind::Int {
                        continue;
                    }
                    if let Some(o) = (ty.run)(f, x, w, mp, Path::Ret) {
                        evals += 1;
                        m.insert(key(fi, w, mp, ti), o);
                    }
                }
            }
        }
        if let Some(c) = ctx {
            c.evals += evals;
            c.fam(&self.name).evals += evals;
        }
        m
    }
    fn check(&self, word: &[u8], parent: Option<&Memo>, ctx: &mut Ctx) -> Memo {
        let x = decode(word, &self.alpha);
        let len = x.len();
        ctx.fam(&self.name).states += 1;
        let me = self.outputs(&x, Some(ctx));
        let parent = match parent {
            Some(p) => p,
            None => return me,
        };
        if x.iter().any(|v| v.is_some()) {
            ctx.nontrivial(&self.name, hash_bytes(word));
        }
        let plen = len - 1;
        for (w, mp) in wmp_band(len, 1, 2) {
            for (fi, &f) in self.fns.iter().enumerate() {
                // DESIGN 5.3: omitted min_periods of the extrema/rank family only when the parent is >= w long
                if f.is_cmp() && mp.is_none() && plen < w {
                    continue;
                }
                for (ti, ty) in self.tys.iter().enumerate() {
                    let k = key(fi, w, mp, ti);
                    let (child, par) = match (me.get(&k), parent.get(&k)) {
                        (Some(Outcome::Ok(c)), Some(Outcome::Ok(p))) => (c, p),
                        _ => continue, // panics / not encodable: judged by C05
                    };
                    let h = hash_cells(child);
                    let fam = ctx.fam(&self.name);
                    if fam.outcomes.len() < 200_000 {
                        fam.outcomes.insert(h);
                    }
                    let ok = child.len() == len && par.len() == plen && child[..plen].iter().zip(par).all(|(a, b)| bit_eq(a, b));
                    if !ok {
                        let entry = r1_name(f, !self.plain);
                        ctx.violation(Violation {
                            entry: format!("prefix:{entry}"),
                            finding: None,
                            size: len * 100 + w,
                            case: json!({"family": self.name, "word": word, "series": json_word(&x), "w": w, "mp": mp_json(mp), "ty": ty.name}),
                            expected: format!("f(series)[..{plen}] == f(series[..{plen}]) = {}", show_cells(par)),
                            got: show_cells(child),
                        });
                    } else if ctx.samples.len() < 2 && len == 5 && w == 3 && mp == Some(1) && fi == 2 {
                        ctx.sample(json!({"law": "prefix", "entry": r1_name(f, !self.plain), "series": json_word(&x), "w": w, "mp": 1,
                                          "on_prefix": show_cells(par), "on_whole": show_cells(child)}));
                    }
                }
            }
        }
        me
    }
}
fn key(fi: usize, w: usize, mp: Option<usize>, ti: usize) -> u64 {
    hash_u64s(&[fi as u64, w as u64, mp.map_or(999, |m| m as u64), ti as u64])
}
impl TreeSys for PrefixSingle {
    type Memo = Memo;
    fn k(&self) -> usize {
        self.alpha.len()
    }
    fn max_len(&self) -> usize {
        self.max_len
    }
    fn name(&self) -> String {
        self.name.clone()
    }
    fn visit(&self, word: &[u8], parent: Option<&Memo>, ctx: &mut Ctx) -> Memo {
        self.check(word, parent, ctx)
    }
}

struct PrefixPairs {
    name: String,
    alpha: Vec<X>,
    max_len: usize,
    fns: Vec<R2>,
}
impl PrefixPairs {
    fn split(&self, word: &[u8]) -> (Vec<X>, Vec<X>) {
        let k = self.alpha.len();
        (word.iter().map(|s| self.alpha[*s as usize / k]).collect(), word.iter().map(|s| self.alpha[*s as usize % k]).collect())
    }
    fn outputs(&self, a: &[X], b: &[X], ctx: &mut Ctx) -> Memo {
        let mut m = Memo::new();
        for (w, mp) in wmp_band(a.len(), 1, 3) {
            for (fi, &f) in self.fns.iter().enumerate() {
                if let Some(o) = run_v2::<f64, f64, f64>(f, a, b, w, mp, Path::Ret) {
                    ctx.evals += 1;
                    ctx.fam(&self.name).evals += 1;
                    m.insert(key(fi, w, mp, 0), o);
                }
            }
        }
        m
    }
}
impl TreeSys for PrefixPairs {
    type Memo = Memo;
    fn k(&self) -> usize {
        self.alpha.len() * self.alpha.len()
    }
    fn max_len(&self) -> usize {
        self.max_len
    }
    fn name(&self) -> String {
        self.name.clone()
    }
    fn visit(&self, word: &[u8], parent: Option<&Memo>, ctx: &mut Ctx) -> Memo {
        let (a, b) = self.split(word);
        let len = a.len();
        ctx.fam(&self.name).states += 1;
        let me = self.outputs(&a, &b, ctx);
        let parent = match parent {
            Some(p) => p,
            None => return me,
        };
        ctx.nontrivial(&self.name, hash_bytes(word));
        for (w, mp) in wmp_band(len, 1, 2) {
            for (fi, &f) in self.fns.iter().enumerate() {
                let k = key(fi, w, mp, 0);
                let (child, par) = match (me.get(&k), parent.get(&k)) {
                    (Some(Outcome::Ok(c)), Some(Outcome::Ok(p))) => (c, p),
                    _ => continue,
                };
                let h = hash_cells(child);
                let fam = ctx.fam(&self.name);
                if fam.outcomes.len() < 200_000 {
                    fam.outcomes.insert(h);
                }
                let ok = child.len() == len && child[..len - 1].iter().zip(par).all(|(x, y)| bit_eq(x, y));
                if !ok {
                    ctx.violation(Violation {
                        entry: format!("prefix:{}", r2_name(f)),
                        finding: None,
                        size: len * 100 + w,
                        case: json!({"family": self.name, "word": word, "first": json_word(&a), "second": json_word(&b), "w": w, "mp": mp_json(mp)}),
                        expected: format!("prefix of the result == result on the prefix = {}", show_cells(par)),
                        got: show_cells(child),
                    });
                }
            }
        }
        me
    }
}

/// positive-lag shift / difference / percentage change: prefix law
fn map_ops(len: usize) -> Vec<MapOp> {
    let mut v = vec![];
    for n in 0..=(len as i32 + 2) {
        for fill in [None, Some(None), Some(Some(7.0))] {
            v.push(MapOp::VShift(n, fill));
            v.push(MapOp::VDiff(n, fill));
        }
        v.push(MapOp::Shift(n, None));
        v.push(MapOp::Shift(n, Some(7.0)));
        v.push(MapOp::VPct(n));
    }
    v
}
struct PrefixMaps {
    name: String,
    alpha: Vec<X>,
    max_len: usize,
}
impl PrefixMaps {
    fn run(&self, op: &MapOp, x: &[X]) -> Option<Outcome<Drained>> {
        let v: Vec<f64> = enc_vec(x);
        run_map_num::<Vec<f64>, f64>(op, &v)
    }
}
impl TreeSys for PrefixMaps {
    type Memo = ();
    fn k(&self) -> usize {
        self.alpha.len()
    }
    fn max_len(&self) -> usize {
        self.max_len
    }
    fn name(&self) -> String {
        self.name.clone()
    }
    fn visit(&self, word: &[u8], _p: Option<&()>, ctx: &mut Ctx) {
        let x = decode(word, &self.alpha);
        let len = x.len();
        ctx.fam(&self.name).states += 1;
        if len == 0 {
            return;
        }
        ctx.nontrivial(&self.name, hash_bytes(word));
        for op in map_ops(len) {
            // F11: `shift` with |n| > len is a defect of C09/C13 (wrong length / underflow); the prefix law is
            // only meaningful where both calls return
            let (c, p) = match (self.run(&op, &x), self.run(&op, &x[..len - 1])) {
                (Some(Outcome::Ok(c)), Some(Outcome::Ok(p))) => (c, p),
                _ => continue,
            };
            ctx.eval(&self.name, hash_cells(&c.cells));
            ctx.evals += 1;
            let ok = c.cells.len() >= len - 1 && p.cells.len() == len - 1 && c.cells[..len - 1].iter().zip(&p.cells).all(|(a, b)| bit_eq(a, b));
            if !ok {
                // shift with n > len yields a longer series (F11, judged by C09/C13): not a causality defect
                if matches!(op, MapOp::Shift(n, _) if n as usize > len - 1) {
                    continue;
                }
                // F17: vdiff(n>0, fill) computes x[i]-fill in the first n places but returns the bare fill when len<=n
                let finding = match &op {
                    MapOp::VDiff(n, Some(Some(_))) if *n > 0 => Some("F17".to_string()),
                    _ => None,
                };
                ctx.violation(Violation {
                    entry: format!("prefix:{}", op.name()),
                    finding,
                    size: len * 100,
                    case: json!({"family": self.name, "word": word, "series": json_word(&x), "op": op.show()}),
                    expected: format!("prefix of the result == result on the prefix = {}", show_cells(&p.cells)),
                    got: show_cells(&c.cells),
                });
            }
        }
    }
}

/// (b) window-only dependence: f(A ++ W)[last] ~ f(W)[last] for every window word W and pre-history A
fn window_only(run: &Run, total: &mut Ctx) {
    let name = "window-only";
    let alpha_w: Vec<X> = vec![None, Some(-2.0), Some(0.0), Some(1.0), Some(3.0)];
    // pre-histories also contain nulls: a null that left the window must leave no trace either
    let alpha_a: Vec<X> = vec![Some(-2.0), Some(0.0), Some(1.0), Some(3.0), None];
    let max_w = run.pick(3, 4);
    let max_a = run.pick(2, 3);
    let wins = all_words_upto(alpha_w.len(), max_w);
    let pres = all_words_upto(alpha_a.len(), max_a);
    let fns = valid_fns();
    let c = par_items(&wins, run.threads, |ww, ctx| {
        let w = ww.len();
        if w == 0 {
            return;
        }
        let win = decode(ww, &alpha_w);
        ctx.states += 1;
        ctx.fam(name).states += 1;
        ctx.nontrivial(name, hash_bytes(ww));
        for &f in &fns {
            for mp in 0..=w {
                let base = match run_v1::<f64, f64>(f, &win, w, Some(mp), Path::Ret) {
                    Some(Outcome::Ok(c)) => c,
                    _ => continue,
                };
                let b_last = base.last().unwrap().clone();
                for pre in &pres {
                    if pre.is_empty() {
                        continue;
                    }
                    let mut x = decode(pre, &alpha_a);
                    x.extend(win.iter().cloned());
                    ctx.transitions += 1;
                    let got = match run_v1::<f64, f64>(f, &x, w, Some(mp), Path::Ret) {
                        Some(Outcome::Ok(c)) => c,
                        _ => continue,
                    };
                    ctx.eval(name, got.last().unwrap().hash64());
                    let g_last = got.last().unwrap();
                    let ok = match cmp_for(f) {
                        Cmp::Exact => exact_eq(g_last, &b_last),
                        Cmp::Tol => tol_eq(g_last, &b_last),
                    };
                    if !ok {
                        // F02: ts_vewm on an all-null window with min_periods 0 divides a rounding residue by zero
                        let finding = if f == R1::Ewm && mp == 0 && win.iter().all(|v| v.is_none()) { Some("F02".to_string()) } else { None };
                        ctx.violation(Violation {
                            entry: format!("window-only:{}", r1_name(f, true)),
                            finding,
                            size: x.len() * 100 + w,
                            case: json!({"family": name, "window": json_word(&win), "pre_history": json_word(&x[..pre.len()]), "w": w, "mp": mp}),
                            expected: format!("last output as on the window alone: {}", b_last.show()),
                            got: g_last.show(),
                        });
                    }
                }
            }
        }
        ctx.traces += 1;
    });
    total.merge(c);
}

/// (b) with both zeros (round 11): -0.0 and +0.0 compare equal, so a cached extreme can survive as "the same
/// value" although the element it was copied from has left the window. The extreme that is reported is an element
/// of the window: bit for bit the same whatever preceded the window.
fn window_only_signed_zero(run: &Run, total: &mut Ctx) {
    let name = "window-only-signed-zero";
    let alpha_w: Vec<X> = vec![None, Some(-0.0), Some(0.0), Some(1.0)];
    let alpha_a: Vec<X> = vec![Some(0.0), Some(-0.0), Some(-7.5), Some(2.0), None];
    let wins = all_words_upto(alpha_w.len(), run.pick(3, 4));
    let pres = all_words_upto(alpha_a.len(), run.pick(2, 3));
    let bits = |c: &Cell| c.num().map(|v| v.to_bits());
    let c = par_items(&wins, run.threads, |ww, ctx| {
        let w = ww.len();
        if w == 0 {
            return;
        }
        let win = decode(ww, &alpha_w);
        ctx.states += 1;
        ctx.fam(name).states += 1;
        ctx.nontrivial(name, hash_bytes(ww));
        for f in [R1::Min, R1::Max] {
            for mp in [0usize, 1] {
                let base = match run_v1::<f64, f64>(f, &win, w, Some(mp), Path::Ret) {
                    Some(Outcome::Ok(c)) => c,
                    _ => continue,
                };
                let b_last = base.last().unwrap().clone();
                // the extreme is an element of its window (bitwise)
                let in_window = b_last.is_null() || win.iter().flatten().any(|v| Some(v.to_bits()) == bits(&b_last));
                if !in_window {
                    ctx.violation(Violation {
                        entry: format!("window-only:{} (signed zero)", r1_name(f, true)),
                        finding: None,
                        size: w,
                        case: json!({"family": name, "window": json_word(&win), "pre_history": [], "w": w, "mp": mp}),
                        expected: "an element of the window, bit for bit".into(),
                        got: b_last.show(),
                    });
                }
                for pre in &pres {
                    if pre.is_empty() {
                        continue;
                    }
                    let mut x = decode(pre, &alpha_a);
                    x.extend(win.iter().cloned());
                    ctx.transitions += 1;
                    let got = match run_v1::<f64, f64>(f, &x, w, Some(mp), Path::Ret) {
                        Some(Outcome::Ok(c)) => c,
                        _ => continue,
                    };
                    let g_last = got.last().unwrap();
                    ctx.eval(name, bits(g_last).unwrap_or(7));
                    if bits(g_last) != bits(&b_last) || g_last.is_null() != b_last.is_null() {
                        ctx.violation(Violation {
                            entry: format!("window-only:{} (signed zero)", r1_name(f, true)),
                            finding: None,
                            size: x.len() * 100 + w,
                            case: json!({"family": name, "window": json_word(&win), "pre_history": json_word(&x[..pre.len()]), "w": w, "mp": mp}),
                            expected: format!("last output as on the window alone, bit for bit: {}", b_last.show()),
                            got: g_last.show(),
                        });
                    }
                }
            }
        }
        ctx.traces += 1;
    });
    total.merge(c);
}

/// (b) for the two-series family: window pair word W, pre-history pair word A
fn window_only_pairs(run: &Run, total: &mut Ctx) {
    let name = "window-only-pairs";
    let alpha: Vec<X> = vec![None, Some(0.0), Some(1.0), Some(3.0)];
    let k = alpha.len();
    let max_w = run.pick(3, 3);
    let max_a = run.pick(1, 2);
    let wins = all_words_upto(k * k, max_w);
    let pres = all_words_upto(k * k, max_a);
    let split = |w: &[u8]| -> (Vec<X>, Vec<X>) { (w.iter().map(|s| alpha[*s as usize / k]).collect(), w.iter().map(|s| alpha[*s as usize % k]).collect()) };
    let fns = all2();
    let c = par_items(&wins, run.threads, |ww, ctx| {
        let w = ww.len();
        if w < 2 {
            return;
        }
        let (wa, wb) = split(ww);
        ctx.states += 1;
        ctx.fam(name).states += 1;
        ctx.nontrivial(name, hash_bytes(ww));
        for &f in &fns {
            for mp in [0, 2, w] {
                let base = match run_v2::<f64, f64, f64>(f, &wa, &wb, w, Some(mp), Path::Ret) {
                    Some(Outcome::Ok(c)) => c,
                    _ => continue,
                };
                let b_last = base.last().unwrap().clone();
                for pre in &pres {
                    if pre.is_empty() {
                        continue;
                    }
                    let (mut xa, mut xb) = split(pre);
                    xa.extend(wa.iter().cloned());
                    xb.extend(wb.iter().cloned());
                    ctx.transitions += 1;
                    let got = match run_v2::<f64, f64, f64>(f, &xa, &xb, w, Some(mp), Path::Ret) {
                        Some(Outcome::Ok(c)) => c,
                        _ => continue,
                    };
                    let g_last = got.last().unwrap();
                    ctx.eval(name, g_last.hash64());
                    // skewness of the rounding noise left by an exact fit is arbitrary (DESIGN 5.6)
                    if f == R2::ResidSkew {
                        let m = mc_ref::roll::expect2(f, &wa, &wb, w, Some(mp));
                        if m.any {
                            continue;
                        }
                    }
                    if !tol_eq(g_last, &b_last) {
                        ctx.violation(Violation {
                            entry: format!("window-only:{}", r2_name(f)),
                            finding: None,
                            size: xa.len() * 100 + w,
                            case: json!({"family": name, "window_first": json_word(&wa), "window_second": json_word(&wb), "pre_first": json_word(&xa[..pre.len()]), "pre_second": json_word(&xb[..pre.len()]), "w": w, "mp": mp}),
                            expected: format!("last output as on the window alone: {}", b_last.show()),
                            got: g_last.show(),
                        });
                    }
                }
            }
        }
        ctx.traces += 1;
    });
    total.merge(c);
}

/// prefix law on long structured series (DESIGN 5.14): f(x)[..k] == f(x[..k]) bit for bit for cuts near the
/// end and in the middle, windows up to len+1
fn prefix_long(run: &Run, total: &mut Ctx) {
    let fam = "prefix-long";
    let lens: Vec<usize> = if run.quick() { vec![40] } else { vec![40, 130, 270] };
    let ty = ty_v1::<f64, f64>();
    let mut items: Vec<(String, Vec<X>)> = vec![];
    for len in lens {
        items.extend(structured_shapes(len, false));
    }
    total.merge(par_items(&items, run.threads, |(label, x), ctx| {
        let len = x.len();
        ctx.states += 1;
        ctx.fam(fam).states += 1;
        ctx.nontrivial(fam, hash_bytes(format!("{label}{len}").as_bytes()));
        let mut ws = vec![2usize, 12, 16, 17, 33, 256, 257, len - 1, len + 1];
        ws.retain(|w| *w <= len + 1);
        ws.sort();
        ws.dedup();
        for w in ws {
            for mp in [None, Some(1), Some(w)] {
                for &f in &valid_fns() {
                    let whole = match (ty.run)(f, x, w, mp, Path::Ret) {
                        Some(Outcome::Ok(c)) => c,
                        _ => continue,
                    };
                    ctx.eval(fam, hash_cells(&whole));
                    for k in [len - 1, len - 5, len / 2, 17] {
                        // DESIGN 5.3: omitted min_periods of the extrema / rank family only when the prefix is >= w long
                        if f.is_cmp() && mp.is_none() && k < w {
                            continue;
                        }
                        let part = match (ty.run)(f, &x[..k], w, mp, Path::Ret) {
                            Some(Outcome::Ok(c)) => c,
                            _ => continue,
                        };
                        ctx.transitions += 1;
                        let ok = part.len() == k && whole.len() == len && whole[..k].iter().zip(&part).all(|(a, b)| bit_eq(a, b));
                        if !ok {
                            let at = whole.iter().zip(&part).position(|(a, b)| !bit_eq(a, b));
                            ctx.violation(Violation {
                                entry: format!("prefix:{}", r1_name(f, true)),
                                finding: None,
                                size: 200_000 + len * 10 + w,
                                case: json!({"family": fam, "shape": label, "len": len, "cut": k, "w": w, "mp": mp_json(mp), "first_difference_at": at}),
                                expected: format!("f(series)[..{k}] == f(series[..{k}])"),
                                got: format!("differs at {at:?}: {} vs {}", at.map_or("-".into(), |i| whole[i].show()), at.map_or("-".into(), |i| part[i].show())),
                            });
                        } else {
                            ctx.traces += 1;
                        }
                    }
                }
            }
        }
    }));
}

/// window-only dependence on long structured series (DESIGN 5.14): the output at position i, computed on the
/// whole series, against the output of the same call on the window x[i-w+1..=i] alone; exact for extrema,
/// arg-extrema and rank, within rounding for the rest. Windows of 16..=20 and more; the pre-window history is
/// whatever the shape provides (long null runs, expiring extremes, plateaus).
fn window_only_long(run: &Run, total: &mut Ctx) {
    let fam = "window-only-long";
    let lens: Vec<usize> = if run.quick() { vec![40] } else { vec![40, 70] };
    let ty = ty_v1::<f64, f64>();
    let mut items: Vec<(String, Vec<X>)> = vec![];
    for len in lens {
        items.extend(structured_shapes(len, true));
    }
    total.merge(par_items(&items, run.threads, |(label, x), ctx| {
        let len = x.len();
        ctx.states += 1;
        ctx.fam(fam).states += 1;
        ctx.nontrivial(fam, hash_bytes(format!("{label}{len}").as_bytes()));
        // noise of the order eps * (largest value of the history) is legitimate for the incremental statistics
        set_abs_tol(1e-12 * 23.0);
        for w in [9usize, 16, 17, 20, 33] {
            if w >= len {
                continue;
            }
            for mp in [Some(1), Some(w / 2), Some(w)] {
                for &f in &valid_fns() {
                    if matches!(f, R1::Ewm | R1::Fdiff(_)) {
                        continue; // weights of the exponential / fractional families reach back by design of their recurrences only up to rounding; covered on short windows
                    }
                    let whole = match (ty.run)(f, x, w, mp, Path::Ret) {
                        Some(Outcome::Ok(c)) => c,
                        _ => continue,
                    };
                    ctx.eval(fam, hash_cells(&whole));
                    for i in (w - 1..len).step_by(3) {
                        let win = &x[i + 1 - w..=i];
                        let alone = match (ty.run)(f, win, w, mp, Path::Ret) {
                            Some(Outcome::Ok(c)) => c,
                            _ => continue,
                        };
                        ctx.transitions += 1;
                        // positions the model leaves open (skewness of a constant window, residual statistics of an exact fit, ...)
                        let m = mc_ref::roll::expect1(f, win, w, mp);
                        if m.any || (m.null_ok && m.val.is_some()) {
                            continue;
                        }
                        let (a, b) = (&whole[i], &alone[w - 1]);
                        let ok = if f.is_cmp() && !matches!(f, R1::Zscore | R1::Minmax) { exact_eq(a, b) } else { tol_eq(a, b) };
                        if !ok {
                            ctx.violation(Violation {
                                entry: format!("window-only:{}", r1_name(f, true)),
                                finding: None,
                                size: 200_000 + len * 10 + w,
                                case: json!({"family": fam, "shape": label, "len": len, "pos": i, "w": w, "mp": mp_json(mp), "window": json_word(win)}),
                                expected: format!("as on the window alone: {}", b.show()),
                                got: a.show(),
                            });
                        } else {
                            ctx.traces += 1;
                        }
                    }
                }
            }
        }
        set_abs_tol(0.0);
    }));
}

/// look-ahead freedom of the user-function drivers on every input back end (option views included): what the
/// callback is handed at positions < k is the same for x and for its prefix x[..k]
struct DriverVisitor {
    w: usize,
    out: Vec<(String, Outcome<Vec<Cell>>)>,
}
fn slice_score<T: Elem>(items: &[T]) -> f64 {
    let mut s = 0.5;
    for t in items {
        s = s * 3.0 + t.dec().num().unwrap_or(-7.0);
    }
    s + items.len() as f64 * 1000.0
}
impl<T: Elem> mc_adapt::backends::BackendVisitor<T> for DriverVisitor {
    fn visit<V: tevec::prelude::Vec1View<T> + mc_adapt::backends::SliceRead<T>>(&mut self, name: &str, v: &V) {
        use tevec::prelude::*;
        let w = self.w;
        self.out.push((format!("rolling_custom on {name}"), catch(|| v.rolling_custom::<Vec<f64>, f64, _>(w, |s: V::SliceOutput<'_>| slice_score(&V::read_slice(&s)), None).expect("no container").cells())));
        self.out.push((format!("rolling_custom_iter on {name}"), catch(|| v.rolling_custom_iter(w, |s: V::SliceOutput<'_>| slice_score(&V::read_slice(&s))).map(Cell::f).collect())));
        self.out.push((
            format!("rolling_apply on {name}"),
            catch(|| v.rolling_apply::<Vec<f64>, f64, _>(w, |rm: Option<T>, add: T| slice_score(&[add]) + rm.map_or(-0.25, |r| 10.0 * slice_score(&[r])), None).expect("no container").cells()),
        ));
    }
}
fn driver_prefix(run: &Run, total: &mut Ctx) {
    use mc_adapt::backends::{for_backends, for_backends_opt};
    let name = "driver-prefix";
    let alpha: Vec<X> = vec![None, Some(0.0), Some(1.0)];
    let words = all_words_upto(alpha.len(), run.pick(4, 5));
    total.merge(par_items(&words, run.threads, |word, ctx| {
        let x = decode(word, &alpha);
        let len = x.len();
        if len < 2 {
            return;
        }
        ctx.states += 1;
        ctx.fam(name).states += 1;
        ctx.nontrivial(name, hash_bytes(word));
        for w in 1..=len + 1 {
            let mut full = DriverVisitor { w, out: vec![] };
            for_backends::<f64, _>(&x, 0, &mut full);
            for_backends_opt(&x, 0, &mut full);
            for k in 1..len {
                let mut pre = DriverVisitor { w, out: vec![] };
                for_backends::<f64, _>(&x[..k], 0, &mut pre);
                for_backends_opt(&x[..k], 0, &mut pre);
                for ((bn, fo), (bn2, po)) in full.out.iter().zip(pre.out.iter()) {
                    if bn != bn2 {
                        continue; // chunkings depend on the length: different configurations
                    }
                    ctx.transitions += 1;
                    let (Outcome::Ok(fc), Outcome::Ok(pc)) = (fo, po) else { continue };
                    ctx.eval(name, hash_cells(pc));
                    // the element reported as leaving at the last position of a series shorter than the window is
                    // the carve-out of C02: not compared
                    let upto = if bn.starts_with("rolling_apply on") && w > k { k - 1 } else { k };
                    if pc.len() != k || fc.len() != len || !cells_eq(&fc[..upto], &pc[..upto], exact_eq) {
                        ctx.violation(Violation {
                            entry: format!("prefix:{}", bn.split(" on ").next().unwrap_or(bn)),
                            finding: None,
                            size: len * 100 + w,
                            case: json!({"family": name, "word": word, "series": json_word(&x), "w": w, "cut": k, "backend": bn}),
                            expected: format!("f(series)[..{k}] == f(series[..{k}]) = {}", show_cells(pc)),
                            got: show_cells(fc),
                        });
                    }
                }
            }
        }
    }));
}

/// window-only dependence on every input back end (seed round 6: the default driver bodies of VecDeque / option
/// views / Polars may compute the window start differently from the Vec fast paths): the last output on
/// A ++ W against the last output on W alone, per back end, single- and two-series statistics
fn window_only_backends(run: &Run, total: &mut Ctx) {
    use mc_adapt::backends::{for_backends, for_backends_opt};
    let name = "window-only-backends";
    let alpha: Vec<X> = vec![None, Some(0.0), Some(1.0), Some(3.0)];
    let wins = all_words_upto(alpha.len(), 3);
    let pres = all_words_upto(alpha.len(), run.pick(1, 2));
    let fns1 = valid_fns();
    let fns2 = all2();
    total.merge(par_items(&wins, run.threads, |ww, ctx| {
        let w = ww.len();
        if w < 2 {
            return;
        }
        let win = decode(ww, &alpha);
        ctx.states += 1;
        ctx.fam(name).states += 1;
        ctx.nontrivial(name, hash_bytes(ww));
        let sec = |x: &[X]| -> Vec<X> { x.iter().enumerate().map(|(i, v)| Some(v.map_or(2.0, |a| a + 1.0) + ((x.len() - i) % 2) as f64)).collect() };
        for pre in &pres {
            if pre.is_empty() {
                continue;
            }
            let mut full = decode(pre, &alpha);
            full.extend(win.iter().cloned());
            for mp in [Some(0), Some(w)] {
                for &f in &fns1 {
                    if matches!(f, R1::Fdiff(_) | R1::Ewm) {
                        continue;
                    }
                    let m = mc_ref::roll::expect1(f, &win, w, mp);
                    if m.any || (m.null_ok && m.val.is_some()) {
                        continue;
                    }
                    let mut a = Roll1Visitor { f, w, mp, path: Path::Ret, out: vec![] };
                    for_backends::<f64, _>(&full, 0, &mut a);
                    for_backends_opt(&full, 0, &mut a);
                    let mut b = Roll1Visitor { f, w, mp, path: Path::Ret, out: vec![] };
                    for_backends::<f64, _>(&win, 0, &mut b);
                    for_backends_opt(&win, 0, &mut b);
                    for ((bn, fo), (_, wo)) in a.out.iter().zip(b.out.iter()) {
                        ctx.transitions += 1;
                        if let (Outcome::Ok(fc), Outcome::Ok(wc)) = (fo, wo) {
                            let (x, y) = (fc.last().unwrap(), wc.last().unwrap());
                            ctx.eval(name, x.hash64());
                            let ok = if f.is_cmp() && !matches!(f, R1::Zscore | R1::Minmax) { exact_eq(x, y) } else { tol_eq(x, y) };
                            if !ok {
                                ctx.violation(Violation {
                                    entry: format!("window-only:{}", r1_name(f, true)),
                                    finding: None,
                                    size: full.len() * 100 + w,
                                    case: json!({"family": name, "backend": bn, "pre_history": json_word(&full[..pre.len()]), "window": json_word(&win), "w": w, "mp": mp_json(mp)}),
                                    expected: format!("last output as on the window alone: {}", y.show()),
                                    got: x.show(),
                                });
                            }
                        }
                    }
                }
                let (sf, sw) = (sec(&full), sec(&win));
                // the second series of the window run must be the tail of the second series of the full run
                let sw: Vec<X> = sf[sf.len() - w..].to_vec();
                let _ = sec(&win);
                for &f in &fns2 {
                    if matches!(f, R2::All(_)) {
                        continue;
                    }
                    let m = mc_ref::roll::expect2(f, &win, &sw, w, mp);
                    if m.any || (m.null_ok && m.val.is_some()) {
                        continue;
                    }
                    let mut a = Roll2Visitor { f, second: &sf, w, mp, out: vec![] };
                    for_backends::<f64, _>(&full, 0, &mut a);
                    for_backends_opt(&full, 0, &mut a);
                    let mut b = Roll2Visitor { f, second: &sw, w, mp, out: vec![] };
                    for_backends::<f64, _>(&win, 0, &mut b);
                    for_backends_opt(&win, 0, &mut b);
                    for ((bn, fo), (_, wo)) in a.out.iter().zip(b.out.iter()) {
                        ctx.transitions += 1;
                        if let (Outcome::Ok(fc), Outcome::Ok(wc)) = (fo, wo) {
                            let (x, y) = (fc.last().unwrap(), wc.last().unwrap());
                            ctx.eval(name, x.hash64());
                            if !tol_eq(x, y) {
                                ctx.violation(Violation {
                                    entry: format!("window-only:{}", r2_name(f)),
                                    finding: None,
                                    size: full.len() * 100 + w,
                                    case: json!({"family": name, "backend": bn, "pre_first": json_word(&full[..pre.len()]), "window_first": json_word(&win), "window_second": json_word(&sw), "w": w, "mp": mp_json(mp)}),
                                    expected: format!("last output as on the window alone: {}", y.show()),
                                    got: x.show(),
                                });
                            }
                        }
                    }
                }
            }
        }
        ctx.traces += 1;
    }));
}

fn main() {
    let run = Run::from_args("C06");
    let a5 = alphabet5(run.seed);
    let single = PrefixSingle {
        name: "prefix-valid".into(),
        alpha: a5.clone(),
        max_len: run.pick(5, 8),
        plain: false,
        fns: valid_fns(),
        tys: vec![ty_v1::<f64, f64>(), ty_v1::<Option<f64>, Option<f64>>(), ty_v1::<Option<i32>, f64>()],
    };
    let plain = PrefixSingle {
        name: "prefix-plain".into(),
        alpha: a5.iter().cloned().filter(|x| x.is_some()).collect(),
        max_len: run.pick(6, 9),
        plain: true,
        fns: plain_fns(),
        tys: vec![ty_p1::<f64, f64>(), ty_p1::<i32, f64>()],
    };
    let pairs = PrefixPairs { name: "prefix-pairs".into(), alpha: vec![None, Some(0.0), Some(1.0), Some(3.0)], max_len: run.pick(3, 4), fns: all2() };
    let maps = PrefixMaps { name: "prefix-maps".into(), alpha: vec![None, Some(-1.0), Some(0.0), Some(2.0)], max_len: run.pick(6, 7) };
    if let Some(path) = &run.replay {
        let stored = load_replay(path).unwrap_or_else(|e| {
            eprintln!("MACHINERY-ERROR: {e}");
            std::process::exit(2)
        });
        let mut ctx = Ctx::new();
        let case = &stored["case"];
        let word = syms_from_json(&case["word"]);
        match case["family"].as_str().unwrap_or("") {
            "prefix-valid" | "prefix-plain" => {
                let s = if case["family"] == "prefix-valid" { &single } else { &plain };
                let px = decode(&word[..word.len() - 1], &s.alpha);
                let pm = s.outputs(&px, None);
                s.check(&word, Some(&pm), &mut ctx);
            }
            "prefix-pairs" => {
                let (a, b) = pairs.split(&word[..word.len() - 1]);
                let pm = pairs.outputs(&a, &b, &mut Ctx::new());
                pairs.visit(&word, Some(&pm), &mut ctx);
            }
            "prefix-maps" => maps.visit(&word, None, &mut ctx),
            "window-only-pairs" => window_only_pairs(&run, &mut ctx),
            "prefix-long" => prefix_long(&run, &mut ctx),
            "window-only-long" => window_only_long(&run, &mut ctx),
            "window-only-backends" => window_only_backends(&run, &mut ctx),
            "driver-prefix" => driver_prefix(&run, &mut ctx),
            "window-only-signed-zero" => window_only_signed_zero(&run, &mut ctx),
            _ => window_only(&run, &mut ctx),
        }
        std::process::exit(finish_replay(&run, &stored, ctx));
    }
    let mut total = explore_tree(&single, run.threads);
    total.merge(explore_tree(&plain, run.threads));
    total.merge(explore_tree(&pairs, run.threads));
    total.merge(explore_tree(&maps, run.threads));
    window_only(&run, &mut total);
    window_only_signed_zero(&run, &mut total);
    window_only_pairs(&run, &mut total);
    prefix_long(&run, &mut total);
    window_only_long(&run, &mut total);
    window_only_backends(&run, &mut total);
    driver_prefix(&run, &mut total);
    let meta = Meta {
        rule: "(a) prefix law on every edge parent->child of the history trees (single series, null-free plain family, pairs, positive-lag shift/vshift/vdiff/vpct_change with n in 0..=len+2 and every fill): f(child)[..len-1] == f(parent) bit for bit, for every window and min_periods; by induction every cut point. (b) window-only dependence: for every window word W (|W|<=w_max) and every pre-history A (|A|<=a_max, finite values and nulls), also for the two-series family over pair words: last output of f(A++W) equals that of f(W) (exact for min/max/arg/rank, 1e-9 otherwise). Non-trivial = word with a non-null element; each edge compares the parent's memoised outputs with the child's. Also the window-only relation on every input back end (window-only-backends) and the integer orders 1 and 2 of the fractional difference (DESIGN 5.15, 5.16). Round 9 (DESIGN 5.18): driver-prefix - the slice and index drivers themselves (rolling_custom, rolling_custom_iter, rolling_apply with a window-sum callback) satisfy the prefix law on every input back end including the option views of Vec / VecDeque / Array1. Round 11 (DESIGN 5.20): window-only-signed-zero - ts_vmin / ts_vmax on windows over {null,-0.0,+0.0,1} after pre-histories over {+0.0,-0.0,-7.5,2,null}: the reported extreme is an element of the window, bit for bit the same whatever preceded it.".into(),
        bounds: json!({
            "prefix-valid": {"alphabet": json_word(&single.alpha), "L": single.max_len, "types": single.tys.iter().map(|t| t.name.clone()).collect::<Vec<_>>()},
            "prefix-plain": {"alphabet": json_word(&plain.alpha), "L": plain.max_len},
            "prefix-pairs": {"alphabet": json_word(&pairs.alpha), "L": pairs.max_len},
            "prefix-maps": {"alphabet": json_word(&maps.alpha), "L": maps.max_len, "lags": "0..=len+2", "fills": ["omitted", "null", 7]},
            "window-only": {"window_len_upto": run.pick(3, 4), "pre_history_len_upto": run.pick(2, 3)},
            "window": "1..=len+2", "min_periods": "{omitted} U 0..=w (omitted for the extrema/rank family only when len(parent) >= w)",
        }),
        assumptions: vec![
            "finite bounded-magnitude values (DESIGN 5.2); calls that panic on either side are judged by C05".into(),
            "shift with |n| > len (F11, wrong length) is judged by C09/C13, not here".into(),
        ],
        exhaustive: true,
        min_states: 1000,
    };
    std::process::exit(finish(&run, meta, total));
}
