//! C05 — rolling outputs are input-length and null exactly during warm-up.
use mc_adapt::backends::*;
use mc_adapt::roll::*;
use mc_checks::rollcheck::*;
use mc_checks::*;
use mc_ref::roll::{mp_eff, valid, window};

fn classify(c: &CaseInfo) -> Option<String> {
    let len = c.x.len();
    if let Some(p) = c.pos {
        let nv = valid(window(c.x, p, c.w)).len();
        let got_val = match c.got {
            Outcome::Ok(cells) => !cells[p].is_null(),
            _ => false,
        };
        let w_eff = if c.f.is_cmp() { c.w.min(len).max(1) } else { c.w };
        // F02: ts_vewm returns +-inf/NaN-free garbage instead of null on an all-null window with min_periods 0
        if c.f == R1::Ewm && !c.plain && nv == 0 && got_val && mp_eff(c.f, w_eff, c.mp) == 0 {
            return Some("F02".into());
        }
        // F03: arg-extrema report the offset of a null element for an all-null window
        if matches!(c.f, R1::Argmin | R1::Argmax) && nv == 0 && got_val && mp_eff(c.f, w_eff, c.mp) == 0 {
            return Some("F03".into());
        }
    }
    // F04 seen through an integer output (value law, DESIGN 5.9)
    if c.f == R1::ResidMean && !c.got.is_panic() && c.ty.ends_with("i32") {
        return Some("F04".into());
    }
    if len == 0 && c.got.is_panic() {
        // F06: ts_vrank computes window-1 with window clamped to len = 0
        if matches!(c.f, R1::Rank { .. }) {
            return Some("F06".into());
        }
        // F07: extrema on an empty non-Vec container trip assert!(window > 0) after clamping
        if c.f.is_cmp() && c.ty.contains("backend") {
            return Some("F07".into());
        }
    }
    None
}
fn classify2(c: &PairInfo) -> Option<String> {
    if c.f == R2::Cov && c.got.is_panic() && c.mp.map_or(c.w / 2, |m| m.min(c.w)) == 0 {
        return Some("F05".into());
    }
    None
}

fn valid_fns() -> Vec<R1> {
    let mut v = V1_FEATURE.to_vec();
    v.extend(V1_CMP);
    v.extend(V1_NORM);
    v.extend(V1_REG);
    v.push(R1::Fdiff(0.5));
    // integer orders: the coefficients beyond lag d vanish, the warm-up law does not depend on d
    v.push(R1::Fdiff(1.0));
    v.push(R1::Fdiff(2.0));
    v
}
fn plain_fns() -> Vec<R1> {
    let mut v = V1_FEATURE.to_vec();
    v.push(R1::Fdiff(0.5));
    // integer orders: the coefficients beyond lag d vanish, the warm-up law does not depend on d
    v.push(R1::Fdiff(1.0));
    v.push(R1::Fdiff(2.0));
    v
}
fn all2() -> Vec<R2> {
    let mut v = V2_ALL.to_vec();
    v.extend([R2::All(0), R2::All(1), R2::All(2)]);
    v
}

/// the backend sub-check: every back end, short words (the empty / len < w corner)
fn check_backends(word: &[u8], alpha: &[X], ctx: &mut Ctx) {
    let x = decode(word, alpha);
    let len = x.len();
    let name = "backends";
    ctx.fam(name).states += 1;
    if x.iter().any(|v| v.is_some()) {
        ctx.nontrivial(name, hash_bytes(word));
    }
    let mut fns = valid_fns();
    fns.retain(|f| !matches!(f, R1::Fdiff(_)));
    for (w, mp) in wmp_band(len, 1, 3) {
        for &f in &fns {
            if !cfg_cmp(f, len, w, mp) {
                continue;
            }
            let model = model_for1(f, &x, w, mp, false);
            let entry = r1_name(f, true);
            let mut outs = vec![];
            let mut vis = Roll1Visitor { f, w, mp, path: Path::Ret, out: vec![] };
            for_backends::<f64, _>(&x, 1, &mut vis);
            outs.extend(vis.out.drain(..).map(|(n, o)| (format!("backend f64 {n}"), o)));
            for_backends_opt(&x, 1, &mut vis);
            outs.extend(vis.out.drain(..).map(|(n, o)| (format!("backend Option<f64> {n}"), o)));
            for (bname, got) in outs {
                ctx.eval(name, outcome_hash(&got));
                if let Some((pos, exp, g)) = judge(&got, &model, Law::Mask, Cmp::Tol, OutKind::F64) {
                    let info = CaseInfo { entry: &entry, f, plain: false, x: &x, w, mp, pos, got: &got, model: &model, ty: &bname };
                    ctx.violation(Violation {
                        entry: entry.clone(),
                        finding: classify(&info),
                        size: len * 100 + w,
                        case: json!({"family": name, "word": word, "series": json_word(&x), "w": w, "mp": mp_json(mp), "backend": bname, "pos": pos}),
                        expected: format!("{exp} (model mask {})", show_exps(&model)),
                        got: format!("{g} (output {})", show_outcome(&got)),
                    });
                }
            }
        }
        // two-series family on the back ends: first series in the container, second a Vec<f64>
        for &f in &V2_ALL {
            let model = model_for2(f, &x, &x, w, mp);
            let entry = r2_name(f);
            let mut vis = Roll2Visitor { f, second: &x, w, mp, out: vec![] };
            for_backends::<f64, _>(&x, 0, &mut vis);
            for_backends_opt(&x, 0, &mut vis);
            for (bname, got) in vis.out.drain(..) {
                ctx.eval(name, outcome_hash(&got));
                if let Some((pos, exp, g)) = judge(&got, &model, Law::Mask, Cmp::Tol, OutKind::F64) {
                    let info = PairInfo { entry: &entry, f, a: &x, b: &x, w, mp, pos, got: &got, model: &model, ty: &bname };
                    ctx.violation(Violation {
                        entry: entry.clone(),
                        finding: classify2(&info),
                        size: len * 100 + w,
                        case: json!({"family": name, "word": word, "series": json_word(&x), "w": w, "mp": mp_json(mp), "backend": bname, "pos": pos}),
                        expected: format!("{exp} (model mask {})", show_exps(&model)),
                        got: format!("{g} (output {})", show_outcome(&got)),
                    });
                }
            }
        }
    }
}

fn main() {
    let run = Run::from_args("C05");
    let ma: Vec<X> = vec![None, Some(0.0), Some(1.0)];
    let single = SeriesFam {
        name: "mask-single".into(),
        alpha: ma.clone(),
        max_len: run.pick(6, 10),
        plain: false,
        fns: valid_fns(),
        tys: vec![ty_v1::<f64, f64>(), ty_v1::<Option<f64>, Option<f64>>()],
        paths: vec![Path::Ret],
        law: Law::Mask,
        w_lo: 1,
        w_extra: 3,
        min_len: 0,
        scales: vec![],
        cfg_ok: cfg_cmp,
        classify,
    };
    let single_m = SeriesFam {
        name: "mask-matrix".into(),
        max_len: run.pick(4, 5),
        tys: vec![ty_v1::<f64, i32>(), ty_v1::<f64, Option<f64>>(), ty_v1::<Option<i32>, f64>(), ty_v1::<f32, f32>(), ty_v1::<Option<f64>, f64>()],
        paths: vec![Path::Ret, Path::Buf],
        alpha: ma.clone(),
        fns: valid_fns(),
        ..shallow(&single)
    };
    // value-dependent definedness (inexact accumulators): the general value alphabet, shallower
    let values = SeriesFam {
        name: "mask-values".into(),
        alpha: alphabet5(run.seed),
        max_len: run.pick(5, 6),
        tys: vec![ty_v1::<f64, f64>()],
        fns: valid_fns(),
        paths: vec![Path::Ret],
        ..shallow(&single)
    };
    let plain = SeriesFam {
        name: "mask-plain".into(),
        alpha: vec![Some(0.0), Some(1.0)],
        max_len: run.pick(7, 12),
        plain: true,
        fns: plain_fns(),
        tys: vec![ty_p1::<f64, f64>(), ty_p1::<i32, Option<f64>>(), ty_p1::<f64, i32>()],
        paths: vec![Path::Ret],
        ..shallow(&single)
    };
    let pairs = PairFam {
        name: "mask-pairs".into(),
        alpha: ma.clone(),
        max_len: run.pick(4, 5),
        fns: all2(),
        tys: vec![ty_v2::<f64, f64, f64>(), ty_v2::<Option<f64>, f64, Option<f64>>()],
        paths: vec![Path::Ret],
        law: Law::Mask,
        w_lo: 1,
        w_extra: 3,
        scales: vec![],
        classify: classify2,
    };
    let be_len = run.pick(3, 4);
    // infinities are observations like any other for the warm-up law (seed round 10): the extrema / rank
    // family has a defined result on them, so its null mask is decided by the count of non-null elements
    // alone - also on f32, whose null predicates are a separate implementation
    let mask_inf = SeriesFam {
        name: "mask-infinite".into(),
        alpha: vec![None, Some(f64::NEG_INFINITY), Some(0.0), Some(f64::INFINITY)],
        max_len: run.pick(5, 6),
        tys: vec![ty_v1::<f64, f64>(), ty_v1::<f32, f32>(), ty_v1::<f32, f64>(), ty_v1::<Option<f32>, Option<f64>>()],
        fns: V1_CMP.iter().copied().filter(|f| !matches!(f, R1::Minmax)).collect(),
        paths: vec![Path::Ret],
        ..shallow(&single)
    };
    // every NaN is the same null (DESIGN 5.4)
    let single_nan = single.nan_kinds(run.pick(4, 5));
    if let Some(path) = &run.replay {
        let stored = load_replay(path).unwrap_or_else(|e| {
            eprintln!("MACHINERY-ERROR: {e}");
            std::process::exit(2)
        });
        let mut ctx = Ctx::new();
        let case = &stored["case"];
        let fam = case["family"].as_str().unwrap_or("");
        let word = syms_from_json(&case["word"]);
        match fam {
            "backends" => check_backends(&word, &ma, &mut ctx),
            "mask-pairs" => {
                let (a, b) = pairs.split(&word);
                pairs.check_pair(&word, &a, &b, &mut ctx)
            }
            _ => {
                for f in [&single, &single_m, &plain, &values, &single_nan, &mask_inf] {
                    if f.name == fam {
                        f.check_word(&word, &mut ctx);
                    }
                }
            }
        }
        std::process::exit(finish_replay(&run, &stored, ctx));
    }
    let mut total = explore_tree(&single, run.threads);
    total.merge(explore_tree(&single_nan, run.threads));
    total.merge(explore_tree(&mask_inf, run.threads));
    total.merge(explore_tree(&single_m, run.threads));
    total.merge(explore_tree(&plain, run.threads));
    total.merge(explore_tree(&values, run.threads));
    total.merge(explore_tree(&pairs, run.threads));
    {
        let mut t = Ctx::new();
        total.merge(check_structured_par(&single, !run.quick(), 1, run.threads));
        total.merge(check_structured_par(&plain, !run.quick(), 1, run.threads));
        // flat stretches of non-dyadic values: std / var / mean / sum stay defined (non-null)
        let flat = SeriesFam { name: "mask-flat".into(), fns: vec![R1::Std, R1::Var, R1::Mean, R1::Sum], ..shallow(&single) };
        let flat_p = SeriesFam { name: "mask-flat-plain".into(), fns: vec![R1::Std, R1::Var, R1::Mean, R1::Sum], tys: vec![ty_p1::<f64, f64>()], ..shallow(&plain) };
        let ws = [1usize, 2, 3, 6, 12, 20, 47, 60];
        check_shapes(&flat, "nondyadic", &nondyadic_plateaus(), &ws, 2, &mut t);
        check_shapes(&flat_p, "nondyadic", &nondyadic_plateaus(), &ws, 1, &mut t);
        check_structured_pairs(&pairs, !run.quick(), &mut t);
        total.merge(t);
    }
    let words = all_words_upto(ma.len(), be_len);
    total.merge(par_items(&words, run.threads, |w, ctx| {
        ctx.states += 1;
        ctx.transitions += 1;
        ctx.traces += 1;
        check_backends(w, &ma, ctx);
    }));
    let meta = Meta {
        rule: "history trees over the mask alphabet {null,0,1} (values matter only for definedness), pair tree over its square, null-free tree for the plain family; every window 1..=len+3, every min_periods in {omitted} U 0..=w (omitted only for len>=w in the extrema/rank family); all rolling entry points; law: one output per input, no panic, output null <=> valid count below max(min_periods, intrinsic minimum) or statistic undefined. Short words additionally on every input back end. Non-trivial = word with a non-null element. Also NaN kinds (mask-deep-nan-kinds) and the integer orders 1 and 2 of the fractional difference (DESIGN 5.15, 5.16). Round 8 (DESIGN 5.17): structured series of 1030 / 2100 elements. Round 10 (DESIGN 5.19): mask-infinite - the extrema / rank family on words over {null,-inf,0,+inf} with f64, f32 and Option<f32> elements: an infinity is an observation for the warm-up law.".into(),
        bounds: json!({
            "alphabet": json_word(&ma),
            "L": {"mask-single": single.max_len, "mask-matrix": single_m.max_len, "mask-plain": plain.max_len, "mask-values": values.max_len, "mask-pairs": pairs.max_len, "backends": be_len},
            "entry_points": valid_fns().iter().map(|f| r1_name(*f, true)).chain(plain_fns().iter().map(|f| r1_name(*f, false))).chain(all2().iter().map(|f| r2_name(*f))).collect::<Vec<_>>(),
            "backends": "Vec, Arc<Vec>, [T;N], VecDeque (8 head offsets), Array1, ArrayView1 (steps 1,2,3,-1,-2), ArrayViewMut1, Arc<Array1>, OptIter, Float64Chunked (all chunkings into <=3 chunks, owned and borrowed)",
            "window": "1..=len+3",
        }),
        assumptions: vec![
            "definedness: zero spread, null current element, constant regressor => null; skew/kurt of a constant window: 0 or null (DESIGN 5.6)".into(),
            "integer outputs: value law only (DESIGN 5.9)".into(),
        ],
        exhaustive: true,
        min_states: 500,
    };
    std::process::exit(finish(&run, meta, total));
}

fn shallow(f: &SeriesFam) -> SeriesFam {
    SeriesFam {
        name: f.name.clone(),
        alpha: f.alpha.clone(),
        max_len: f.max_len,
        plain: f.plain,
        fns: f.fns.clone(),
        tys: f.tys.clone(),
        paths: f.paths.clone(),
        law: f.law,
        w_lo: f.w_lo,
        w_extra: f.w_extra,
        min_len: f.min_len,
        scales: f.scales.clone(),
        cfg_ok: f.cfg_ok,
        classify: f.classify,
    }
}
