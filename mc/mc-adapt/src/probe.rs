//! Instrumented containers (DESIGN 3.5). `ProbeVec` records every unchecked access made to an input,
//! `ProbeOut` / `ProbeUninit` record every write made to an output buffer and every step of a trusted
//! collection. Faults are logged (thread-local) and replaced by defined behaviour, so the harness never
//! drives real memory into undefined behaviour.
use crate::elem::{Elem, OutCells};
use mc_core::Cell;
use std::cell::RefCell;
use tevec::prelude::*;

#[derive(Default, Debug, Clone)]
pub struct ProbeLog {
    pub faults: Vec<String>,
    pub ugets: u64,
    pub uslices: u64,
    pub usets: u64,
    /// forward passes observed by `collect_from_trusted`: (hints before each next incl. the last, items yielded)
    pub passes: Vec<(Vec<(usize, Option<usize>)>, usize)>,
}

thread_local! {
    static LOG: RefCell<ProbeLog> = RefCell::new(ProbeLog::default());
}
pub fn probe_reset() {
    LOG.with(|l| *l.borrow_mut() = ProbeLog::default());
}
pub fn probe_take() -> ProbeLog {
    LOG.with(|l| std::mem::take(&mut *l.borrow_mut()))
}
fn fault(s: String) {
    LOG.with(|l| {
        let mut l = l.borrow_mut();
        if l.faults.len() < 8 {
            l.faults.push(s);
        }
    });
}

/// Instrumented input container.
#[derive(Clone, Debug)]
pub struct ProbeVec<T> {
    pub data: Vec<T>,
    pub tag: &'static str,
}
impl<T> ProbeVec<T> {
    pub fn new(data: Vec<T>, tag: &'static str) -> Self {
        ProbeVec { data, tag }
    }
}
impl<T> GetLen for ProbeVec<T> {
    fn len(&self) -> usize {
        self.data.len()
    }
}
impl<T: Clone> TIter<T> for ProbeVec<T> {
    fn titer(&self) -> impl TIterator<Item = T> + '_ {
        self.data.iter().cloned()
    }
}
impl<T: Clone + Default> Vec1View<T> for ProbeVec<T> {
    type SliceOutput<'a>
        = Vec<T>
    where
        Self: 'a,
        T: 'a;

    fn get_backend_name(&self) -> &'static str {
        "probe"
    }
    fn slice<'a>(&'a self, start: usize, end: usize) -> TResult<Vec<T>>
    where
        T: 'a,
    {
        if start <= end && end <= self.data.len() {
            Ok(self.data[start..end].to_vec())
        } else {
            tbail!("slice {}..{} out of range for length {}", start, end, self.data.len())
        }
    }
    unsafe fn uslice<'a>(&'a self, start: usize, end: usize) -> TResult<Vec<T>>
    where
        T: 'a,
    {
        LOG.with(|l| l.borrow_mut().uslices += 1);
        let len = self.data.len();
        if start <= end && end <= len {
            Ok(self.data[start..end].to_vec())
        } else {
            fault(format!("{}: uslice({start}, {end}) on length {len}", self.tag));
            let e = end.min(len);
            let s = start.min(e);
            Ok(self.data[s..e].to_vec())
        }
    }
    unsafe fn uget(&self, index: usize) -> T {
        LOG.with(|l| l.borrow_mut().ugets += 1);
        match self.data.as_slice().iter().nth(index) {
            Some(v) => v.clone(),
            None => {
                fault(format!("{}: uget({index}) on length {}", self.tag, self.data.len()));
                T::default()
            }
        }
    }
}

/// Instrumented output container.
#[derive(Clone, Debug, Default)]
pub struct ProbeOut<T> {
    pub data: Vec<T>,
}
pub struct ProbeUninit<T> {
    slots: Vec<Option<T>>,
    counts: Vec<u32>,
}
impl<T> GetLen for ProbeOut<T> {
    fn len(&self) -> usize {
        self.data.len()
    }
}
impl<T: Clone> TIter<T> for ProbeOut<T> {
    fn titer(&self) -> impl TIterator<Item = T> + '_ {
        self.data.iter().cloned()
    }
}
impl<T: Clone + Default> Vec1View<T> for ProbeOut<T> {
    type SliceOutput<'a>
        = Vec<T>
    where
        Self: 'a,
        T: 'a;
    fn get_backend_name(&self) -> &'static str {
        "probe-out"
    }
    unsafe fn uget(&self, index: usize) -> T {
        self.data.as_slice().iter().nth(index).cloned().unwrap_or_default()
    }
}
impl<T> GetLen for ProbeUninit<T> {
    fn len(&self) -> usize {
        self.slots.len()
    }
}
impl<T> ProbeUninit<T> {
    fn write(&mut self, idx: usize, v: T) {
        LOG.with(|l| l.borrow_mut().usets += 1);
        if idx < self.slots.len() {
            self.counts[idx] += 1;
            self.slots[idx] = Some(v);
        } else {
            fault(format!("uset({idx}) on output buffer of length {}", self.slots.len()));
        }
    }
    /// the caller-buffer path ends without assume_init: verify the exactly-once law explicitly
    pub fn finish(self) -> ProbeOut<T>
    where
        T: Default,
    {
        let n = self.slots.len();
        let bad: Vec<String> = self.counts.iter().enumerate().filter(|(_, c)| **c != 1).map(|(i, c)| format!("slot {i} written {c}x")).collect();
        if !bad.is_empty() {
            fault(format!("output buffer of length {n} exposed as initialised with {}", bad[..bad.len().min(6)].join(", ")));
        }
        ProbeOut { data: self.slots.into_iter().map(|s| s.unwrap_or_default()).collect() }
    }
}
impl<T: Clone + Default> UninitVec<T> for ProbeUninit<T> {
    type Vec = ProbeOut<T>;
    unsafe fn assume_init(self) -> ProbeOut<T> {
        self.finish()
    }
    unsafe fn uset(&mut self, idx: usize, v: T) {
        self.write(idx, v)
    }
}
impl<T> UninitRefMut<T> for &mut ProbeUninit<T> {
    unsafe fn uset(&mut self, idx: usize, v: T) {
        self.write(idx, v)
    }
}
impl<T: Clone + Default> Vec1<T> for ProbeOut<T> {
    type Uninit = ProbeUninit<T>;
    type UninitRefMut<'a>
        = &'a mut ProbeUninit<T>
    where
        T: 'a;
    fn collect_from_iter<I: Iterator<Item = T>>(iter: I) -> Self {
        ProbeOut { data: iter.collect() }
    }
    fn uninit(len: usize) -> ProbeUninit<T> {
        ProbeUninit { slots: (0..len).map(|_| None).collect(), counts: vec![0; len] }
    }
    fn uninit_ref_mut(u: &mut ProbeUninit<T>) -> &mut ProbeUninit<T> {
        u
    }
    /// the trusted collector: observes the whole forward pass of the iterator it is handed
    fn collect_from_trusted<I: TrustedLen<Item = T>>(mut iter: I) -> Self {
        let first = iter.size_hint();
        // absolute cap: an iterator announcing an absurd length must not make the harness loop for ever
        let cap = first.1.unwrap_or(first.0).saturating_add(4096).min(100_000);
        let mut hints = vec![];
        let mut data = vec![];
        loop {
            hints.push(iter.size_hint());
            match iter.next() {
                Some(v) => {
                    if data.len() >= cap {
                        break;
                    }
                    data.push(v)
                }
                None => break,
            }
        }
        if first.1 != Some(data.len()) {
            fault(format!("trusted iterator announced {:?} and yielded {}{} items: a raw collector writes outside / exposes uninitialised memory", first, if data.len() >= cap { ">= " } else { "" }, data.len()));
        }
        LOG.with(|l| l.borrow_mut().passes.push((hints, data.len())));
        ProbeOut { data }
    }
}
impl<T: Elem> OutCells for ProbeOut<T> {
    fn cells(&self) -> Vec<Cell> {
        self.data.iter().map(|x| x.dec()).collect()
    }
}
impl<T: Elem> OutCells for ProbeOut<(T, T, T)> {
    fn cells(&self) -> Vec<Cell> {
        self.data.iter().flat_map(|(a, b, c)| [a.dec(), b.dec(), c.dec()]).collect()
    }
}
