//! backend configurations
