//! C12 — quantiles, percentile ranks, ranks and partitions are true order statistics.
use mc_adapt::aggs::*;
use mc_adapt::maps::*;
use mc_checks::*;
use mc_ref::order::*;
use tevec::prelude::{Cast, IsNone, Number};

thread_local! {
    /// set while a family with infinite values is checked: the interpolating quantile methods and the median
    /// are skipped there (inf - inf is not a number); the order statistics proper are exact
    static INF_MODE: std::cell::Cell<bool> = const { std::cell::Cell::new(false) };
}

fn q_grid(n_valid: usize) -> Vec<f64> {
    let mut g = vec![0.0, 0.1, 0.2, 0.25, 0.3, 1.0 / 3.0, 0.5, 2.0 / 3.0, 0.7, 0.75, 0.9, 1.0];
    if n_valid >= 2 {
        for j in 0..n_valid {
            let q = j as f64 / (n_valid - 1) as f64;
            g.extend([q, q - 1e-12, q + 1e-12]);
        }
    }
    g.retain(|q| (0.0..=1.0).contains(q));
    g
}

fn cells_to_x(c: &[Cell]) -> Vec<X> {
    c.iter().map(|v| v.num()).collect()
}

fn check_ty<T>(fam: &str, tname: &str, word: &[u8], x: &[X], alpha: &[X], ctx: &mut Ctx)
where
    T: Elem + IsNone + PartialEq + Cast<f64>,
    T::Inner: Number,
    f64: Cast<T>,
{
    if !encodable::<T>(x) {
        return;
    }
    let v: Vec<T> = enc_vec(x);
    let len = x.len();
    let nv = x.iter().flatten().count();
    let mut viol = |ctx: &mut Ctx, entry: String, finding: Option<&str>, params: Value, expected: String, got: String| {
        ctx.violation(Violation {
            entry,
            finding: finding.map(|s| s.to_string()),
            size: len * 100,
            case: json!({"family": fam, "word": word, "series": json_word(x), "elem": tname, "params": params}),
            expected,
            got,
        });
    };
    // quantiles
    let inf_mode = INF_MODE.with(|c| c.get());
    for q in q_grid(nv) {
        for m in QMETHODS {
            if inf_mode && !(m == QMethod::Lower || m == QMethod::Higher) {
                continue;
            }
            let got = run_quantile::<Vec<T>, T>(&v, q, m);
            ctx.eval(fam, match &got { Outcome::Ok(c) => c.hash64(), Outcome::Panic(p) => hash_bytes(p.as_bytes()) });
            let want = quantile(x, q, m);
            let ok = match (&got, &want) {
                (Outcome::Ok(c), None) => c.is_null(),
                (Outcome::Ok(c), Some(ws)) => c.num().map_or(false, |g| ws.iter().any(|w| if m == QMethod::Lower || m == QMethod::Higher { g == *w } else { close(g, *w) })),
                _ => false,
            };
            if !ok {
                // F09: the single valid element is not in first position
                let f09 = nv == 1 && x[0].is_none() && matches!(&got, Outcome::Ok(c) if c.is_null());
                viol(ctx, format!("vquantile({m:?})"), if f09 { Some("F09") } else { None }, json!({"q": q}), format!("{want:?}"), format!("{got:?}"));
            } else if tname == "f64" && (q == 0.25 || q == 0.5 || q == 0.9) {
                // scaling relation: the q-quantile of s*x is s times the q-quantile of x, exactly for a power of two
                if let Outcome::Ok(c) = &got {
                    for e in [-70i32, 70] {
                        let sc = 2f64.powi(e);
                        let xs: Vec<X> = x.iter().map(|v| v.map(|a| a * sc)).collect();
                        let gs = run_quantile::<Vec<T>, T>(&enc_vec(&xs), q, m);
                        ctx.evals += 1;
                        let same = match (&gs, c.num()) {
                            (Outcome::Ok(cs), Some(g)) => cs.num() == Some(g * sc),
                            (Outcome::Ok(cs), None) => cs.is_null(),
                            _ => false,
                        };
                        if !same {
                            viol(ctx, format!("scaling:vquantile({m:?})"), None, json!({"q": q, "scale": format!("2^{e}")}), format!("2^{e} * {}", c.show()), format!("{gs:?}"));
                        }
                    }
                }
            } else if ctx.samples.len() < 2 && len == 5 && nv == 4 && q == 0.3 {
                ctx.sample(json!({"op": format!("vquantile({m:?})"), "series": json_word(x), "q": q, "model": format!("{want:?}"), "observed": format!("{got:?}")}));
            }
        }
    }
    if !inf_mode {
        let got = run_median::<Vec<T>, T>(&v);
        ctx.eval(fam, outcome_hash(&match &got { Outcome::Ok(c) => Outcome::Ok(vec![c.clone()]), Outcome::Panic(p) => Outcome::Panic(p.clone()) }));
        let want = quantile(x, 0.5, QMethod::Linear);
        let ok = match (&got, &want) {
            (Outcome::Ok(c), None) => c.is_null(),
            (Outcome::Ok(c), Some(ws)) => c.num().map_or(false, |g| ws.iter().any(|w| close(g, *w))),
            _ => false,
        };
        if !ok {
            let f09 = nv == 1 && x[0].is_none() && matches!(&got, Outcome::Ok(c) if c.is_null());
            viol(ctx, "vmedian".into(), if f09 { Some("F09") } else { None }, json!({}), format!("{want:?}"), format!("{got:?}"));
        }
    }
    // percentile of score
    let mut scores: Vec<X> = alpha.to_vec();
    scores.extend([Some(0.5), Some(2.5)]);
    for s in scores {
        if !encodable::<T>(&[s]) {
            continue;
        }
        for m in [PMethod::Rank, PMethod::Weak, PMethod::Strict] {
            let got = run_percentile_of::<Vec<T>, T>(&v, s, m);
            ctx.eval(fam, match &got { Outcome::Ok(c) => c.hash64(), _ => 1 });
            let want = percentile_of(x, s, m);
            let ok = match (&got, want) {
                (Outcome::Ok(c), None) => c.is_null(),
                (Outcome::Ok(c), Some(w)) => c.num() == Some(w),
                _ => false,
            };
            if !ok {
                viol(ctx, format!("vpercentile_of({m:?})"), None, json!({"score": s}), format!("{want:?}"), format!("{got:?}"));
            }
        }
    }
    // rank
    for pct in [false, true] {
        for rev in [false, true] {
            let op = MapOp::VRank(pct, rev);
            let got = run_map_any::<Vec<T>, T>(&op, &v).unwrap();
            let want = rank(x, pct, rev);
            let ok = match &got {
                Outcome::Ok(d) => {
                    ctx.eval(fam, hash_cells(&d.cells));
                    d.cells.len() == len && d.cells.iter().zip(&want).all(|(g, w)| exact_eq(g, &Cell::of(*w)))
                }
                _ => false,
            };
            if !ok {
                // F10: a length-1 all-null input is ranked 1
                let f10 = len == 1 && x[0].is_none();
                viol(ctx, op.name(), if f10 { Some("F10") } else { None }, json!({}), show_word(&want), format!("{:?}", got.clone().ok().map(|d| show_cells(&d.cells))));
            }
        }
    }
    // partitions
    for k in 0..=len + 1 {
        for sort in [false, true] {
            for rev in [false, true] {
                let want = partition_sorted(x, k, rev);
                let op = MapOp::VPartition(k, sort, rev);
                let got = run_map_any::<Vec<T>, T>(&op, &v).unwrap();
                // padding a non-nullable element type with null is the documented panic of none()
                let unpaddable = !T::NULLABLE && nv < k + 1;
                let ok = unpaddable || match &got {
                    Outcome::Ok(d) => {
                        ctx.eval(fam, hash_cells(&d.cells));
                        let g = cells_to_x(&d.cells);
                        g.len() == k + 1 && if sort { g == want } else { same_multiset(&g, &want) }
                    }
                    _ => false,
                };
                if !ok {
                    // F13: sorted partition yields len items when len < k+1
                    let f13 = sort && len < k + 1 && matches!(&got, Outcome::Ok(d) if d.cells.len() == len);
                    viol(ctx, op.name(), if f13 { Some("F13") } else { None }, json!({"k": k}), format!("{} entries {}", k + 1, show_word(&want)),
                        format!("{:?}", got.clone().ok().map(|d| show_cells(&d.cells))));
                }
                let op = MapOp::VArgPartition(k, sort, rev);
                let got = run_map_any::<Vec<T>, T>(&op, &v).unwrap();
                let ok = match &got {
                    Outcome::Ok(d) => {
                        ctx.eval(fam, hash_cells(&d.cells));
                        let idx: Vec<i64> = d.cells.iter().map(|c| c.num().unwrap_or(-99.0) as i64).collect();
                        let real: Vec<i64> = idx.iter().cloned().filter(|i| *i != -1).collect();
                        let mut uniq = real.clone();
                        uniq.sort();
                        uniq.dedup();
                        let in_range = real.iter().all(|i| *i >= 0 && (*i as usize) < len && x[*i as usize].is_some());
                        // padding (-1) only after the real indices
                        let pad_ok = idx.iter().skip_while(|i| **i != -1).all(|i| *i == -1);
                        let vals: Vec<X> = idx.iter().map(|i| if *i >= 0 && (*i as usize) < len { x[*i as usize] } else { None }).collect();
                        idx.len() == k + 1 && uniq.len() == real.len() && in_range && pad_ok && if sort { vals == want } else { same_multiset(&vals, &want) }
                    }
                    _ => false,
                };
                if !ok {
                    viol(ctx, op.name(), None, json!({"k": k}), format!("indices of {}", show_word(&want)), format!("{:?}", got.clone().ok().map(|d| show_cells(&d.cells))));
                }
            }
        }
    }
}

/// ranks and partitions of element types that are ordered but not numeric (time types, strings, booleans):
/// the same order statistics, nulls (NaT / "None" / None) ranked null and partitioned last
fn check_ordered<T>(fam: &str, tname: &str, word: &[u8], x: &[X], mk: &dyn Fn(X) -> T, back: &dyn Fn(&T) -> X, ctx: &mut Ctx)
where
    T: IsNone + PartialEq + Clone,
    T::Inner: PartialOrd,
{
    use tevec::prelude::*;
    let v: Vec<T> = x.iter().map(|a| mk(*a)).collect();
    let len = x.len();
    let mut viol = |ctx: &mut Ctx, entry: String, params: Value, expected: String, got: String| {
        ctx.violation(Violation { entry, finding: None, size: len * 100, case: json!({"family": fam, "word": word, "series": json_word(x), "elem": tname, "params": params}), expected, got });
    };
    for pct in [false, true] {
        for rev in [false, true] {
            let got = catch(|| -> Vec<f64> { v.vrank::<Vec<f64>, f64>(pct, rev) });
            let want = rank(x, pct, rev);
            let ok = match &got {
                Outcome::Ok(g) => {
                    ctx.eval(fam, hash_u64s(&g.iter().map(|a| a.to_bits()).collect::<Vec<_>>()));
                    g.len() == len && Iterator::all(&mut g.iter().zip(&want), |(g, w)| exact_eq(&Cell::f(*g), &Cell::of(*w)))
                }
                _ => false,
            };
            if !ok {
                viol(ctx, format!("vrank(pct={pct},rev={rev})"), json!({}), show_word(&want), format!("{got:?}"));
            }
        }
    }
    for k in 0..=len + 1 {
        for sort in [false, true] {
            for rev in [false, true] {
                let want = partition_sorted(x, k, rev);
                let got = catch(|| -> Vec<X> { v.vpartition(k, sort, rev).map(|t| back(&t)).collect() });
                let ok = match &got {
                    Outcome::Ok(g) => {
                        ctx.eval(fam, hash_u64s(&g.iter().map(|a| a.map_or(7, |b| b.to_bits())).collect::<Vec<_>>()));
                        g.len() == k + 1 && if sort { *g == want } else { same_multiset(g, &want) }
                    }
                    _ => false,
                };
                if !ok {
                    viol(ctx, format!("vpartition(sort={sort},rev={rev})"), json!({"k": k}), format!("{} entries {}", k + 1, show_word(&want)), format!("{got:?}"));
                }
            }
        }
    }
}

fn check_ordered_types(fam: &str, word: &[u8], x: &[X], ctx: &mut Ctx) {
    use tevec::prelude::unit::{Millisecond, Nanosecond};
    use tevec::prelude::{DateTime, Time, TimeDelta};
    ctx.fam(fam).states += 1;
    if x.iter().any(|v| v.is_some()) {
        ctx.nontrivial(fam, hash_bytes(word));
    }
    // instants on both sides of the epoch
    const STEP: i64 = 1_000_000_007;
    const OFF: i64 = 2_500_000_000;
    check_ordered::<DateTime<Nanosecond>>(fam, "DateTime<ns>", word, x, &|a| a.map_or(DateTime::nat(), |v| DateTime::new(v as i64 * STEP - OFF)), &|t| if t.is_none() { None } else { Some(((t.0 + OFF) / STEP) as f64) }, ctx);
    check_ordered::<DateTime<Millisecond>>(fam, "DateTime<ms>", word, x, &|a| a.map_or(DateTime::nat(), |v| DateTime::new(v as i64 * 7 - 10)), &|t| if t.is_none() { None } else { Some(((t.0 + 10) / 7) as f64) }, ctx);
    if x.iter().flatten().all(|v| *v >= 0.0) {
        check_ordered::<Time>(fam, "Time", word, x, &|a| a.map_or(<Time as IsNone>::none(), |v| Time(v as i64 * STEP)), &|t| if t.is_none() { None } else { Some((t.0 / STEP) as f64) }, ctx);
    }
    check_ordered::<TimeDelta>(
        fam,
        "TimeDelta",
        word,
        x,
        &|a| a.map_or(TimeDelta::nat(), |v| TimeDelta::parse(&format!("{}s", v as i64)).unwrap()),
        &|t| if t.is_none() { None } else { Some(t.inner.num_seconds() as f64) },
        ctx,
    );
    // durations that differ below the microsecond, and durations beyond 292 years (step 40 000 days)
    check_ordered::<TimeDelta>(fam, "TimeDelta(300 ns steps)", word, x, &|a| a.map_or(TimeDelta::nat(), |v| TimeDelta::from(v as i64 * 300 + 1000)), &|t| if t.is_none() { None } else { Some(((t.inner.num_nanoseconds().unwrap() - 1000) / 300) as f64) }, ctx);
    check_ordered::<TimeDelta>(
        fam,
        "TimeDelta(40000 d steps)",
        word,
        x,
        &|a| a.map_or(TimeDelta::nat(), |v| TimeDelta::parse(&format!("{}d", 110_000 + v as i64 * 40_000)).unwrap()),
        &|t| if t.is_none() { None } else { Some(((t.inner.num_days() - 110_000) / 40_000) as f64) },
        ctx,
    );
    check_ordered::<String>(fam, "String", word, x, &|a| a.map_or("None".to_string(), |v| format!("s{:03}", v as i64 + 100)), &|t| if t.is_none() { None } else { Some(t[1..].parse::<f64>().unwrap() - 100.0) }, ctx);
    check_ordered::<Option<i64>>(fam, "Option<i64>", word, x, &|a| a.map(|v| v as i64), &|t| t.map(|v| v as f64), ctx);
    if x.iter().flatten().all(|v| *v == 0.0 || *v == 1.0) {
        check_ordered::<Option<bool>>(fam, "Option<bool>", word, x, &|a| a.map(|v| v == 1.0), &|t| t.map(|v| v as i64 as f64), ctx);
    }
}

struct OrdFam {
    alpha: Vec<X>,
    max_len: usize,
}
impl TreeSys for OrdFam {
    type Memo = ();
    fn k(&self) -> usize {
        self.alpha.len()
    }
    fn max_len(&self) -> usize {
        self.max_len
    }
    fn name(&self) -> String {
        "order-ordered-types".into()
    }
    fn visit(&self, w: &[u8], _p: Option<&()>, ctx: &mut Ctx) {
        check_ordered_types("order-ordered-types", w, &decode(w, &self.alpha), ctx)
    }
}

struct Fam {
    alpha: Vec<X>,
    max_len: usize,
    /// unsigned element types up to this length
    unsigned_len: usize,
}
impl Fam {
    fn check_word(&self, word: &[u8], ctx: &mut Ctx) {
        let x = decode(word, &self.alpha);
        let fam = "order";
        ctx.fam(fam).states += 1;
        if x.iter().any(|v| v.is_some()) {
            ctx.nontrivial(fam, hash_bytes(word));
        }
        check_ty::<f64>(fam, "f64", word, &x, &self.alpha, ctx);
        check_ty::<Option<f64>>(fam, "Option<f64>", word, &x, &self.alpha, ctx);
        check_ty::<i32>(fam, "i32", word, &x, &self.alpha, ctx);
        check_ty::<Option<i32>>(fam, "Option<i32>", word, &x, &self.alpha, ctx);
        // unsigned element types: no difference of two neighbours may be formed in the element type
        if x.len() <= self.unsigned_len {
            check_ty::<u64>(fam, "u64", word, &x, &self.alpha, ctx);
            check_ty::<Option<u64>>(fam, "Option<u64>", word, &x, &self.alpha, ctx);
            check_ty::<usize>(fam, "usize", word, &x, &self.alpha, ctx);
        }
    }
}
impl TreeSys for Fam {
    type Memo = ();
    fn k(&self) -> usize {
        self.alpha.len()
    }
    fn max_len(&self) -> usize {
        self.max_len
    }
    fn name(&self) -> String {
        "order".into()
    }
    fn visit(&self, w: &[u8], _p: Option<&()>, ctx: &mut Ctx) {
        self.check_word(w, ctx)
    }
}

/// long series (17..=64 elements: beyond the point where the standard selection routine stops sorting
/// small slices completely), structured shapes plus two modular permutations, with null patterns
fn long_series(thorough: bool) -> Vec<(String, Vec<X>)> {
    let lens: Vec<usize> = if thorough { vec![17, 18, 23, 24, 33, 40, 64] } else { vec![17, 24] };
    let mut out = vec![];
    for len in lens {
        for (label, x) in rollcheck::structured_shapes(len, false) {
            out.push((format!("{label}/{len}"), x));
        }
        for k in [7usize, 11] {
            let m = if len % k == 0 { len + 1 } else { len };
            let perm: Vec<X> = (0..len).map(|i| Some(((i * k) % m) as f64)).collect();
            let mut holes = perm.clone();
            for i in (2..len).step_by(5) {
                holes[i] = None;
            }
            out.push((format!("perm({k})/{len}"), perm));
            out.push((format!("perm({k})+nulls/{len}"), holes));
        }
    }
    out
}

fn check_long(label: &str, x: &[X], alpha: &[X], ctx: &mut Ctx) {
    let fam = "order-long";
    ctx.fam(fam).states += 1;
    ctx.states += 1;
    ctx.transitions += 1;
    ctx.nontrivial(fam, hash_bytes(label.as_bytes()));
    check_ty::<f64>(fam, "f64", &[], x, alpha, ctx);
    check_ty::<Option<f64>>(fam, "Option<f64>", &[], x, alpha, ctx);
}

/// neighbours further apart than the element type's MAX: i32 at its extremes
fn ext_alpha() -> Vec<X> {
    vec![None, Some(i32::MIN as f64), Some(-1.0), Some(0.0), Some(i32::MAX as f64)]
}
fn check_int_extremes(w: &[u8], ctx: &mut Ctx) {
    let fam = "order-int-extremes";
    let alpha = ext_alpha();
    let x = decode(w, &alpha);
    ctx.states += 1;
    ctx.transitions += 1;
    ctx.fam(fam).states += 1;
    ctx.nontrivial(fam, hash_bytes(w));
    // an interpolated quantile between neighbours 2^32 apart carries the rounding of the fractional index
    // times that gap (and DESIGN 5.5 lets an index within 1e-9 of an integer be read either way): absolute
    // tolerance 1e-9 * 2^32; the seeded errors (wrapped differences, overflow panics) are of order 2^31
    set_abs_tol(1e-9 * 4294967296.0);
    check_ty::<i32>(fam, "i32", w, &x, &alpha, ctx);
    check_ty::<Option<i32>>(fam, "Option<i32>", w, &x, &alpha, ctx);
    check_ty::<i64>(fam, "i64", w, &x, &alpha, ctx);
    set_abs_tol(0.0);
}
fn huge_alpha() -> Vec<X> {
    vec![None, Some(1.0e308), Some(1.25e308), Some(1.5e308), Some(f64::MAX)]
}
/// same-sign values at the top of the f64 range (seed round 12): the sum of two neighbours leaves the range although
/// every order statistic and every interpolated value between two of them is finite. The median and the linear
/// quantile lie between their two neighbouring order statistics, at lo + (hi - lo) * fraction.
fn check_huge(w: &[u8], ctx: &mut Ctx) {
    let fam = "order-huge";
    ctx.states += 1;
    ctx.transitions += 1;
    ctx.fam(fam).states += 1;
    ctx.nontrivial(fam, hash_bytes(w));
    for sign in [1.0f64, -1.0] {
        let x: Vec<X> = decode(w, &huge_alpha()).into_iter().map(|v| v.map(|a| a * sign)).collect();
        let mut sorted: Vec<f64> = x.iter().flatten().copied().collect();
        sorted.sort_by(|a, b| a.partial_cmp(b).unwrap());
        let n = sorted.len();
        let want = |q: f64| -> Option<(f64, f64, f64)> {
            if n == 0 {
                return None;
            }
            let pos = q * (n - 1) as f64;
            let (i, j) = (pos.floor() as usize, pos.ceil() as usize);
            Some((sorted[i], sorted[j], sorted[i] + (sorted[j] - sorted[i]) * (pos - i as f64)))
        };
        let one = |ctx: &mut Ctx, entry: &str, tname: &str, q: f64, got: Outcome<Cell>| {
            ctx.eval(fam, match &got { Outcome::Ok(c) => c.hash64(), Outcome::Panic(p) => hash_bytes(p.as_bytes()) });
            let ok = match (&got, want(q)) {
                (Outcome::Ok(c), None) => c.is_null(),
                (Outcome::Ok(c), Some((lo, hi, mid))) => c.num().map_or(false, |g| g.is_finite() && g >= lo && g <= hi && (g - mid).abs() <= 1e-12 * mid.abs()),
                _ => false,
            };
            if !ok {
                ctx.violation(Violation {
                    entry: entry.to_string(),
                    finding: None,
                    size: x.len() * 100,
                    case: json!({"family": fam, "word": w, "series": json_word(&x), "elem": tname, "sign": sign, "params": {"q": q}}),
                    expected: format!("{:?} (lo, hi, interpolated)", want(q)),
                    got: format!("{got:?}"),
                });
            }
        };
        one(ctx, "vmedian", "f64", 0.5, run_median::<Vec<f64>, f64>(&enc_vec(&x)));
        one(ctx, "vmedian", "Option<f64>", 0.5, run_median::<Vec<Option<f64>>, Option<f64>>(&enc_vec(&x)));
        for q in [0.0, 0.25, 0.5, 0.75, 1.0] {
            one(ctx, "vquantile(Linear)", "f64", q, run_quantile::<Vec<f64>, f64>(&enc_vec(&x), q, QMethod::Linear));
            one(ctx, "vquantile(Linear)", "Option<f64>", q, run_quantile::<Vec<Option<f64>>, Option<f64>>(&enc_vec(&x), q, QMethod::Linear));
        }
    }
}
fn ord_alpha() -> Vec<X> {
    vec![None, Some(0.0), Some(1.0), Some(3.0)]
}
fn nan_alpha() -> Vec<X> {
    vec![None, Some(-1.0), Some(0.0), Some(2.0)]
}
/// every NaN is the same null (DESIGN 5.4): the float encodings written with the run-time NaN of x86-64
/// (sign bit set) and with both NaN kinds mixed
fn check_nan_kinds(w: &[u8], alpha: &[X], ctx: &mut Ctx) {
    let fam = "order-nan-kinds";
    let x = decode(w, alpha);
    ctx.states += 1;
    ctx.transitions += 1;
    ctx.fam(fam).states += 1;
    ctx.nontrivial(fam, hash_bytes(w));
    for kind in [1u8, 3] {
        with_nan_kind(kind, || {
            check_ty::<f64>(fam, "f64", w, &x, alpha, ctx);
            check_ty::<f32>(fam, "f32", w, &x, alpha, ctx);
        });
    }
}

/// the percentile of a score among 64-bit integers of magnitude 2^60: the proportions are those of the small
/// offsets (translation relation; the comparisons are made in the element type, not in f64)
fn check_percentile_wide(ctx: &mut Ctx) {
    let fam = "order-wide-percentile";
    let alpha: Vec<X> = vec![None, Some(0.0), Some(1.0), Some(2.0), Some(3.0)];
    for w in all_words_upto(alpha.len(), 4) {
        if w.is_empty() {
            continue;
        }
        let x = decode(&w, &alpha);
        let offs: Vec<Option<i64>> = x.iter().map(|v| v.map(|a| a as i64)).collect();
        ctx.states += 1;
        ctx.fam(fam).states += 1;
        ctx.nontrivial(fam, hash_bytes(&w));
        let has_null = x.iter().any(|v| v.is_none());
        for base in [1i64 << 60, -(1i64 << 60), i64::MAX - 8, (1i64 << 53) + 1] {
            for s in 0..4i64 {
                for m in [PMethod::Rank, PMethod::Weak, PMethod::Strict] {
                    let want = percentile_of(&x, Some(s as f64), m);
                    for kind in 0..3u8 {
                        if (kind > 0 && has_null) || (kind == 2 && base < 0) {
                            continue;
                        }
                        ctx.transitions += 1;
                        let got = mc_adapt::aggs::percentile_of_wide(&offs, s, base, m, kind);
                        ctx.eval(fam, match &got { Outcome::Ok(c) => c.hash64(), _ => 1 });
                        let ok = match (&got, want) {
                            (Outcome::Ok(c), None) => c.is_null(),
                            (Outcome::Ok(c), Some(wv)) => c.num() == Some(wv),
                            _ => false,
                        };
                        if !ok {
                            let ename = ["Option<i64>", "i64", "u64 (2^63 + |base|)"][kind as usize];
                            ctx.violation(Violation {
                                entry: format!("vpercentile_of({m:?}) on wide integers"),
                                finding: None,
                                size: x.len(),
                                case: json!({"family": fam, "word": w, "offsets": offs, "base": base, "score_offset": s, "elem": ename}),
                                expected: format!("as on the offsets alone: {want:?}"),
                                got: format!("{got:?}"),
                            });
                        } else {
                            ctx.traces += 1;
                        }
                    }
                }
            }
        }
    }
}

fn main() {
    let run = Run::from_args("C12");
    let fam = Fam { alpha: vec![None, Some(0.0), Some(1.0), Some(2.0), Some(3.0)], max_len: run.pick(6, 8), unsigned_len: run.pick(5, 6) };
    if let Some(path) = &run.replay {
        let stored = load_replay(path).unwrap_or_else(|e| {
            eprintln!("MACHINERY-ERROR: {e}");
            std::process::exit(2)
        });
        let mut ctx = Ctx::new();
        if stored["case"]["family"] == "order-inf" {
            let inf_alpha: Vec<X> = vec![None, Some(f64::NEG_INFINITY), Some(0.0), Some(1.0), Some(f64::INFINITY)];
            let w = syms_from_json(&stored["case"]["word"]);
            let x = decode(&w, &inf_alpha);
            INF_MODE.with(|c| c.set(true));
            check_ty::<f64>("order-inf", "f64", &w, &x, &inf_alpha, &mut ctx);
            check_ty::<Option<f64>>("order-inf", "Option<f64>", &w, &x, &inf_alpha, &mut ctx);
        } else if stored["case"]["family"] == "order-ordered-types" {
            let w = syms_from_json(&stored["case"]["word"]);
            check_ordered_types("order-ordered-types", &w, &decode(&w, &ord_alpha()), &mut ctx);
        } else if stored["case"]["family"] == "order-wide-percentile" {
            check_percentile_wide(&mut ctx);
        } else if stored["case"]["family"] == "order-int-extremes" {
            check_int_extremes(&syms_from_json(&stored["case"]["word"]), &mut ctx);
        } else if stored["case"]["family"] == "order-huge" {
            check_huge(&syms_from_json(&stored["case"]["word"]), &mut ctx);
        } else if stored["case"]["family"] == "order-nan-kinds" {
            let w = syms_from_json(&stored["case"]["word"]);
            check_nan_kinds(&w, &nan_alpha(), &mut ctx);
        } else if stored["case"]["family"] == "order-long" {
            let x: Vec<X> = stored["case"]["series"].as_array().map(|a| a.iter().map(|v| v.as_f64()).collect()).unwrap_or_default();
            check_long("replay", &x, &fam.alpha, &mut ctx);
        } else {
            fam.check_word(&syms_from_json(&stored["case"]["word"]), &mut ctx);
        }
        std::process::exit(finish_replay(&run, &stored, ctx));
    }
    let mut total = explore_tree(&fam, run.threads);
    // infinities are ordinary extreme values for ranks, partitions and the non-interpolating quantiles
    let inf_alpha: Vec<X> = vec![None, Some(f64::NEG_INFINITY), Some(0.0), Some(1.0), Some(f64::INFINITY)];
    let inf_words = all_words_upto(inf_alpha.len(), run.pick(4, 5));
    total.merge(par_items(&inf_words, run.threads, |w, ctx| {
        let x = decode(w, &inf_alpha);
        ctx.states += 1;
        ctx.transitions += 1;
        ctx.fam("order-inf").states += 1;
        ctx.nontrivial("order-inf", hash_bytes(w));
        INF_MODE.with(|c| c.set(true));
        check_ty::<f64>("order-inf", "f64", w, &x, &inf_alpha, ctx);
        check_ty::<Option<f64>>("order-inf", "Option<f64>", w, &x, &inf_alpha, ctx);
        INF_MODE.with(|c| c.set(false));
    }));
    total.merge(explore_tree(&OrdFam { alpha: ord_alpha(), max_len: run.pick(5, 6) }, run.threads));
    let nan_words: Vec<Vec<u8>> = all_words_upto(nan_alpha().len(), run.pick(5, 6)).into_iter().filter(|w| w.contains(&0)).collect();
    total.merge(par_items(&nan_words, run.threads, |w, ctx| check_nan_kinds(w, &nan_alpha(), ctx)));
    let ext_words = all_words_upto(ext_alpha().len(), run.pick(4, 5));
    total.merge(par_items(&ext_words, run.threads, |w, ctx| check_int_extremes(w, ctx)));
    let huge_words = all_words_upto(huge_alpha().len(), run.pick(4, 6));
    total.merge(par_items(&huge_words, run.threads, |w, ctx| check_huge(w, ctx)));
    {
        let mut c = Ctx::new();
        check_percentile_wide(&mut c);
        total.merge(c);
    }
    let long = long_series(!run.quick());
    total.merge(par_items(&long, run.threads, |(label, x), ctx| check_long(label, x, &fam.alpha, ctx)));
    let meta = Meta {
        rule: "history tree of every word over {null,0,1,2,3}; at each word: vquantile on a q-grid (incl. j/(n-1) and j/(n-1)+-1e-12) x 4 interpolation methods, vmedian, vpercentile_of (every score of the alphabet, 0.5, 2.5, null x 3 methods), vrank (pct x rev), vpartition / varg_partition (k in 0..=len+1 x sort x rev), element types f64 / Option<f64> / i32 / Option<i32>; oracle = sort the non-null values and index. Plus the same operations on long structured series (17..=64 elements: ramps, saws, plateaus, zigzags, modular permutations, with null blocks and periodic null patterns). Non-trivial = word with a non-null element. Also (DESIGN 5.15, 5.16): ranks and partitions of ordered non-numeric element types (order-ordered-types: DateTime ns / ms, Time, TimeDelta, String, Option<i64>, Option<bool>); NaN kinds (order-nan-kinds); unsigned element types u64 / Option<u64> / usize; i32 neighbours further apart than the type's MAX (order-int-extremes, tolerance scaled to the gap). Round 9 (DESIGN 5.18): TimeDelta alphabets with 300 ns steps and with 40000 d steps (beyond the i64 nanosecond count) among the ordered types. Round 11 (DESIGN 5.20): order-wide-percentile - vpercentile_of on i64 / Option<i64> / u64 series around +-2^60, 2^53+1, i64::MAX-8, 2^63+..: the proportions are those of the small offsets. Round 12 (DESIGN 5.21): order-huge - vmedian and the linear vquantile on same-sign f64 / Option<f64> words over {null, 1e308, 1.25e308, 1.5e308, f64::MAX} and their negatives: finite, between the two neighbouring order statistics, at lo + (hi - lo) * fraction.".into(),
        bounds: json!({"alphabet": json_word(&fam.alpha), "L": fam.max_len, "k": "0..=len+1", "q_grid": "0,.1,.2,.25,.3,1/3,.5,2/3,.7,.75,.9,1, j/(n-1), j/(n-1)+-1e-12"}),
        assumptions: vec!["fractional index within 1e-9 of an integer: either neighbouring reading accepted (DESIGN 5.5)".into(),
            "unsorted partitions compared as multisets; arg-partition index sets with ties accepted when the values form the right multiset (DESIGN 5.6)".into()],
        exhaustive: true,
        min_states: 1000,
    };
    std::process::exit(finish(&run, meta, total));
}
