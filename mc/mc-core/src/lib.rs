//! mc-core: explorer, enumerators, evidence / replay writers.  No dependency on tevec.
pub mod cell;
pub mod explore;
pub mod report;
pub mod words;

pub use cell::*;
pub use explore::*;
pub use report::*;
pub use words::*;
pub use serde_json::{json, Value};
